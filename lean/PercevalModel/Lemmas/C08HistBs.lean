/-
  C08 — the PINNED `BSLayeredPPNR` along histories that change `min_p` (`Model/C08Hist.lean`, `bsInstH false`):
  the specification `bsStaleOuts` and the invariant that proves it.

  `BSLayeredPPNR._cache` is keyed by the photon count alone and emptied by `clear_cache()`.  Hence the pinned code
  answers `detect(n)` (`n ≥ 2`) with the fresh dictionary at the `min_p` of the FIRST `detect(n)` SINCE THE LAST
  `clear_cache()`.
-/
import PercevalModel.Lemmas.C08Hist

set_option linter.unusedSectionVars false

namespace PM.C08

section histBs
variable {K : Type} [Field K] [LinearOrder K]

/-- what the PINNED `BSLayeredPPNR` answers along a history of `detect(n)` at changing `min_p` (`some (min_p, n)`) and
`clear_cache()` (`none`): `pre` = the `detect` calls made since the last `clear_cache()` -/
def bsStaleOuts (L : ℕ) (r : K) : List (K × ℕ) → List (Option (K × ℕ)) → List (Option (ℕ × DetOut K))
  | _, [] => []
  | _, none :: rest => none :: bsStaleOuts L r [] rest
  | pre, some op :: rest =>
    some (op.2, bsDetectP ((firstP pre op.2).getD op.1) L r op.2) :: bsStaleOuts L r (pre ++ [op]) rest

/-- invariant of the PINNED long-lived `BSLayeredPPNR` after the calls `pre` since the last `clear_cache()` -/
def BsH.Stale (L : ℕ) (r : K) (pre : List (K × ℕ)) (s : BsH K) : Prop :=
  (∀ n d, s.cache.get n = some d → ∃ p, firstP pre n = some p ∧ d = aggregate (treeOccP p r L n)) ∧
  (∀ n p, 2 ≤ n → firstP pre n = some p → s.cache.get n ≠ none)

theorem BsH.stale_init (L : ℕ) (r : K) (mk : Option K) : BsH.Stale L r [] (⟨[], mk⟩ : BsH K) := by
  refine ⟨?_, ?_⟩
  · intro n d h; simp [DCache.get] at h
  · intro n p _ h; simp [firstP] at h

theorem bsDetectP_small (p : K) (L : ℕ) (r : K) (n : ℕ) (h : n < 2) : bsDetectP p L r n = .state n := by
  simp [bsDetectP, h]

theorem bsDetectP_big (p : K) (L : ℕ) (r : K) (n : ℕ) (h : ¬ n < 2) :
    bsDetectP p L r n = .dist (aggregate (treeOccP p r L n)) := by
  simp [bsDetectP, h]

/-- `firstP` after one more call, at another photon count -/
theorem firstP_append_some {pre : List (K × ℕ)} {m : ℕ} {q : K} (op : K × ℕ) (h : firstP pre m = some q) :
    firstP (pre ++ [op]) m = some q := by
  rw [firstP_append, h]; rfl

theorem firstP_append_none {pre : List (K × ℕ)} {m : ℕ} (op : K × ℕ) (h : firstP pre m = none) :
    firstP (pre ++ [op]) m = if op.2 = m then some op.1 else none := by
  rw [firstP_append, h]; rfl

/-- `clear_cache()` on the pinned instance: the history of first calls starts again -/
theorem bsInstH_stale_clear (L : ℕ) (r : K) (s : BsH K) :
    BsH.Stale L r [] (bsInstH false L r s none).1 ∧ (bsInstH false L r s none).2 = none :=
  ⟨BsH.stale_init L r s.mark, rfl⟩

/-- `detect(n)` on the pinned instance -/
theorem bsInstH_stale_step (L : ℕ) (r : K) (pre : List (K × ℕ)) (s : BsH K) (op : K × ℕ)
    (h : BsH.Stale L r pre s) :
    BsH.Stale L r (pre ++ [op]) (bsInstH false L r s (some op)).1 ∧
      (bsInstH false L r s (some op)).2 = some (op.2, bsDetectP ((firstP pre op.2).getD op.1) L r op.2) := by
  obtain ⟨p, n⟩ := op
  obtain ⟨ha, hb⟩ := h
  unfold bsInstH
  simp only []
  split
  · next hlt =>
    refine ⟨⟨?_, ?_⟩, by rw [bsDetectP_small _ L r n hlt]⟩
    · intro m d hd
      obtain ⟨q, hq, e⟩ := ha m d hd
      exact ⟨q, firstP_append_some _ hq, e⟩
    · intro m q hm2 hq
      cases hf : firstP pre m with
      | some q' => exact hb m q' hm2 hf
      | none =>
        rw [firstP_append_none _ hf] at hq
        simp only at hq
        split at hq
        · next hnm => omega
        · cases hq
  · next hge =>
    have hsync : s.sync false p = s := by simp [BsH.sync]
    rw [hsync]
    have h2 : 2 ≤ n := by omega
    unfold bsInst
    simp only [hge, if_false]
    cases hc : s.cache.get n with
    | some d =>
      obtain ⟨q, hq, e⟩ := ha n d hc
      simp only []
      refine ⟨⟨?_, ?_⟩, by rw [hq, bsDetectP_big _ L r n hge, e]; rfl⟩
      · intro m d' hd'
        obtain ⟨q', hq', e'⟩ := ha m d' hd'
        exact ⟨q', firstP_append_some _ hq', e'⟩
      · intro m q' hm2 hq'
        cases hf : firstP pre m with
        | some q'' => exact hb m q'' hm2 hf
        | none =>
          rw [firstP_append_none _ hf] at hq'
          simp only at hq'
          split at hq'
          · next hnm => subst hnm; rw [hc]; simp
          · cases hq'
    | none =>
      have hfn : firstP pre n = none := by
        cases hf : firstP pre n with
        | none => rfl
        | some q => exact absurd hc (hb n q h2 hf)
      simp only []
      refine ⟨⟨?_, ?_⟩, by rw [hfn, bsDetectP_big _ L r n hge]; rfl⟩
      · intro m d' hd'
        simp only [DCache.get] at hd'
        split at hd'
        · next heq =>
          cases hd'
          subst heq
          exact ⟨p, by rw [firstP_append_none _ hfn]; simp, rfl⟩
        · obtain ⟨q', hq', e'⟩ := ha m d' hd'
          exact ⟨q', firstP_append_some _ hq', e'⟩
      · intro m q' hm2 hq'
        simp only [DCache.get]
        split
        · simp
        · next hnm =>
          cases hf : firstP pre m with
          | some q'' => exact hb m q'' hm2 hf
          | none =>
            rw [firstP_append_none _ hf] at hq'
            simp only at hq'
            split at hq'
            · next hnm' => exact absurd hnm' hnm
            · cases hq'

/-- the pinned law from any state satisfying the invariant -/
theorem bs_stale_run (L : ℕ) (r : K) (ops : List (Option (K × ℕ))) :
    ∀ (pre : List (K × ℕ)) (s : BsH K), BsH.Stale L r pre s →
      (SM.run (bsInstH false L r) s ops).2 = bsStaleOuts L r pre ops := by
  induction ops with
  | nil => intro pre s _; rfl
  | cons op rest ih =>
    intro pre s h
    cases op with
    | none =>
      obtain ⟨h1, h2⟩ := bsInstH_stale_clear L r s
      simp only [SM.run, bsStaleOuts]
      rw [h2, ih _ _ h1]
    | some op =>
      obtain ⟨h1, h2⟩ := bsInstH_stale_step L r pre s op h
      simp only [SM.run, bsStaleOuts]
      rw [h2, ih _ _ h1]

/-- when every call so far was made at `minP`, `firstP` can only answer `minP` -/
theorem firstP_getD_const (pre : List (K × ℕ)) (minP : K) (n : ℕ) (hp : ∀ e ∈ pre, e.1 = minP) :
    (firstP pre n).getD minP = minP := by
  unfold firstP
  cases hfind : pre.find? fun e => e.2 = n with
  | none => rfl
  | some e => simpa using hp e (List.mem_of_find?_eq_some hfind)

/-- at a constant `min_p` the stale specification is the fresh one -/
theorem bsStaleOuts_const (L : ℕ) (r minP : K) (ops : List (Option ℕ)) :
    ∀ pre : List (K × ℕ), (∀ e ∈ pre, e.1 = minP) →
      bsStaleOuts L r pre (ops.map fun o => o.map fun n => (minP, n))
        = ops.map fun o => o.map fun n => (n, bsDetectP minP L r n) := by
  induction ops with
  | nil => intro pre _; rfl
  | cons o rest ih =>
    intro pre hp
    cases o with
    | none =>
      simp only [List.map_cons, Option.map_none, bsStaleOuts]
      rw [ih [] (by intro e he; cases he)]
    | some n =>
      simp only [List.map_cons, Option.map_some, bsStaleOuts]
      rw [firstP_getD_const pre minP n hp, ih (pre ++ [(minP, n)])]
      intro e he
      rcases List.mem_append.mp he with he | he
      · exact hp e he
      · simp at he; rw [he]

/-- every state the pinned instance can reach satisfies the invariant for SOME list of calls since the last
`clear_cache()` -/
theorem bs_stale_exec (L : ℕ) (r : K) (ops : List (Option (K × ℕ))) :
    ∀ (pre : List (K × ℕ)) (s : BsH K), BsH.Stale L r pre s →
      ∃ pre', BsH.Stale L r pre' (SM.exec (bsInstH false L r) s ops) := by
  induction ops with
  | nil => intro pre s h; exact ⟨pre, h⟩
  | cons op rest ih =>
    intro pre s h
    rw [SM.exec_cons]
    cases op with
    | none => exact ih _ _ (bsInstH_stale_clear L r s).1
    | some op => exact ih _ _ (bsInstH_stale_step L r pre s op h).1

/-- the specification right after a `clear_cache()`: the next `detect` is answered at ITS `min_p`, whatever was
asked before -/
theorem bsStaleOuts_after_clear (L : ℕ) (r : K) (pre : List (K × ℕ)) (op : K × ℕ) (rest : List (Option (K × ℕ))) :
    bsStaleOuts L r pre (none :: some op :: rest)
      = none :: some (op.2, bsDetectP op.1 L r op.2) :: bsStaleOuts L r [op] rest := by
  simp [bsStaleOuts, firstP]

end histBs

end PM.C08
