/-
  C05 — the strong-simulation backend machine `B` of `Model/C05.lean` (Naive / SLAP / SLOS / MPS), repaired
  code (`fixed = true`): the invariant `InvB`, its preservation by every operation of `stepB true` for every
  backend kind, the closed form `ansB` of a query under the invariant, and `config ∘ canon = id`.
-/
import PercevalModel.Lemmas.C05

namespace PM.C05

open SM

/-- every cache entry's ghost agrees with the current configuration on what the entry depends on -/
structure InvB (s : B) : Prop where
  noCirc : s.circ = none → s.input = none ∧ s.iter = [] ∧ s.paths = []
  inLen : ∀ inp c, s.input = some inp → s.circ = some c → inp.length = c.m
  maskLen : ∀ inp mc, s.input = some inp → s.mask = some mc → mc.len = inp.length
  cutOk : s.kind ≠ .mps → s.cutReq = none
  minstNone : s.mask = none → s.minst = none
  minstIn : ∀ inp, s.input = some inp → s.minst = expInst s.mask (sum inp)
  iterOk : ∀ e c, e ∈ s.iter → s.circ = some c → e.2 = (c.m, expInst s.mask e.1)
  nonSlos : s.kind ≠ .slos → s.layers = [] ∧ s.fsas = [] ∧ s.paths = []
  slosInst : s.kind = .slos → ∀ mc, s.mask = some mc →
    (∀ k, s.instN = some k → s.minst = some (mc.sid, k)) ∧
    (s.instN = none → s.minst = none ∧ s.layers = [] ∧ s.fsas = [] ∧ s.paths = []) ∧
    (∀ inp, s.input = some inp → s.instN = some (maskN mc.n (sum inp)))
  layersOk : ∀ t c, t ∈ s.layers → s.circ = some c → t = (c.m, s.minst)
  fsasOk : ∀ e c, e ∈ s.fsas → s.circ = some c → e.2 = (c.m, s.minst)
  pathsOk : ∀ p c, p ∈ s.paths → s.circ = some c →
    p.2 = c.uid ∧ sum p.1 ≤ s.layers.length ∧ (lookup (sum p.1) s.fsas).isSome = true
  fockOk : s.kind = .slap → ∀ inp, s.input = some inp → s.fock = some (inp.length, sum inp)
  mpsOk : s.kind = .mps → ∀ inp c, s.input = some inp → s.circ = some c →
    s.compiled = some (inp, c.uid, effCut s.cutReq inp) ∧ s.cutCur = some (effCut s.cutReq inp)

theorem invB_init (k : Kind) : InvB (initB k) := by
  constructor <;> simp [initB]

@[simp, grind =] theorem expInst_none (k : Nat) : expInst none k = none := rfl
@[simp, grind =] theorem expInst_some (mc : MaskCfg) (k : Nat) :
    expInst (some mc) k = some (mc.sid, maskN mc.n k) := rfl

/-! ### the helper functions leave the kind and the configuration alone -/

@[simp] theorem initMask_kind (s : B) : (initMask true s).kind = s.kind := by
  unfold initMask; split
  · simp only []; split <;> rfl
  · rfl
@[simp] theorem initMask_config (s : B) : (initMask true s).config = s.config := by
  unfold initMask; split
  · simp only []; split <;> rfl
  · rfl
@[simp] theorem deploy_kind (s : B) (inp : List Nat) : (deploy s inp).kind = s.kind := by
  unfold deploy; split
  · rfl
  · split <;> rfl
@[simp] theorem deploy_config (s : B) (inp : List Nat) : (deploy s inp).config = s.config := by
  unfold deploy; split
  · rfl
  · split <;> rfl
@[simp] theorem compile_kind (s : B) (inp : List Nat) : (compile true s inp).kind = s.kind := by
  unfold compile; split <;> rfl
@[simp] theorem compile_config (s : B) (inp : List Nat) : (compile true s inp).config = s.config := by
  unfold compile; split <;> rfl
@[simp] theorem getIter_kind (s : B) (c : Circ) (inp : List Nat) : (getIter s c inp).1.kind = s.kind := by
  unfold getIter; split <;> rfl
@[simp] theorem getIter_config (s : B) (c : Circ) (inp : List Nat) :
    (getIter s c inp).1.config = s.config := by
  unfold getIter; split <;> rfl

/-- a query changes caches only -/
theorem queryB_kind_config (s : B) (q : Q) :
    (queryB true s q).1.kind = s.kind ∧ (queryB true s q).1.config = s.config := by
  unfold queryB
  split
  · split
    · exact ⟨rfl, rfl⟩
    · split
      · split <;> simp
      · split
        · split
          · split <;> simp
          · simp
        · simp
      · split
        · split
          · simp
          · split <;> simp
        · simp
      · simp only [if_true]
        split
        · simp
        · split
          · simp
          · split <;> simp
  · exact ⟨rfl, rfl⟩

/-! ### preservation of `InvB`, one operation at a time -/

theorem invB_setCircuit (s : B) (c : Circ) (h : InvB s) : InvB (stepB true s (.setCircuit c)).1 := by
  obtain ⟨kind, circ, input, mask, minst, iter, instN, layers, fsas, paths, fock, cutReq, cutCur, compiled⟩ := s
  obtain ⟨h1, h2, h3, h4, h5, h6, h7, h8, h9, h10, h11, h12, h13, h14⟩ := h
  simp only at h1 h2 h3 h4 h5 h6 h7 h8 h9 h10 h11 h12 h13 h14
  cases kind
  · cases circ
    · constructor <;> simp [stepB] <;> grind
    · constructor <;> simp [stepB] <;> grind
  · cases circ
    · constructor <;> simp [stepB] <;> grind
    · constructor <;> simp [stepB] <;> grind
  · cases circ with
    | none => constructor <;> simp [stepB, reset] <;> grind
    | some p =>
      by_cases hp : paths ≠ [] ∧ p.m = c.m
      · constructor <;> simp [stepB, hp] <;> grind
      · constructor <;> simp [stepB, reset, hp] <;> grind
  · cases circ
    · constructor <;> simp [stepB] <;> grind
    · constructor <;> simp [stepB] <;> grind

theorem invB_clearMask (s : B) (h : InvB s) : InvB (stepB true s .clearMask).1 := by
  obtain ⟨kind, circ, input, mask, minst, iter, instN, layers, fsas, paths, fock, cutReq, cutCur, compiled⟩ := s
  obtain ⟨h1, h2, h3, h4, h5, h6, h7, h8, h9, h10, h11, h12, h13, h14⟩ := h
  simp only at h1 h2 h3 h4 h5 h6 h7 h8 h9 h10 h11 h12 h13 h14
  cases kind <;> constructor <;> simp [stepB, reset, expInst] <;> grind

theorem invB_setMask (s : B) (sid len : Nat) (n : Option Nat) (h : InvB s) :
    InvB (stepB true s (.setMask sid len n)).1 := by
  obtain ⟨kind, circ, input, mask, minst, iter, instN, layers, fsas, paths, fock, cutReq, cutCur, compiled⟩ := s
  obtain ⟨h1, h2, h3, h4, h5, h6, h7, h8, h9, h10, h11, h12, h13, h14⟩ := h
  simp only at h1 h2 h3 h4 h5 h6 h7 h8 h9 h10 h11 h12 h13 h14
  cases input with
  | none =>
    cases kind <;> constructor <;> simp [stepB, reset, initMask, badLenI, expInst] <;> grind
  | some inp =>
    by_cases hl : inp.length = len
    · cases kind <;> constructor <;> simp [stepB, reset, initMask, badLenI, expInst, hl] <;> grind
    · simp only [stepB, badLenI, bne_iff_ne, ne_eq, hl, not_false_eq_true, if_true]
      exact ⟨h1, h2, h3, h4, h5, h6, h7, h8, h9, h10, h11, h12, h13, h14⟩

theorem invB_setCutoff (s : B) (k : Nat) (h : InvB s) : InvB (stepB true s (.setCutoff k)).1 := by
  obtain ⟨kind, circ, input, mask, minst, iter, instN, layers, fsas, paths, fock, cutReq, cutCur, compiled⟩ := s
  obtain ⟨h1, h2, h3, h4, h5, h6, h7, h8, h9, h10, h11, h12, h13, h14⟩ := h
  simp only at h1 h2 h3 h4 h5 h6 h7 h8 h9 h10 h11 h12 h13 h14
  cases kind
  case mps =>
    cases input with
    | none => constructor <;> simp [stepB] <;> grind
    | some inp =>
      cases circ with
      | none => simp at h1
      | some c => constructor <;> simp [stepB, compile] <;> grind
  all_goals
    simp only [stepB, reduceCtorEq, if_false]
    exact ⟨h1, h2, h3, h4, h5, h6, h7, h8, h9, h10, h11, h12, h13, h14⟩

theorem invB_getIter (s : B) (c : Circ) (inp : List Nat) (h : InvB s) (hc : s.circ = some c)
    (hi : s.input = some inp) : InvB (getIter s c inp).1 := by
  unfold getIter
  split
  · exact h
  · obtain ⟨kind, circ, input, mask, minst, iter, instN, layers, fsas, paths, fock, cutReq, cutCur, compiled⟩ := s
    obtain ⟨h1, h2, h3, h4, h5, h6, h7, h8, h9, h10, h11, h12, h13, h14⟩ := h
    simp only at h1 h2 h3 h4 h5 h6 h7 h8 h9 h10 h11 h12 h13 h14 hc hi
    subst hc hi
    constructor <;> simp <;> grind

/-- SLOS `_deploy` + new path for the current input -/
theorem invB_deploy (s : B) (inp : List Nat) (h : InvB s) (hk : s.kind = .slos)
    (hi : s.input = some inp) : InvB (deploy s inp) := by
  unfold deploy
  split
  · exact h
  · rename_i c hc
    split
    · exact h
    · obtain ⟨kind, circ, input, mask, minst, iter, instN, layers, fsas, paths, fock, cutReq, cutCur, compiled⟩ := s
      obtain ⟨h1, h2, h3, h4, h5, h6, h7, h8, h9, h10, h11, h12, h13, h14⟩ := h
      simp only at h1 h2 h3 h4 h5 h6 h7 h8 h9 h10 h11 h12 h13 h14 hc hi hk
      subst hc hi hk
      cases hf : lookup (sum inp) fsas with
      | some t => constructor <;> simp <;> grind
      | none => constructor <;> simp <;> grind [lookup_cons_isSome, lookup_self_isSome]

@[simp] theorem initMask_input (s : B) : (initMask true s).input = s.input :=
  congrArg BCfg.input (initMask_config s)

/-- `_init_mask` for a new input (with the SLOS override): the invariant of a SLOS or Naive backend -/
theorem invB_initMask_input (s : B) (inp : List Nat) (c : Circ) (h : InvB s)
    (hk : s.kind = .slos ∨ s.kind = .naive) (hc : s.circ = some c) (hl : inp.length = c.m)
    (hb : badLen s.mask inp.length = false) : InvB (initMask true { s with input := some inp }) := by
  obtain ⟨kind, circ, input, mask, minst, iter, instN, layers, fsas, paths, fock, cutReq, cutCur, compiled⟩ := s
  obtain ⟨h1, h2, h3, h4, h5, h6, h7, h8, h9, h10, h11, h12, h13, h14⟩ := h
  simp only at h1 h2 h3 h4 h5 h6 h7 h8 h9 h10 h11 h12 h13 h14 hk hc hb
  subst hc
  cases mask with
  | none => rcases hk with rfl | rfl <;> constructor <;> simp [initMask, expInst] <;> grind
  | some mc =>
    simp only [badLen, bne_eq_false_iff_eq] at hb
    rcases hk with rfl | rfl
    · by_cases hn : instN = some (maskN mc.n (sum inp))
      · constructor <;> simp [initMask, expInst, hn] <;> grind
      · constructor <;> simp [initMask, expInst, hn, reset] <;> grind
    · constructor <;> simp [initMask, expInst] <;> grind

theorem invB_setInput (s : B) (inp : List Nat) (h : InvB s) : InvB (stepB true s (.setInput inp)).1 := by
  simp only [stepB]
  split
  · exact h
  · rename_i c hc
    split
    · exact h
    · rename_i hl
      split
      · exact h
      · rename_i hb
        simp only [ne_eq, Decidable.not_not] at hl
        simp only [Bool.not_eq_true] at hb
        cases hk : s.kind with
        | slos =>
          have h1 := invB_initMask_input s inp c h (Or.inl hk) hc hl hb
          rw [hk] at h1
          exact invB_deploy _ _ h1 (by simp) (by simp)
        | naive =>
          have h1 := invB_initMask_input s inp c h (Or.inr hk) hc hl hb
          rw [hk] at h1
          exact h1
        | slap =>
          obtain ⟨kind, circ, input, mask, minst, iter, instN, layers, fsas, paths, fock, cutReq, cutCur, compiled⟩ := s
          obtain ⟨h1, h2, h3, h4, h5, h6, h7, h8, h9, h10, h11, h12, h13, h14⟩ := h
          simp only at h1 h2 h3 h4 h5 h6 h7 h8 h9 h10 h11 h12 h13 h14 hk hc hb
          subst hc hk
          cases mask with
          | none => constructor <;> simp [initMask, expInst] <;> grind
          | some mc =>
            simp only [badLen, bne_eq_false_iff_eq] at hb
            constructor <;> simp [initMask, expInst] <;> grind
        | mps =>
          obtain ⟨kind, circ, input, mask, minst, iter, instN, layers, fsas, paths, fock, cutReq, cutCur, compiled⟩ := s
          obtain ⟨h1, h2, h3, h4, h5, h6, h7, h8, h9, h10, h11, h12, h13, h14⟩ := h
          simp only at h1 h2 h3 h4 h5 h6 h7 h8 h9 h10 h11 h12 h13 h14 hk hc hb
          subst hc hk
          cases mask with
          | none => constructor <;> simp [initMask, expInst, compile] <;> grind
          | some mc =>
            simp only [badLen, bne_eq_false_iff_eq] at hb
            constructor <;> simp [initMask, expInst, compile] <;> grind

@[simp] theorem deploy_circ (s : B) (inp : List Nat) : (deploy s inp).circ = s.circ :=
  congrArg BCfg.circ (deploy_config s inp)
@[simp] theorem deploy_input (s : B) (inp : List Nat) : (deploy s inp).input = s.input :=
  congrArg BCfg.input (deploy_config s inp)
@[simp] theorem deploy_mask (s : B) (inp : List Nat) : (deploy s inp).mask = s.mask :=
  congrArg BCfg.mask (deploy_config s inp)
@[simp] theorem deploy_minst (s : B) (inp : List Nat) : (deploy s inp).minst = s.minst := by
  unfold deploy; split
  · rfl
  · split <;> rfl

theorem invB_query (s : B) (q : Q) (h : InvB s) : InvB (queryB true s q).1 := by
  unfold queryB
  split
  · rename_i c inp hc hi
    split
    · exact h
    · split
      · split
        · exact invB_getIter _ _ _ h hc hi
        · exact h
      · split
        · split
          · split
            · exact invB_getIter _ _ _ h hc hi
            · exact h
          · exact h
        · exact h
      · split
        · split
          · exact h
          · split
            · exact invB_getIter _ _ _ h hc hi
            · exact h
        · exact h
      · rename_i hk
        have hd : InvB (deploy s inp) := invB_deploy s inp h hk hi
        simp only [if_true]
        split
        · exact hd
        · split
          · exact hd
          · split
            · exact invB_getIter _ _ _ hd (by simpa using hc) (by simpa using hi)
            · exact hd
  · exact h

theorem invB_step (s : B) (op : Op) (h : InvB s) : InvB (stepB true s op).1 := by
  cases op with
  | setCircuit c => exact invB_setCircuit s c h
  | setInput inp => exact invB_setInput s inp h
  | setMask sid len n => exact invB_setMask s sid len n h
  | clearMask => exact invB_clearMask s h
  | setCutoff k => exact invB_setCutoff s k h
  | query q => exact invB_query s q h

/-! ### closed form of a query under the invariant -/

/-- the answer as a function of kind and configuration only (provenance of the returned numbers) -/
def ansB (k : Kind) (cfg : BCfg) (q : Q) : Out :=
  match cfg.circ, cfg.input with
  | some c, some inp =>
    if q = .ampOther then .res c.uid inp (c.m, none) none else
    let tag : Tag := (c.m, expInst cfg.mask (sum inp))
    match k with
    | .naive => .res c.uid inp (if usesIter .naive q then tag else (c.m, none)) none
    | .mps => .res c.uid inp (if usesIter .mps q then tag else (c.m, none)) (some (effCut cfg.cutoff inp))
    | .slap => .res c.uid inp (if q = .amp then (c.m, none) else tag) none
    | .slos => .res c.uid inp tag none
  | _, _ => .exc "NoInput"

/-- the iterator handed out is the one of the current circuit size and mask instance -/
theorem getIter_tag (s : B) (c : Circ) (inp : List Nat) (h : InvB s) (hc : s.circ = some c)
    (hi : s.input = some inp) : (getIter s c inp).2 = (c.m, expInst s.mask (sum inp)) := by
  unfold getIter
  cases hl : lookup (sum inp) s.iter with
  | some t => simpa using h.iterOk _ c (mem_lookup hl) hc
  | none => simp [h.minstIn inp hi]

theorem lookupL_deploy (s : B) (c : Circ) (inp : List Nat) (hc : s.circ = some c) :
    ∃ u, lookupL inp (deploy s inp).paths = some u := by
  unfold deploy
  simp only [hc]
  cases hl : lookupL inp s.paths with
  | some u => exact ⟨u, by simpa using hl⟩
  | none => exact ⟨c.uid, by simp [lookupL]⟩

/-- a recorded path means: layers `1..n` and the array of `n` photons exist, for the current mask instance -/
theorem slosTag_of_path (s : B) (c : Circ) (inp : List Nat) (u : Nat) (h : InvB s) (hc : s.circ = some c)
    (hp : lookupL inp s.paths = some u) : u = c.uid ∧ slosTag s (sum inp) = some (c.m, s.minst) := by
  obtain ⟨p1, p2, p3⟩ := h.pathsOk _ c (mem_lookupL hp) hc
  refine ⟨p1, ?_⟩
  simp only at p2 p3
  unfold slosTag
  cases hl : lookup (sum inp) s.fsas with
  | none => simp [hl] at p3
  | some t =>
    have ht : t = (c.m, s.minst) := h.fsasOk _ c (mem_lookup hl) hc
    subst ht
    have hall : (s.layers.take (sum inp)).all (fun x => x == (c.m, s.minst)) = true := by
      simp only [List.all_eq_true, beq_iff_eq]
      intro x hx
      exact h.layersOk x c (List.mem_of_mem_take hx) hc
    simp [p2, hall]

theorem queryB_ans (s : B) (q : Q) (h : InvB s) : (queryB true s q).2 = ansB s.kind s.config q := by
  unfold queryB ansB B.config
  cases hc : s.circ with
  | none => rfl
  | some c =>
    cases hi : s.input with
    | none => rfl
    | some inp =>
      simp only []
      by_cases hq : q = .ampOther
      · simp [hq]
      · simp only [hq, if_false]
        have ht := getIter_tag s c inp h hc hi
        cases hk : s.kind with
        | naive =>
          simp only []
          split <;> simp [ht]
        | mps =>
          obtain ⟨m1, m2⟩ := h.mpsOk hk inp c hi hc
          simp only [m1, m2, and_self, if_true]
          split <;> simp [ht]
        | slap =>
          simp only [h.fockOk hk inp hi, if_true]
          by_cases ha : q = .amp
          · simp [ha]
          · simp only [ha, if_false]
            split
            · simp [ht, h.minstIn inp hi]
            · simp [h.minstIn inp hi]
        | slos =>
          have hd : InvB (deploy s inp) := invB_deploy s inp h hk hi
          obtain ⟨u, hu⟩ := lookupL_deploy s c inp hc
          obtain ⟨e1, e2⟩ := slosTag_of_path _ c inp u hd (by simpa using hc) hu
          have ht' := getIter_tag _ c inp hd (by simpa using hc) (by simpa using hi)
          simp only [deploy_minst, deploy_mask] at e2 ht'
          simp only [if_true, hu, e2]
          split
          · simp [ht', h.minstIn inp hi, e1]
          · simp [h.minstIn inp hi, e1]

/-! ### the canonical sequence reproduces the configuration -/

/-- configurations a backend of kind `k` can be in -/
structure WFCfg (k : Kind) (cfg : BCfg) : Prop where
  noCirc : cfg.circ = none → cfg.input = none
  inLen : ∀ inp c, cfg.input = some inp → cfg.circ = some c → inp.length = c.m
  maskLen : ∀ inp mc, cfg.input = some inp → cfg.mask = some mc → mc.len = inp.length
  cutOk : k ≠ .mps → cfg.cutoff = none

theorem wf_of_invB (s : B) (h : InvB s) : WFCfg s.kind s.config :=
  ⟨fun hc => (h.noCirc hc).1, h.inLen, h.maskLen, h.cutOk⟩

theorem stepB_kind (s : B) (op : Op) : (stepB true s op).1.kind = s.kind := by
  cases op with
  | setCircuit c =>
    simp only [stepB]
    split
    · split
      · split <;> rfl
      · rfl
    · split <;> rfl
  | setInput inp =>
    simp only [stepB]
    split
    · rfl
    · split
      · rfl
      · split
        · rfl
        · split <;> simp
  | setMask sid len n =>
    simp only [stepB]
    split
    · rfl
    · split <;> simp [reset]
  | clearMask =>
    simp only [stepB]
    split <;> rfl
  | setCutoff k =>
    simp only [stepB]
    split
    · simp only [if_true]
      split <;> simp
    · rfl
  | query q => exact (queryB_kind_config s q).1

theorem exec_kind (s : B) (ops : List Op) : (exec (stepB true) s ops).kind = s.kind := by
  induction ops generalizing s with
  | nil => rfl
  | cons x xs ih => rw [exec_cons, ih, stepB_kind]

theorem config_canonB (k : Kind) (cfg : BCfg) (h : WFCfg k cfg) :
    (exec (stepB true) (initB k) (canonB cfg)).config = cfg := by
  obtain ⟨circ, input, mask, cutoff⟩ := cfg
  obtain ⟨w1, w2, w3, w4⟩ := h
  simp only at w1 w2 w3 w4
  cases circ with
  | none =>
    have := w1 rfl; subst this
    cases mask <;> cases cutoff <;> cases k <;>
      simp_all [canonB, exec, run, stepB, initB, B.config, initMask, reset, badLenI]
  | some c =>
    cases input with
    | none =>
      cases mask <;> cases cutoff <;> cases k <;>
        simp_all [canonB, exec, run, stepB, initB, B.config, initMask, reset, badLenI]
    | some inp =>
      have hl := w2 inp c rfl rfl
      cases mask with
      | none =>
        cases cutoff <;> cases k <;>
          simp_all [canonB, exec, run, stepB, initB, B.config, initMask, reset, badLen, deploy, compile, lookupL]
      | some mc =>
        have hm := w3 inp mc rfl rfl
        obtain ⟨sid, len, n⟩ := mc
        cases cutoff <;> cases k <;>
          simp_all [canonB, exec, run, stepB, initB, B.config, initMask, reset, badLenI, badLen, deploy, compile,
            lookupL]

end PM.C05
