/-
  C08 — helper lemmas for `Props/C08.lean`.
-/
import PercevalModel.Model.C08
import PercevalModel.Found.SM
import Mathlib.Combinatorics.Enumerative.Stirling
import Mathlib.Algebra.BigOperators.Intervals
import Mathlib.Algebra.Order.BigOperators.Group.Finset
import Mathlib.Algebra.Order.BigOperators.Ring.Finset
import Mathlib.Tactic.Ring
import Mathlib.Tactic.FieldSimp
import Mathlib.Tactic.Linarith
import Mathlib.Tactic.LinearCombination

set_option linter.unusedSectionVars false

open Finset

namespace PM.C08

section closedForm
variable {K : Type} [Field K] [CharZero K]

/-- number of maps from `n` photons to `w` wires hitting exactly `k` wires -/
def surjCount (w k n : ℕ) : ℕ := w.choose k * Nat.stirlingSecond n k * k.factorial

/-- `C(w,k) · S(n,k) · k! / wⁿ` -/
def closed (w k n : ℕ) : K := (surjCount w k n : K) / (w : K) ^ n

theorem condProb_zero_left (w n : ℕ) : (condProb w 0 n : K) = if n = 0 then 1 else 0 := by
  cases n <;> simp [condProb]

theorem condProb_of_lt (w : ℕ) {k n : ℕ} (h : n < k) : (condProb w k n : K) = 0 := by
  cases k with
  | zero => omega
  | succ k =>
    cases n with
    | zero => simp [condProb]
    | succ n => simp [condProb, h]

/-- the recurrence holds unconditionally -/
theorem condProb_succ_succ (w k n : ℕ) :
    (condProb w (k + 1) (n + 1) : K) =
      condProb w k n * ((w : K) - (k : K)) / (w : K) + condProb w (k + 1) n * ((k : K) + 1) / (w : K) := by
  by_cases h : n < k
  · have h1 : (condProb w k n : K) = 0 := condProb_of_lt w h
    have h2 : (condProb w (k + 1) n : K) = 0 := condProb_of_lt w (by omega)
    rw [condProb_of_lt w (by omega), h1, h2]; simp
  · have : ¬ (n + 1 < k + 1) := by omega
    simp only [condProb, this, if_false]
    push_cast
    ring

theorem surjCount_succ_succ (w k n : ℕ) :
    (surjCount w (k + 1) (n + 1) : K) =
      (surjCount w k n : K) * ((w : K) - k) + (surjCount w (k + 1) n : K) * ((k : K) + 1) := by
  have key : (w.choose (k + 1) : K) * ((k : K) + 1) = (w.choose k : K) * ((w : K) - k) := by
    rcases le_or_gt k w with h | h
    · have := Nat.choose_succ_right_eq w k
      have h2 : ((w.choose (k + 1) * (k + 1) : ℕ) : K) = ((w.choose k * (w - k) : ℕ) : K) := by rw [this]
      push_cast [Nat.cast_sub h] at h2
      exact h2
    · rw [Nat.choose_eq_zero_of_lt (by omega : w < k + 1), Nat.choose_eq_zero_of_lt h]; simp
  unfold surjCount
  rw [Nat.stirlingSecond_succ_succ, Nat.factorial_succ]
  push_cast
  linear_combination ((Nat.stirlingSecond n k : K) * (k.factorial : K)) * key

theorem condProb_closed (w k n : ℕ) : (condProb w k n : K) = closed w k n := by
  induction n generalizing k with
  | zero =>
    cases k with
    | zero => simp [condProb, closed, surjCount]
    | succ k => simp [condProb, closed, surjCount, Nat.stirlingSecond_zero_succ]
  | succ n ih =>
    cases k with
    | zero => simp [condProb, closed, surjCount, Nat.stirlingSecond_succ_zero]
    | succ k =>
      rw [condProb_succ_succ, ih, ih]
      unfold closed
      rw [surjCount_succ_succ]
      rcases Nat.eq_zero_or_pos w with rfl | hw
      · simp
      · have : (w : K) ≠ 0 := by exact_mod_cast hw.ne'
        field_simp
        ring

theorem condProb_sum_range (w : ℕ) (hw : 0 < w) (n : ℕ) :
    ∀ N, n < N → ∑ k ∈ range N, (condProb w k n : K) = 1 := by
  have hw' : (w : K) ≠ 0 := by exact_mod_cast hw.ne'
  induction n with
  | zero =>
    intro N hN
    rw [Finset.sum_eq_single 0]
    · simp [condProb]
    · intro k _ hk
      exact condProb_of_lt w (Nat.pos_of_ne_zero hk)
    · intro h; exact absurd (mem_range.mpr hN) h
  | succ n ih =>
    intro N hN
    obtain ⟨M, rfl⟩ : ∃ M, N = M + 1 := ⟨N - 1, by omega⟩
    have hM : n < M := by omega
    rw [sum_range_succ', condProb_zero_left, if_neg (by omega), add_zero]
    simp_rw [condProb_succ_succ]
    rw [sum_add_distrib]
    have h2 : ∑ k ∈ range M, (condProb w (k + 1) n : K) * ((k : K) + 1) / (w : K)
        = ∑ k ∈ range M, (condProb w k n : K) * (k : K) / (w : K) := by
      have e1 := sum_range_succ' (fun k => (condProb w k n : K) * (k : K) / (w : K)) M
      have e2 := sum_range_succ (fun k => (condProb w k n : K) * (k : K) / (w : K)) M
      rw [e2] at e1
      have hz : (condProb w M n : K) = 0 := condProb_of_lt w hM
      simp only [hz, Nat.cast_zero, mul_zero, zero_mul, zero_div, add_zero, Nat.cast_add, Nat.cast_one] at e1
      exact e1.symm
    rw [h2, ← sum_add_distrib, ← ih M hM]
    apply sum_congr rfl
    intro k _
    field_simp
    ring

theorem condProb_sum_one (w : ℕ) (hw : 0 < w) (n : ℕ) :
    ∑ k ∈ range (n + 1), (condProb w k n : K) = 1 :=
  condProb_sum_range w hw n (n + 1) (by omega)

end closedForm

/-! ### the `functools.cache` memo is transparent -/
section memo
variable {K : Type} [Field K]

/-- every recorded value is the value the plain recurrence gives -/
def Memo.Valid (w : ℕ) (t : Memo K) : Prop :=
  ∀ key v, t.get key = some v → v = condProb w key.1 key.2

theorem Memo.valid_nil (w : ℕ) : Memo.Valid w ([] : Memo K) := by
  intro key v h; simp [Memo.get] at h

theorem Memo.valid_cons {w : ℕ} {t : Memo K} (h : Memo.Valid w t) (k n : ℕ) :
    Memo.Valid w (((k, n), condProb w k n) :: t) := by
  intro key v hv
  simp only [Memo.get] at hv
  split at hv
  · next heq => cases hv; rw [← heq]
  · exact h key v hv

theorem condProbM_spec (w : ℕ) : ∀ (n k : ℕ) (t : Memo K), Memo.Valid w t →
    (condProbM w n k t).1 = condProb w k n ∧ Memo.Valid w (condProbM w n k t).2 := by
  intro n
  induction n with
  | zero =>
    intro k t ht
    unfold condProbM
    split
    · next v hv => exact ⟨ht _ _ hv, ht⟩
    · have e : (if k = 0 then (1 : K) else 0) = condProb w k 0 := by
        cases k <;> simp [condProb]
      simp only [e]
      exact ⟨trivial, Memo.valid_cons ht k 0⟩
  | succ n ih =>
    intro k t ht
    unfold condProbM
    split
    · next v hv => exact ⟨ht _ _ hv, ht⟩
    · split
      · next hk =>
        subst hk
        have e : (0 : K) = condProb w 0 (n + 1) := by simp [condProb]
        refine ⟨e, ?_⟩
        simp only []
        rw [e]; exact Memo.valid_cons ht 0 (n + 1)
      · split
        · next hk hlt =>
          have e : (0 : K) = condProb w k (n + 1) := by
            cases k with
            | zero => exact absurd rfl hk
            | succ k => simp [condProb, hlt]
          refine ⟨e, ?_⟩
          simp only []
          rw [e]; exact Memo.valid_cons ht k (n + 1)
        · next hk hlt =>
          obtain ⟨k', rfl⟩ : ∃ k', k = k' + 1 := ⟨k - 1, by omega⟩
          obtain ⟨a1, a2⟩ := ih k' t ht
          obtain ⟨b1, b2⟩ := ih (k' + 1) _ a2
          have e : (condProbM w n (k' + 1 - 1) t).1 * ((w : K) - ((k' + 1 : ℕ) : K) + 1) / (w : K)
              + (condProbM w n (k' + 1) (condProbM w n (k' + 1 - 1) t).2).1 * ((k' + 1 : ℕ) : K) / (w : K)
              = condProb w (k' + 1) (n + 1) := by
            simp only [Nat.add_sub_cancel] at *
            rw [a1, b1]
            simp [condProb, hlt]
          simp only []
          rw [e]
          exact ⟨rfl, Memo.valid_cons (by simpa using b2) (k' + 1) (n + 1)⟩

end memo

/-! ### association-list distributions -/
section dist
variable {K : Type} [Field K] [LinearOrder K] {σ : Type} [DecidableEq σ]

/-- what `ProbabilityDistribution.add` lets through -/
def keep (minP p : K) : K := if minP < p then p else 0

@[simp] theorem mass_nil : mass ([] : Dist σ K) = 0 := rfl

@[simp] theorem mass_cons (e : σ × K) (d : Dist σ K) : mass (e :: d) = e.2 + mass d := by
  simp [mass]

theorem mass_append (a b : Dist σ K) : mass (a ++ b) = mass a + mass b := by
  simp [mass]

theorem mass_bump (d : Dist σ K) (key : σ) (p : K) : mass (bump d key p) = mass d + p := by
  induction d with
  | nil => simp [bump]
  | cons e rest ih =>
    obtain ⟨k, v⟩ := e
    simp only [bump]
    split
    · simp; ring
    · simp [ih]; ring

theorem prob_bump (d : Dist σ K) (key : σ) (p : K) (key' : σ) :
    prob (bump d key p) key' = prob d key' + if key = key' then p else 0 := by
  induction d with
  | nil => simp [bump, prob]
  | cons e rest ih =>
    obtain ⟨k, v⟩ := e
    simp only [bump]
    by_cases hk : k = key
    · subst hk
      simp only [if_true, prob]
      by_cases hk' : k = key' <;> simp [hk']
    · simp only [hk, if_false, prob, ih]
      by_cases hk' : k = key'
      · subst hk'; simp; intro h; exact absurd h.symm hk
      · simp [hk']

theorem mass_addP (minP : K) (d : Dist σ K) (key : σ) (p : K) :
    mass (addP minP d key p) = mass d + keep minP p := by
  unfold addP keep; split <;> simp [mass_bump]

theorem prob_addP (minP : K) (d : Dist σ K) (key : σ) (p : K) (key' : σ) :
    prob (addP minP d key p) key' = prob d key' + if key = key' then keep minP p else 0 := by
  unfold addP keep
  split
  · rw [prob_bump]
  · simp

theorem keep_of_nonpos {minP p : K} (hmin : minP ≤ 0) (hp : 0 ≤ p) : keep minP p = p := by
  unfold keep
  split
  · rfl
  · next h => exact (le_antisymm (le_trans (not_lt.mp h) hmin) hp).symm

theorem Nonneg.bump {d : Dist σ K} [IsStrictOrderedRing K] (h : Nonneg d) (key : σ) {p : K} (hp : 0 ≤ p) :
    Nonneg (bump d key p) := by
  induction d with
  | nil => intro e he; simp [C08.bump] at he; subst he; simpa using hp
  | cons e rest ih =>
    obtain ⟨k, v⟩ := e
    have hv : 0 ≤ v := h (k, v) (by simp)
    have hr : Nonneg rest := fun e he => h e (by simp [he])
    simp only [C08.bump]
    split
    · intro e he
      simp at he
      rcases he with rfl | he
      · exact add_nonneg hv hp
      · exact hr e he
    · intro e he
      simp at he
      rcases he with rfl | he
      · exact hv
      · exact ih hr e he

end dist

/-! ### `Detector.detect` -/
section detect
variable {K : Type} [Field K] [LinearOrder K]

theorem sum_map_range' (f : ℕ → K) (s len : ℕ) :
    ((List.range' s len).map f).sum = ∑ i ∈ Ico s (s + len), f i := by
  induction len generalizing s with
  | zero => simp
  | succ len ih =>
    have e : s + 1 + len = s + (len + 1) := by omega
    rw [List.range'_succ, List.map_cons, List.sum_cons, ih, e,
      Finset.sum_eq_sum_Ico_succ_bot (by omega : s < s + (len + 1))]

theorem detectLoop_snd (w n : ℕ) (minP : K) (is : List ℕ) (acc : Dist ℕ K × K) :
    (detectLoop w n minP is acc).2 = acc.2 - (is.map fun i => (condProb w i n : K)).sum := by
  unfold detectLoop
  induction is generalizing acc with
  | nil => simp
  | cons i is ih => simp only [List.foldl_cons, ih, List.map_cons, List.sum_cons]; ring

theorem detectLoop_mass (w n : ℕ) (minP : K) (is : List ℕ) (acc : Dist ℕ K × K) :
    mass (detectLoop w n minP is acc).1
      = mass acc.1 + (is.map fun i => keep minP (condProb w i n : K)).sum := by
  unfold detectLoop
  induction is generalizing acc with
  | nil => simp
  | cons i is ih =>
    simp only [List.foldl_cons, ih, List.map_cons, List.sum_cons, mass_addP]; ring

theorem detectLoop_prob (w n : ℕ) (minP : K) (is : List ℕ) (hnd : is.Nodup)
    (acc : Dist ℕ K × K) (k : ℕ) :
    prob (detectLoop w n minP is acc).1 k
      = prob acc.1 k + if k ∈ is then keep minP (condProb w k n : K) else 0 := by
  unfold detectLoop
  induction is generalizing acc with
  | nil => simp
  | cons i is ih =>
    rw [List.nodup_cons] at hnd
    simp only [List.foldl_cons, ih hnd.2, prob_addP, List.mem_cons]
    by_cases hik : i = k
    · subst hik
      simp [hnd.1]
    · have : ¬ k = i := fun h => hik h.symm
      simp [hik, this]

/-- the loop run through the memo table computes what the plain loop computes -/
theorem detectLoopM_spec (w n : ℕ) (minP : K) (is : List ℕ)
    (a : (Dist ℕ K × K) × Memo K) (ht : Memo.Valid w a.2) :
    (detectLoopM w n minP is a).1 = detectLoop w n minP is a.1 ∧
      Memo.Valid w (detectLoopM w n minP is a).2 := by
  induction is generalizing a with
  | nil => exact ⟨rfl, ht⟩
  | cons i is ih =>
    obtain ⟨c1, c2⟩ := condProbM_spec w n i a.2 ht
    unfold detectLoopM
    simp only []
    obtain ⟨h1, h2⟩ := ih ((addP minP a.1.1 i (condProbM w n i a.2).1,
      a.1.2 - (condProbM w n i a.2).1), (condProbM w n i a.2).2) c2
    refine ⟨?_, h2⟩
    rw [h1]
    simp only [detectLoop, List.foldl_cons, c1]

theorem detectWiredM_spec (w mx : ℕ) (minP : K) (n : ℕ) (t : Memo K) (ht : Memo.Valid w t) :
    (detectWiredM w mx minP n t).1 = detectWired w mx minP n ∧
      Memo.Valid w (detectWiredM w mx minP n t).2 := by
  obtain ⟨h1, h2⟩ := detectLoopM_spec w n minP (List.range' 1 (min mx n - 1)) (([], 1), t) ht
  unfold detectWiredM detectWired
  simp only []
  rw [h1]
  exact ⟨rfl, h2⟩

end detect

/-! ### the click law of `detect` -/
section spec
variable {K : Type} [Field K] [LinearOrder K] [IsStrictOrderedRing K]

/-- probability that the reading is at least `cap` -/
def tailSum (w cap n : ℕ) : K := ∑ j ∈ Ico cap (n + 1), (closed w j n : K)

/-- the physical description: closed form below the cap, everything else folded into the cap -/
def detectSpec (w mx n k : ℕ) : K :=
  if 1 ≤ k ∧ k < min mx n then closed w k n
  else if k = min mx n then tailSum w (min mx n) n else 0

theorem closed_nonneg (w k n : ℕ) : (0 : K) ≤ closed w k n := by
  unfold closed
  exact div_nonneg (Nat.cast_nonneg _) (pow_nonneg (Nat.cast_nonneg _) _)

theorem closed_zero_left (w : ℕ) {n : ℕ} (hn : 1 ≤ n) : (closed w 0 n : K) = 0 := by
  obtain ⟨n', rfl⟩ : ∃ n', n = n' + 1 := ⟨n - 1, by omega⟩
  simp [closed, surjCount, Nat.stirlingSecond_succ_zero]

theorem closed_sum_one (w : ℕ) (hw : 0 < w) (n : ℕ) :
    ∑ k ∈ range (n + 1), (closed w k n : K) = 1 := by
  rw [← condProb_sum_one (K := K) w hw n]
  exact Finset.sum_congr rfl fun k _ => (condProb_closed w k n).symm

theorem tailSum_nonneg (w cap n : ℕ) : (0 : K) ≤ tailSum w cap n :=
  Finset.sum_nonneg fun _ _ => closed_nonneg _ _ _

theorem Ico_one_fix (cap : ℕ) : Ico 1 (1 + (cap - 1)) = Ico 1 cap := by
  rcases Nat.eq_zero_or_pos cap with rfl | h
  · simp
  · congr 1; omega

theorem sum_Ico_one_closed (w : ℕ) {n : ℕ} (hn : 1 ≤ n) (cap : ℕ) :
    ∑ i ∈ Ico 1 cap, (closed w i n : K) = ∑ i ∈ Ico 0 cap, (closed w i n : K) := by
  rcases Nat.eq_zero_or_pos cap with rfl | h
  · simp
  · rw [Finset.sum_eq_sum_Ico_succ_bot h, closed_zero_left w hn, zero_add]

/-- `remaining_p` after the loop is the tail of the closed form -/
theorem remaining_eq_tail (w : ℕ) (hw : 0 < w) {n : ℕ} (hn : 1 ≤ n) {cap : ℕ} (hc : cap ≤ n) :
    (1 : K) - ∑ i ∈ Ico 1 cap, (closed w i n : K) = tailSum w cap n := by
  have h1 := closed_sum_one (K := K) w hw n
  rw [Finset.range_eq_Ico,
    ← Finset.sum_Ico_consecutive _ (Nat.zero_le cap) (by omega : cap ≤ n + 1)] at h1
  rw [sum_Ico_one_closed w hn, tailSum]
  linear_combination -h1

theorem detectWired_rem (w mx : ℕ) (hw : 0 < w) (minP : K) {n : ℕ} (hn : 1 ≤ n) :
    (detectLoop w n minP (List.range' 1 (min mx n - 1)) (([] : Dist ℕ K), 1)).2
      = tailSum w (min mx n) n := by
  rw [detectLoop_snd, sum_map_range', Ico_one_fix]
  simp_rw [condProb_closed]
  exact remaining_eq_tail w hw hn (Nat.min_le_right _ _)

/-- pointwise law of the PPNR branch of `detect` -/
theorem detectWired_prob (w mx : ℕ) (hw : 0 < w) (minP : K) {n : ℕ} (hn : 1 ≤ n) (k : ℕ) :
    prob (detectWired w mx minP n) k = keep minP (detectSpec w mx n k : K) := by
  unfold detectWired
  simp only []
  rw [prob_addP, detectLoop_prob _ _ _ _ (List.nodup_range' ..), detectWired_rem w mx hw minP hn]
  simp only [prob, zero_add, List.mem_range'_1, condProb_closed]
  unfold detectSpec
  generalize min mx n = c
  by_cases h1 : 1 ≤ k ∧ k < c
  · have h2 : 1 ≤ k ∧ k < 1 + (c - 1) := by omega
    have h3 : ¬ c = k := by omega
    rw [if_pos h1, if_pos h2, if_neg h3, add_zero]
  · by_cases h2 : k = c
    · have h3 : ¬ (1 ≤ k ∧ k < 1 + (c - 1)) := by omega
      rw [if_neg h1, if_neg h3, if_pos h2.symm, if_pos h2, zero_add]
    · have h3 : ¬ (1 ≤ k ∧ k < 1 + (c - 1)) := by omega
      have h4 : ¬ c = k := fun h => h2 h.symm
      rw [if_neg h1, if_neg h3, if_neg h4, if_neg h2, zero_add]
      simp [keep]

theorem detectWired_mass (w mx : ℕ) (hw : 0 < w) (minP : K) {n : ℕ} (hn : 1 ≤ n) :
    mass (detectWired w mx minP n)
      = ∑ i ∈ Ico 1 (min mx n), keep minP (closed w i n : K)
        + keep minP (tailSum w (min mx n) n : K) := by
  unfold detectWired
  simp only []
  rw [mass_addP, detectLoop_mass, detectWired_rem w mx hw minP hn, sum_map_range', Ico_one_fix]
  simp [condProb_closed]

theorem detectWired_nonneg (w mx : ℕ) (hw : 0 < w) (minP : K) {n : ℕ} (hn : 1 ≤ n) :
    Nonneg (detectWired w mx minP n) := by
  unfold detectWired
  simp only []
  have hloop : ∀ (is : List ℕ) (acc : Dist ℕ K × K), Nonneg acc.1 →
      Nonneg (detectLoop w n minP is acc).1 := by
    intro is
    unfold detectLoop
    induction is with
    | nil => intro acc h; exact h
    | cons i is ih =>
      intro acc h
      simp only [List.foldl_cons]
      apply ih
      simp only [addP]
      split
      · exact h.bump _ (by rw [condProb_closed]; exact closed_nonneg _ _ _)
      · exact h
  have h0 : Nonneg (detectLoop w n minP (List.range' 1 (min mx n - 1)) (([] : Dist ℕ K), 1)).1 :=
    hloop _ _ (by intro e he; simp at he)
  simp only [addP]
  split
  · apply h0.bump
    rw [detectWired_rem w mx hw minP hn]
    exact tailSum_nonneg _ _ _
  · exact h0

end spec

end PM.C08
