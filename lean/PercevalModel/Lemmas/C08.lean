/-
  C08 — helper lemmas for `Props/C08.lean`.
-/
import PercevalModel.Model.C08
import PercevalModel.Found.SM
import Mathlib.Combinatorics.Enumerative.Stirling
import Mathlib.Algebra.BigOperators.Intervals
import Mathlib.Data.Nat.Choose.Sum
import Mathlib.Algebra.Order.BigOperators.Group.Finset
import Mathlib.Algebra.Order.BigOperators.Ring.Finset
import Mathlib.Tactic.Ring
import Mathlib.Tactic.FieldSimp
import Mathlib.Tactic.Linarith
import Mathlib.Tactic.LinearCombination

set_option linter.unusedSectionVars false
set_option linter.unnecessarySeqFocus false

open Finset

namespace PM.C08

section closedForm
variable {K : Type} [Field K] [CharZero K]

/-- number of maps from `n` photons to `w` wires hitting exactly `k` wires -/
def surjCount (w k n : ℕ) : ℕ := w.choose k * Nat.stirlingSecond n k * k.factorial

/-- `C(w,k) · S(n,k) · k! / wⁿ` -/
def closed (w k n : ℕ) : K := (surjCount w k n : K) / (w : K) ^ n

theorem condProb_zero_left (w n : ℕ) : (condProb w 0 n : K) = if n = 0 then 1 else 0 := by
  cases n <;> simp [condProb]

theorem condProb_of_lt (w : ℕ) {k n : ℕ} (h : n < k) : (condProb w k n : K) = 0 := by
  cases k with
  | zero => omega
  | succ k =>
    cases n with
    | zero => simp [condProb]
    | succ n => simp [condProb, h]

/-- the recurrence holds unconditionally -/
theorem condProb_succ_succ (w k n : ℕ) :
    (condProb w (k + 1) (n + 1) : K) =
      condProb w k n * ((w : K) - (k : K)) / (w : K) + condProb w (k + 1) n * ((k : K) + 1) / (w : K) := by
  by_cases h : n < k
  · have h1 : (condProb w k n : K) = 0 := condProb_of_lt w h
    have h2 : (condProb w (k + 1) n : K) = 0 := condProb_of_lt w (by omega)
    rw [condProb_of_lt w (by omega), h1, h2]; simp
  · have : ¬ (n + 1 < k + 1) := by omega
    simp only [condProb, this, if_false]
    push_cast
    ring

theorem surjCount_succ_succ (w k n : ℕ) :
    (surjCount w (k + 1) (n + 1) : K) =
      (surjCount w k n : K) * ((w : K) - k) + (surjCount w (k + 1) n : K) * ((k : K) + 1) := by
  have key : (w.choose (k + 1) : K) * ((k : K) + 1) = (w.choose k : K) * ((w : K) - k) := by
    rcases le_or_gt k w with h | h
    · have := Nat.choose_succ_right_eq w k
      have h2 : ((w.choose (k + 1) * (k + 1) : ℕ) : K) = ((w.choose k * (w - k) : ℕ) : K) := by rw [this]
      push_cast [Nat.cast_sub h] at h2
      exact h2
    · rw [Nat.choose_eq_zero_of_lt (by omega : w < k + 1), Nat.choose_eq_zero_of_lt h]; simp
  unfold surjCount
  rw [Nat.stirlingSecond_succ_succ, Nat.factorial_succ]
  push_cast
  linear_combination ((Nat.stirlingSecond n k : K) * (k.factorial : K)) * key

theorem condProb_eq_closed (w k n : ℕ) : (condProb w k n : K) = closed w k n := by
  induction n generalizing k with
  | zero =>
    cases k with
    | zero => simp [condProb, closed, surjCount]
    | succ k => simp [condProb, closed, surjCount, Nat.stirlingSecond_zero_succ]
  | succ n ih =>
    cases k with
    | zero => simp [condProb, closed, surjCount, Nat.stirlingSecond_succ_zero]
    | succ k =>
      rw [condProb_succ_succ, ih, ih]
      unfold closed
      rw [surjCount_succ_succ]
      rcases Nat.eq_zero_or_pos w with rfl | hw
      · simp
      · have : (w : K) ≠ 0 := by exact_mod_cast hw.ne'
        field_simp
        ring

theorem condProb_sum_range (w : ℕ) (hw : 0 < w) (n : ℕ) :
    ∀ N, n < N → ∑ k ∈ range N, (condProb w k n : K) = 1 := by
  have hw' : (w : K) ≠ 0 := by exact_mod_cast hw.ne'
  induction n with
  | zero =>
    intro N hN
    rw [Finset.sum_eq_single 0]
    · simp [condProb]
    · intro k _ hk
      exact condProb_of_lt w (Nat.pos_of_ne_zero hk)
    · intro h; exact absurd (mem_range.mpr hN) h
  | succ n ih =>
    intro N hN
    obtain ⟨M, rfl⟩ : ∃ M, N = M + 1 := ⟨N - 1, by omega⟩
    have hM : n < M := by omega
    rw [sum_range_succ', condProb_zero_left, if_neg (by omega), add_zero]
    simp_rw [condProb_succ_succ]
    rw [sum_add_distrib]
    have h2 : ∑ k ∈ range M, (condProb w (k + 1) n : K) * ((k : K) + 1) / (w : K)
        = ∑ k ∈ range M, (condProb w k n : K) * (k : K) / (w : K) := by
      have e1 := sum_range_succ' (fun k => (condProb w k n : K) * (k : K) / (w : K)) M
      have e2 := sum_range_succ (fun k => (condProb w k n : K) * (k : K) / (w : K)) M
      rw [e2] at e1
      have hz : (condProb w M n : K) = 0 := condProb_of_lt w hM
      simp only [hz, Nat.cast_zero, mul_zero, zero_mul, zero_div, add_zero, Nat.cast_add, Nat.cast_one] at e1
      exact e1.symm
    rw [h2, ← sum_add_distrib, ← ih M hM]
    apply sum_congr rfl
    intro k _
    field_simp
    ring

theorem condProb_sum_succ (w : ℕ) (hw : 0 < w) (n : ℕ) :
    ∑ k ∈ range (n + 1), (condProb w k n : K) = 1 :=
  condProb_sum_range w hw n (n + 1) (by omega)

end closedForm

/-! ### the `functools.cache` memo is transparent -/
section memo
variable {K : Type} [Field K]

/-- every recorded value is the value the plain recurrence gives -/
def Memo.Valid (w : ℕ) (t : Memo K) : Prop :=
  ∀ key v, t.get key = some v → v = condProb w key.1 key.2

theorem Memo.valid_nil (w : ℕ) : Memo.Valid w ([] : Memo K) := by
  intro key v h; simp [Memo.get] at h

theorem Memo.valid_cons {w : ℕ} {t : Memo K} (h : Memo.Valid w t) (k n : ℕ) :
    Memo.Valid w (((k, n), condProb w k n) :: t) := by
  intro key v hv
  simp only [Memo.get] at hv
  split at hv
  · next heq => cases hv; rw [← heq]
  · exact h key v hv

theorem condProbM_spec (w : ℕ) : ∀ (n k : ℕ) (t : Memo K), Memo.Valid w t →
    (condProbM w n k t).1 = condProb w k n ∧ Memo.Valid w (condProbM w n k t).2 := by
  intro n
  induction n with
  | zero =>
    intro k t ht
    unfold condProbM
    split
    · next v hv => exact ⟨ht _ _ hv, ht⟩
    · have e : (if k = 0 then (1 : K) else 0) = condProb w k 0 := by
        cases k <;> simp [condProb]
      simp only [e]
      exact ⟨trivial, Memo.valid_cons ht k 0⟩
  | succ n ih =>
    intro k t ht
    unfold condProbM
    split
    · next v hv => exact ⟨ht _ _ hv, ht⟩
    · split
      · next hk =>
        subst hk
        have e : (0 : K) = condProb w 0 (n + 1) := by simp [condProb]
        refine ⟨e, ?_⟩
        simp only []
        rw [e]; exact Memo.valid_cons ht 0 (n + 1)
      · split
        · next hk hlt =>
          have e : (0 : K) = condProb w k (n + 1) := by
            cases k with
            | zero => exact absurd rfl hk
            | succ k => simp [condProb, hlt]
          refine ⟨e, ?_⟩
          simp only []
          rw [e]; exact Memo.valid_cons ht k (n + 1)
        · next hk hlt =>
          obtain ⟨k', rfl⟩ : ∃ k', k = k' + 1 := ⟨k - 1, by omega⟩
          obtain ⟨a1, a2⟩ := ih k' t ht
          obtain ⟨b1, b2⟩ := ih (k' + 1) _ a2
          have e : (condProbM w n (k' + 1 - 1) t).1 * ((w : K) - ((k' + 1 : ℕ) : K) + 1) / (w : K)
              + (condProbM w n (k' + 1) (condProbM w n (k' + 1 - 1) t).2).1 * ((k' + 1 : ℕ) : K) / (w : K)
              = condProb w (k' + 1) (n + 1) := by
            simp only [Nat.add_sub_cancel] at *
            rw [a1, b1]
            simp [condProb, hlt]
          simp only []
          rw [e]
          exact ⟨rfl, Memo.valid_cons (by simpa using b2) (k' + 1) (n + 1)⟩

end memo

/-! ### association-list distributions -/
section mass
variable {K : Type} [Field K] {σ : Type}

@[simp] theorem mass_nil : mass ([] : Dist σ K) = 0 := rfl

@[simp] theorem mass_cons (e : σ × K) (d : Dist σ K) : mass (e :: d) = e.2 + mass d := by
  simp [mass]

theorem mass_append (a b : Dist σ K) : mass (a ++ b) = mass a + mass b := by
  simp [mass]

end mass

section dist
variable {K : Type} [Field K] [LinearOrder K] {σ : Type} [DecidableEq σ]

/-- what `ProbabilityDistribution.add` lets through -/
def keep (minP p : K) : K := if minP < p then p else 0


theorem mass_bump (d : Dist σ K) (key : σ) (p : K) : mass (bump d key p) = mass d + p := by
  induction d with
  | nil => simp [bump]
  | cons e rest ih =>
    obtain ⟨k, v⟩ := e
    simp only [bump]
    split
    · simp; ring
    · simp [ih]; ring

theorem prob_bump (d : Dist σ K) (key : σ) (p : K) (key' : σ) :
    prob (bump d key p) key' = prob d key' + if key = key' then p else 0 := by
  induction d with
  | nil => simp [bump, prob]
  | cons e rest ih =>
    obtain ⟨k, v⟩ := e
    simp only [bump]
    by_cases hk : k = key
    · subst hk
      simp only [if_true, prob]
      by_cases hk' : k = key' <;> simp [hk']
    · simp only [hk, if_false, prob, ih]
      by_cases hk' : k = key'
      · subst hk'; simp; intro h; exact absurd h.symm hk
      · simp [hk']

theorem mass_addP (minP : K) (d : Dist σ K) (key : σ) (p : K) :
    mass (addP minP d key p) = mass d + keep minP p := by
  unfold addP keep; split <;> simp [mass_bump]

theorem prob_addP (minP : K) (d : Dist σ K) (key : σ) (p : K) (key' : σ) :
    prob (addP minP d key p) key' = prob d key' + if key = key' then keep minP p else 0 := by
  unfold addP keep
  split
  · rw [prob_bump]
  · simp

theorem keep_of_nonpos {minP p : K} (hmin : minP ≤ 0) (hp : 0 ≤ p) : keep minP p = p := by
  unfold keep
  split
  · rfl
  · next h => exact (le_antisymm (le_trans (not_lt.mp h) hmin) hp).symm

theorem Nonneg.bump {d : Dist σ K} [IsStrictOrderedRing K] (h : Nonneg d) (key : σ) {p : K} (hp : 0 ≤ p) :
    Nonneg (bump d key p) := by
  induction d with
  | nil => intro e he; simp [C08.bump] at he; subst he; simpa using hp
  | cons e rest ih =>
    obtain ⟨k, v⟩ := e
    have hv : 0 ≤ v := h (k, v) (by simp)
    have hr : Nonneg rest := fun e he => h e (by simp [he])
    simp only [C08.bump]
    split
    · intro e he
      simp at he
      rcases he with rfl | he
      · exact add_nonneg hv hp
      · exact hr e he
    · intro e he
      simp at he
      rcases he with rfl | he
      · exact hv
      · exact ih hr e he

end dist

/-! ### `Detector.detect` -/
section detect
variable {K : Type} [Field K] [LinearOrder K]

theorem sum_map_range' (f : ℕ → K) (s len : ℕ) :
    ((List.range' s len).map f).sum = ∑ i ∈ Ico s (s + len), f i := by
  induction len generalizing s with
  | zero => simp
  | succ len ih =>
    have e : s + 1 + len = s + (len + 1) := by omega
    rw [List.range'_succ, List.map_cons, List.sum_cons, ih, e,
      Finset.sum_eq_sum_Ico_succ_bot (by omega : s < s + (len + 1))]

theorem detectLoop_snd (w n : ℕ) (minP : K) (is : List ℕ) (acc : Dist ℕ K × K) :
    (detectLoop w n minP is acc).2 = acc.2 - (is.map fun i => (condProb w i n : K)).sum := by
  unfold detectLoop
  induction is generalizing acc with
  | nil => simp
  | cons i is ih => simp only [List.foldl_cons, ih, List.map_cons, List.sum_cons]; ring

theorem detectLoop_mass (w n : ℕ) (minP : K) (is : List ℕ) (acc : Dist ℕ K × K) :
    mass (detectLoop w n minP is acc).1
      = mass acc.1 + (is.map fun i => keep minP (condProb w i n : K)).sum := by
  unfold detectLoop
  induction is generalizing acc with
  | nil => simp
  | cons i is ih =>
    simp only [List.foldl_cons, ih, List.map_cons, List.sum_cons, mass_addP]; ring

theorem detectLoop_prob (w n : ℕ) (minP : K) (is : List ℕ) (hnd : is.Nodup)
    (acc : Dist ℕ K × K) (k : ℕ) :
    prob (detectLoop w n minP is acc).1 k
      = prob acc.1 k + if k ∈ is then keep minP (condProb w k n : K) else 0 := by
  unfold detectLoop
  induction is generalizing acc with
  | nil => simp
  | cons i is ih =>
    rw [List.nodup_cons] at hnd
    simp only [List.foldl_cons, ih hnd.2, prob_addP, List.mem_cons]
    by_cases hik : i = k
    · subst hik
      simp [hnd.1]
    · have : ¬ k = i := fun h => hik h.symm
      simp [hik, this]

/-- the loop run through the memo table computes what the plain loop computes -/
theorem detectLoopM_spec (w n : ℕ) (minP : K) (is : List ℕ)
    (a : (Dist ℕ K × K) × Memo K) (ht : Memo.Valid w a.2) :
    (detectLoopM w n minP is a).1 = detectLoop w n minP is a.1 ∧
      Memo.Valid w (detectLoopM w n minP is a).2 := by
  induction is generalizing a with
  | nil => exact ⟨rfl, ht⟩
  | cons i is ih =>
    obtain ⟨c1, c2⟩ := condProbM_spec w n i a.2 ht
    unfold detectLoopM
    simp only []
    obtain ⟨h1, h2⟩ := ih ((addP minP a.1.1 i (condProbM w n i a.2).1,
      a.1.2 - (condProbM w n i a.2).1), (condProbM w n i a.2).2) c2
    refine ⟨?_, h2⟩
    rw [h1]
    simp only [detectLoop, List.foldl_cons, c1]

theorem detectWiredM_spec (w mx : ℕ) (minP : K) (n : ℕ) (t : Memo K) (ht : Memo.Valid w t) :
    (detectWiredM w mx minP n t).1 = detectWired w mx minP n ∧
      Memo.Valid w (detectWiredM w mx minP n t).2 := by
  obtain ⟨h1, h2⟩ := detectLoopM_spec w n minP (List.range' 1 (min mx n - 1)) (([], 1), t) ht
  unfold detectWiredM detectWired
  simp only []
  rw [h1]
  exact ⟨rfl, h2⟩

end detect

/-! ### the click law of `detect` -/
section spec
variable {K : Type} [Field K] [LinearOrder K] [IsStrictOrderedRing K]

/-- probability that the reading is at least `cap` -/
def tailSum (w cap n : ℕ) : K := ∑ j ∈ Ico cap (n + 1), (closed w j n : K)

/-- the physical description: closed form below the cap, everything else folded into the cap -/
def detectSpec (w mx n k : ℕ) : K :=
  if 1 ≤ k ∧ k < min mx n then closed w k n
  else if k = min mx n then tailSum w (min mx n) n else 0

theorem closed_nonneg (w k n : ℕ) : (0 : K) ≤ closed w k n := by
  unfold closed
  exact div_nonneg (Nat.cast_nonneg _) (pow_nonneg (Nat.cast_nonneg _) _)

theorem closed_zero_left (w : ℕ) {n : ℕ} (hn : 1 ≤ n) : (closed w 0 n : K) = 0 := by
  obtain ⟨n', rfl⟩ : ∃ n', n = n' + 1 := ⟨n - 1, by omega⟩
  simp [closed, surjCount, Nat.stirlingSecond_succ_zero]

theorem closed_sum_one (w : ℕ) (hw : 0 < w) (n : ℕ) :
    ∑ k ∈ range (n + 1), (closed w k n : K) = 1 := by
  rw [← condProb_sum_succ (K := K) w hw n]
  exact Finset.sum_congr rfl fun k _ => (condProb_eq_closed w k n).symm

theorem tailSum_nonneg (w cap n : ℕ) : (0 : K) ≤ tailSum w cap n :=
  Finset.sum_nonneg fun _ _ => closed_nonneg _ _ _

theorem Ico_one_fix (cap : ℕ) : Ico 1 (1 + (cap - 1)) = Ico 1 cap := by
  rcases Nat.eq_zero_or_pos cap with rfl | h
  · simp
  · congr 1; omega

theorem sum_Ico_one_closed (w : ℕ) {n : ℕ} (hn : 1 ≤ n) (cap : ℕ) :
    ∑ i ∈ Ico 1 cap, (closed w i n : K) = ∑ i ∈ Ico 0 cap, (closed w i n : K) := by
  rcases Nat.eq_zero_or_pos cap with rfl | h
  · simp
  · rw [Finset.sum_eq_sum_Ico_succ_bot h, closed_zero_left w hn, zero_add]

/-- `remaining_p` after the loop is the tail of the closed form -/
theorem remaining_eq_tail (w : ℕ) (hw : 0 < w) {n : ℕ} (hn : 1 ≤ n) {cap : ℕ} (hc : cap ≤ n) :
    (1 : K) - ∑ i ∈ Ico 1 cap, (closed w i n : K) = tailSum w cap n := by
  have h1 := closed_sum_one (K := K) w hw n
  rw [Finset.range_eq_Ico,
    ← Finset.sum_Ico_consecutive _ (Nat.zero_le cap) (by omega : cap ≤ n + 1)] at h1
  rw [sum_Ico_one_closed w hn, tailSum]
  linear_combination -h1

theorem detectWired_rem (w mx : ℕ) (hw : 0 < w) (minP : K) {n : ℕ} (hn : 1 ≤ n) :
    (detectLoop w n minP (List.range' 1 (min mx n - 1)) (([] : Dist ℕ K), 1)).2
      = tailSum w (min mx n) n := by
  rw [detectLoop_snd, sum_map_range', Ico_one_fix]
  simp_rw [condProb_eq_closed]
  exact remaining_eq_tail w hw hn (Nat.min_le_right _ _)

/-- pointwise law of the PPNR branch of `detect` -/
theorem detectWired_prob (w mx : ℕ) (hw : 0 < w) (minP : K) {n : ℕ} (hn : 1 ≤ n) (k : ℕ) :
    prob (detectWired w mx minP n) k = keep minP (detectSpec w mx n k : K) := by
  unfold detectWired
  simp only []
  rw [prob_addP, detectLoop_prob _ _ _ _ (List.nodup_range' ..), detectWired_rem w mx hw minP hn]
  simp only [prob, zero_add, List.mem_range'_1, condProb_eq_closed]
  unfold detectSpec
  generalize min mx n = c
  by_cases h1 : 1 ≤ k ∧ k < c
  · have h2 : 1 ≤ k ∧ k < 1 + (c - 1) := by omega
    have h3 : ¬ c = k := by omega
    rw [if_pos h1, if_pos h2, if_neg h3, add_zero]
  · by_cases h2 : k = c
    · have h3 : ¬ (1 ≤ k ∧ k < 1 + (c - 1)) := by omega
      rw [if_neg h1, if_neg h3, if_pos h2.symm, if_pos h2, zero_add]
    · have h3 : ¬ (1 ≤ k ∧ k < 1 + (c - 1)) := by omega
      have h4 : ¬ c = k := fun h => h2 h.symm
      rw [if_neg h1, if_neg h3, if_neg h4, if_neg h2, zero_add]
      simp [keep]

theorem detectWired_mass (w mx : ℕ) (hw : 0 < w) (minP : K) {n : ℕ} (hn : 1 ≤ n) :
    mass (detectWired w mx minP n)
      = ∑ i ∈ Ico 1 (min mx n), keep minP (closed w i n : K)
        + keep minP (tailSum w (min mx n) n : K) := by
  unfold detectWired
  simp only []
  rw [mass_addP, detectLoop_mass, detectWired_rem w mx hw minP hn, sum_map_range', Ico_one_fix]
  simp [condProb_eq_closed]

theorem detectWired_nonneg (w mx : ℕ) (hw : 0 < w) (minP : K) {n : ℕ} (hn : 1 ≤ n) :
    Nonneg (detectWired w mx minP n) := by
  unfold detectWired
  simp only []
  have hloop : ∀ (is : List ℕ) (acc : Dist ℕ K × K), Nonneg acc.1 →
      Nonneg (detectLoop w n minP is acc).1 := by
    intro is
    unfold detectLoop
    induction is with
    | nil => intro acc h; exact h
    | cons i is ih =>
      intro acc h
      simp only [List.foldl_cons]
      apply ih
      simp only [addP]
      split
      · exact h.bump _ (by rw [condProb_eq_closed]; exact closed_nonneg _ _ _)
      · exact h
  have h0 : Nonneg (detectLoop w n minP (List.range' 1 (min mx n - 1)) (([] : Dist ℕ K), 1)).1 :=
    hloop _ _ (by intro e he; simp at he)
  simp only [addP]
  split
  · apply h0.bump
    rw [detectWired_rem w mx hw minP hn]
    exact tailSum_nonneg _ _ _
  · exact h0

end spec

/-! ### long-lived instances: memo table and `_cache` are transparent -/
section inst
variable {K : Type} [Field K] [LinearOrder K]

/-- invariant of a long-lived `Detector`: the memo table holds values of the recurrence and
every cached result is what a fresh computation returns -/
def Inst.Valid (d : Det) (minP : K) (s : Inst K) : Prop :=
  match d with
  | .pnr => True
  | .wired w mx => Memo.Valid w s.memo ∧ ∀ n r, s.cache.get n = some r → r = detectWired w mx minP n

theorem Inst.valid_init (d : Det) (minP : K) : Inst.Valid d minP ⟨[], []⟩ := by
  cases d with
  | pnr => trivial
  | wired w mx =>
    exact ⟨Memo.valid_nil w, by intro n r h; simp [DCache.get] at h⟩

theorem detectInst_step (d : Det) (minP : K) (s : Inst K) (n : ℕ) (h : Inst.Valid d minP s) :
    Inst.Valid d minP (detectInst d minP s n).1 ∧ (detectInst d minP s n).2 = (n, d.detect minP n) := by
  unfold detectInst Det.detect
  split
  · exact ⟨h, rfl⟩
  · split
    · exact ⟨h, rfl⟩
    · cases d with
      | pnr => exact ⟨h, rfl⟩
      | wired w mx =>
        obtain ⟨hm, hc⟩ := h
        simp only []
        split
        · next r hr => exact ⟨⟨hm, hc⟩, by rw [hc n r hr]⟩
        · obtain ⟨e1, e2⟩ := detectWiredM_spec w mx minP n s.memo hm
          refine ⟨⟨e2, ?_⟩, by rw [e1]⟩
          intro n' r' hr'
          simp only [DCache.get] at hr'
          split at hr'
          · next heq => cases hr'; rw [← heq, e1]
          · exact hc n' r' hr'

/-- invariant of a long-lived `BSLayeredPPNR` -/
def BsValid (minP : K) (L : ℕ) (r : K) (c : DCache K) : Prop :=
  ∀ n d, c.get n = some d → d = aggregate (treeOccP minP r L n)

theorem bsInst_step (minP : K) (L : ℕ) (r : K) (c : DCache K) (n : ℕ) (h : BsValid minP L r c) :
    BsValid minP L r (bsInst minP L r c n).1 ∧ (bsInst minP L r c n).2 = (n, bsDetectP minP L r n) := by
  unfold bsInst bsDetectP
  split
  · exact ⟨h, rfl⟩
  · split
    · next d hd => exact ⟨h, by rw [h n d hd]⟩
    · refine ⟨?_, rfl⟩
      intro n' d' hd'
      simp only [DCache.get] at hd'
      split at hd'
      · next heq => cases hd'; rw [← heq]
      · exact h n' d' hd'

end inst

/-! ### the beam-splitter tree -/
section tree
variable {K : Type} [Field K] [LinearOrder K]

theorem mass_flatMap {α σ : Type} (l : List α) (f : α → Dist σ K) :
    mass (l.flatMap f) = (l.map fun a => mass (f a)).sum := by
  induction l with
  | nil => simp
  | cons a l ih => simp [List.flatMap_cons, mass_append, ih]

theorem mass_map_scale {σ τ : Type} (g : σ → τ) (c : K) (b : Dist σ K) :
    mass (b.map fun y => (g y.1, c * y.2)) = c * mass b := by
  induction b with
  | nil => simp
  | cons y b ih => simp [ih]; ring

theorem mass_scaleTensor (c : K) (a b : Dist (List ℕ) K) :
    mass (scaleTensor c a b) = c * (mass a * mass b) := by
  unfold scaleTensor
  rw [mass_flatMap]
  induction a with
  | nil => simp
  | cons x a ih =>
    simp only [List.map_cons, List.sum_cons, ih, mass_cons]
    have : mass (b.map fun y => (x.1 ++ y.1, c * (x.2 * y.2))) = (c * x.2) * mass b := by
      have := mass_map_scale (fun l => x.1 ++ l) (c * x.2) b
      simpa [mul_assoc] using this
    rw [this]; ring

/-- the assumed SLOS law is a probability distribution (binomial theorem at every node) -/
theorem treeOcc_mass (r : K) (L n : ℕ) : mass (treeOcc r L n) = 1 := by
  induction L generalizing n with
  | zero => simp [treeOcc]
  | succ L ih =>
    unfold treeOcc
    rw [mass_flatMap]
    simp only [mass_scaleTensor, ih, mul_one]
    rw [List.range_eq_range', sum_map_range', ← Finset.range_eq_Ico, zero_add]
    have h := add_pow r (1 - r) n
    rw [show r + (1 - r) = (1 : K) by ring, one_pow] at h
    exact (Finset.sum_congr rfl fun m _ => by ring).trans h.symm

theorem aggregate_mass (d : Dist (List ℕ) K) : mass (aggregate d) = mass d := by
  unfold aggregate
  have : ∀ out : Dist ℕ K,
      mass (d.foldl (fun out e => bump out (clicks e.1) e.2) out) = mass out + mass d := by
    induction d with
    | nil => intro out; simp
    | cons e d ih => intro out; simp only [List.foldl_cons, ih, mass_bump, mass_cons]; ring
  simpa using this []

variable [IsStrictOrderedRing K]

theorem scaleTensor_nonneg {c : K} (hc : 0 ≤ c) {a b : Dist (List ℕ) K} (ha : Nonneg a)
    (hb : Nonneg b) : Nonneg (scaleTensor c a b) := by
  intro e he
  simp only [scaleTensor, List.mem_flatMap, List.mem_map] at he
  obtain ⟨x, hx, y, hy, rfl⟩ := he
  exact mul_nonneg hc (mul_nonneg (ha x hx) (hb y hy))

theorem treeOcc_nonneg {r : K} (h0 : 0 ≤ r) (h1 : r ≤ 1) (L n : ℕ) : Nonneg (treeOcc r L n) := by
  induction L generalizing n with
  | zero => intro e he; simp [treeOcc] at he; subst he; simp
  | succ L ih =>
    intro e he
    simp only [treeOcc, List.mem_flatMap] at he
    obtain ⟨j, _, hj⟩ := he
    refine scaleTensor_nonneg ?_ (ih j) (ih (n - j)) e hj
    exact mul_nonneg (mul_nonneg (Nat.cast_nonneg _) (pow_nonneg h0 _))
      (pow_nonneg (sub_nonneg.mpr h1) _)

theorem aggregate_nonneg {d : Dist (List ℕ) K} (h : Nonneg d) : Nonneg (aggregate d) := by
  unfold aggregate
  have : ∀ out : Dist ℕ K, Nonneg out →
      Nonneg (d.foldl (fun out e => bump out (clicks e.1) e.2) out) := by
    induction d with
    | nil => intro out ho; exact ho
    | cons e d ih =>
      intro out ho
      simp only [List.foldl_cons]
      exact ih (fun x hx => h x (by simp [hx])) _ (ho.bump _ (h e (by simp)))
  exact this [] (by intro e he; simp at he)

/-- with `min_p ≤ 0`, `add` drops nothing but zero entries -/
theorem mass_filter_gt {σ : Type} (d : Dist σ K) (h : Nonneg d) {minP : K} (hmin : minP ≤ 0) :
    mass (d.filter fun e => minP < e.2) = mass d := by
  induction d with
  | nil => rfl
  | cons e d ih =>
    have he : 0 ≤ e.2 := h e (by simp)
    have hd : Nonneg d := fun x hx => h x (by simp [hx])
    simp only [List.filter_cons]
    split
    · simp [ih hd]
    · next hlt =>
      have : e.2 = 0 := le_antisymm (le_trans (not_lt.mp (by simpa using hlt)) hmin) he
      simp [ih hd, this]

end tree


/-! ### the physical reading law and its relation to what `detect` builds -/
section law
variable {K : Type} [Field K] [LinearOrder K] [IsStrictOrderedRing K]

theorem closed_of_lt (w : ℕ) {k n : ℕ} (h : n < k) : (closed w k n : K) = 0 := by
  rw [← condProb_eq_closed]; exact condProb_of_lt w h

/-- `w` equally likely saturating wires hit by `n` photons, reading = min(clicks, `mx`):
the closed form below `mx`, everything from `mx` up folded into `mx`, nothing above -/
def readLaw (w mx n k : ℕ) : K :=
  if k < mx then closed w k n else if k = mx then ∑ j ∈ Ico mx (n + 1), closed w j n else 0

/-- `readLaw` is the law of `min(clicks, mx)` when `clicks` follows the closed form -/
theorem readLaw_eq_pushforward (w mx n k : ℕ) :
    (readLaw w mx n k : K) = ∑ j ∈ range (n + 1), if min j mx = k then (closed w j n : K) else 0 := by
  unfold readLaw
  by_cases h1 : k < mx
  · rw [if_pos h1]
    have : ∀ j, (min j mx = k) ↔ j = k := by intro j; omega
    simp only [this]
    rw [Finset.sum_ite_eq']
    split
    · rfl
    · next h => rw [closed_of_lt]; simp at h; omega
  · rw [if_neg h1]
    by_cases h2 : k = mx
    · subst h2
      rw [if_pos rfl]
      have : ∀ j, (min j k = k) ↔ k ≤ j := by intro j; omega
      simp only [this]
      rw [← Finset.sum_filter]
      congr 1
      ext j
      simp only [Finset.mem_Ico, Finset.mem_filter, Finset.mem_range]
      omega
    · rw [if_neg h2]
      symm
      apply Finset.sum_eq_zero
      intro j _
      rw [if_neg]; omega

theorem detectSpec_eq_readLaw (w mx : ℕ) {n : ℕ} (hn : 1 ≤ n) (k : ℕ) :
    (detectSpec w mx n k : K) = readLaw w mx n k := by
  unfold detectSpec readLaw tailSum
  rcases Nat.lt_or_ge n mx with hlt | hge
  · -- the cap is n
    rw [Nat.min_eq_right hlt.le]
    by_cases h1 : 1 ≤ k ∧ k < n
    · rw [if_pos h1, if_pos (by omega)]
    · rw [if_neg h1]
      by_cases h2 : k = n
      · subst h2
        rw [if_pos rfl, if_pos hlt, Nat.Ico_succ_singleton, Finset.sum_singleton]
      · rw [if_neg h2]
        by_cases h3 : k < mx
        · rw [if_pos h3]
          rcases Nat.eq_zero_or_pos k with rfl | hk
          · exact (closed_zero_left w hn).symm
          · exact (closed_of_lt w (by omega)).symm
        · rw [if_neg h3]
          by_cases h4 : k = mx
          · subst h4
            rw [if_pos rfl, Finset.Ico_eq_empty (by omega), Finset.sum_empty]
          · rw [if_neg h4]
  · rw [Nat.min_eq_left hge]
    by_cases h1 : 1 ≤ k ∧ k < mx
    · rw [if_pos h1, if_pos h1.2]
    · rw [if_neg h1]
      by_cases h2 : k = mx
      · subst h2
        rw [if_pos rfl, if_neg (by omega)]
      · rw [if_neg h2]
        by_cases h3 : k < mx
        · have : k = 0 := by omega
          subst this
          rw [if_pos h3]
          exact (closed_zero_left w hn).symm
        · rw [if_neg h3]

theorem readLaw_nonneg (w mx n k : ℕ) : (0 : K) ≤ readLaw w mx n k := by
  unfold readLaw
  split
  · exact closed_nonneg _ _ _
  · split
    · exact Finset.sum_nonneg fun _ _ => closed_nonneg _ _ _
    · exact le_refl _

/-- one photon at most, or one wire: exactly `min n 1` wires click -/
theorem closed_point (w : ℕ) (hw : 0 < w) {n : ℕ} (h : n ≤ 1 ∨ w = 1) (j : ℕ) :
    (closed w j n : K) = if j = min n 1 then 1 else 0 := by
  rcases Nat.eq_zero_or_pos n with rfl | hn
  · rcases Nat.eq_zero_or_pos j with rfl | hj
    · simp [closed, surjCount]
    · rw [closed_of_lt w hj, if_neg (by omega)]
  · have hmin : min n 1 = 1 := by omega
    rw [hmin]
    have hz : ∀ i, i ≠ 1 → (closed w i n : K) = 0 := by
      intro i hi
      rcases Nat.eq_zero_or_pos i with rfl | hi0
      · exact closed_zero_left w hn
      · rcases h with h | h
        · exact closed_of_lt w (by omega)
        · subst h
          simp [closed, surjCount, Nat.choose_eq_zero_of_lt (by omega : 1 < i)]
    by_cases hj : j = 1
    · subst hj
      rw [if_pos rfl]
      have hs := closed_sum_one (K := K) w hw n
      rwa [Finset.sum_eq_single 1 (fun i _ hi => hz i hi)
        (fun hnot => absurd (Finset.mem_range.mpr (by omega)) hnot)] at hs
    · rw [if_neg hj]; exact hz j hj

theorem readLaw_point (w : ℕ) (hw : 0 < w) {mx : ℕ} (hmx : 1 ≤ mx) {n : ℕ} (h : n ≤ 1 ∨ w = 1)
    (k : ℕ) : (readLaw w mx n k : K) = if min n 1 = k then 1 else 0 := by
  rw [readLaw_eq_pushforward]
  simp only [closed_point w hw h]
  rw [Finset.sum_eq_single (min n 1)]
  · have : min (min n 1) mx = min n 1 := by omega
    simp [this]
  · intro j _ hj
    simp [hj]
  · intro hnot
    exact absurd (Finset.mem_range.mpr (by omega)) hnot

theorem detect_wired_small (w mx : ℕ) (minP : K) {n : ℕ} (h : n < 2 ∨ w = 1) :
    (Det.wired w mx).detect minP n = .state (min n 1) := by
  unfold Det.detect Det.type
  by_cases hn : n < 2
  · have : min n 1 = n := by omega
    simp [hn, this]
  · have hw : w = 1 := by tauto
    have : min n 1 = 1 := by omega
    simp [hn, hw, this]

theorem detect_wired_big (w mx : ℕ) (minP : K) {n : ℕ} (hn : 2 ≤ n) (hw : w ≠ 1) :
    (Det.wired w mx).detect minP n = .dist (detectWired w mx minP n) := by
  unfold Det.detect Det.type
  simp [hw, show ¬ n < 2 by omega]

theorem mkDetector_some {w : ℕ} {maxd : Option ℕ} {d : Det} (h : mkDetector (some w) maxd = .ok d) :
    0 < w ∧ d = .wired w (maxd.getD w) ∧ maxd.getD w ≤ w := by
  unfold mkDetector at h
  simp only at h
  split at h
  · cases h
  · next hw =>
    cases maxd with
    | none => cases h; exact ⟨Nat.pos_of_ne_zero hw, rfl, le_refl _⟩
    | some m =>
      simp only at h
      split at h
      · cases h
      · next hm =>
        cases h
        have : m ≤ w := by omega
        exact ⟨Nat.pos_of_ne_zero hw, by simp [Nat.min_eq_left this], by simpa using this⟩

end law

/-! ### histories -/
section hist

theorem run_outputs_eq_map {S Op Out : Type} (step : S → Op → S × Out) (Inv : S → Prop) (f : Op → Out)
    (hstep : ∀ s op, Inv s → Inv (step s op).1 ∧ (step s op).2 = f op) (s : S) (h : Inv s)
    (ops : List Op) : (SM.run step s ops).2 = ops.map f := by
  induction ops generalizing s with
  | nil => rfl
  | cons x xs ih =>
    obtain ⟨h1, h2⟩ := hstep s x h
    simp only [SM.run, List.map_cons]
    rw [h2, ih _ h1]

end hist


/-! ### pointwise laws: total recorded weight, kernel products -/
section pointwise
variable {K : Type} [Field K] [LinearOrder K]

/-- total weight recorded under `key` (all entries with that key) -/
def wt {σ : Type} [DecidableEq σ] : Dist σ K → σ → K
  | [], _ => 0
  | e :: rest, key => (if e.1 = key then e.2 else 0) + wt rest key

def keys {σ : Type} (d : Dist σ K) : List σ := d.map Prod.fst

section generic
variable {σ : Type} [DecidableEq σ]

theorem wt_bump (d : Dist σ K) (key : σ) (p : K) (key' : σ) :
    wt (bump d key p) key' = wt d key' + if key = key' then p else 0 := by
  induction d with
  | nil => simp [bump, wt]
  | cons e rest ih =>
    obtain ⟨k, v⟩ := e
    simp only [bump]
    by_cases hk : k = key
    · subst hk
      simp only [if_true, wt]
      by_cases hk' : k = key' <;> simp [hk'] <;> ring
    · simp only [hk, if_false, wt, ih]; ring

theorem wt_addP (minP : K) (d : Dist σ K) (key : σ) (p : K) (key' : σ) :
    wt (addP minP d key p) key' = wt d key' + if key = key' then keep minP p else 0 := by
  unfold addP keep
  split
  · rw [wt_bump]
  · simp

theorem wt_of_not_mem (d : Dist σ K) (key : σ) (h : key ∉ keys d) : wt d key = 0 := by
  induction d with
  | nil => rfl
  | cons e rest ih =>
    simp only [keys, List.map_cons, List.mem_cons, not_or] at h
    have h1 : ¬ e.1 = key := fun e' => h.1 e'.symm
    simp only [wt, if_neg h1, zero_add]
    exact ih h.2

/-- without duplicate keys, the dictionary read `d[key]` is the total recorded weight -/
theorem prob_eq_wt (d : Dist σ K) (h : (keys d).Nodup) (key : σ) : prob d key = wt d key := by
  induction d with
  | nil => rfl
  | cons e rest ih =>
    obtain ⟨k, v⟩ := e
    simp only [keys, List.map_cons, List.nodup_cons] at h
    simp only [prob, wt]
    by_cases hk : k = key
    · subst hk
      simp only [if_true]
      rw [wt_of_not_mem rest k h.1, add_zero]
    · simp only [hk, if_false, zero_add]
      exact ih h.2

theorem keys_bump (d : Dist σ K) (key : σ) (p : K) :
    keys (bump d key p) = if key ∈ keys d then keys d else keys d ++ [key] := by
  induction d with
  | nil => simp [bump, keys]
  | cons e rest ih =>
    obtain ⟨k, v⟩ := e
    simp only [bump]
    by_cases hk : k = key
    · subst hk; simp [keys]
    · have hk' : ¬ key = k := fun h => hk h.symm
      simp only [hk, if_false]
      have : keys ((k, v) :: bump rest key p) = k :: keys (bump rest key p) := rfl
      rw [this, ih]
      simp only [keys, List.map_cons, List.mem_cons, hk', false_or]
      by_cases hm : key ∈ List.map Prod.fst rest <;> simp [hm]

theorem nodup_bump {d : Dist σ K} (h : (keys d).Nodup) (key : σ) (p : K) :
    (keys (bump d key p)).Nodup := by
  rw [keys_bump]
  split
  · exact h
  · next hn =>
    rw [List.nodup_append]
    refine ⟨h, List.nodup_singleton _, ?_⟩
    intro a ha b hb
    simp only [List.mem_singleton] at hb
    subst hb
    intro e; subst e; exact hn ha

theorem nodup_addP {d : Dist σ K} (h : (keys d).Nodup) (minP : K) (key : σ) (p : K) :
    (keys (addP minP d key p)).Nodup := by
  unfold addP; split
  · exact nodup_bump h key p
  · exact h

theorem sum_map_ite_key (d : Dist σ K) (k : σ) (c : K) :
    (d.map fun e => e.2 * (if e.1 = k then c else 0)).sum = wt d k * c := by
  induction d with
  | nil => simp [wt]
  | cons e d ih =>
    simp only [List.map_cons, List.sum_cons, ih, wt]
    by_cases h : e.1 = k <;> simp [h] <;> ring

theorem wt_filter_pos [IsStrictOrderedRing K] (d : Dist σ K) (h : Nonneg d) (k : σ) :
    wt (d.filter fun e => 0 < e.2) k = wt d k := by
  induction d with
  | nil => rfl
  | cons e d ih =>
    have he : 0 ≤ e.2 := h e (by simp)
    have hd : Nonneg d := fun x hx => h x (by simp [hx])
    simp only [List.filter_cons]
    split
    · simp [wt, ih hd]
    · next hlt =>
      have : e.2 = 0 := le_antisymm (not_lt.mp (by simpa using hlt)) he
      simp [wt, ih hd, this]

theorem wt_normalize (d : Dist σ K) (k : σ) : wt (normalize d) k = wt d k / (if mass d = 0 then 1 else mass d) := by
  unfold normalize
  split
  · simp
  · have : ∀ (c : K) (l : Dist σ K), wt (l.map fun e => (e.1, e.2 / c)) k = wt l k / c := by
      intro c l
      induction l with
      | nil => simp [wt]
      | cons e l ih =>
        simp only [List.map_cons, wt, ih]
        by_cases h : e.1 = k <;> simp [h] <;> ring
    rw [this]

theorem keys_normalize (d : Dist σ K) : keys (normalize d) = keys d := by
  unfold normalize keys
  split
  · rfl
  · simp [List.map_map, Function.comp_def]

end generic

/-- weight of the output state `t` under the product of the one-mode factors `fs`
(zero unless `t` has exactly one entry per factor) -/
def kprod : List (Dist ℕ K) → List ℕ → K
  | [], [] => 1
  | d :: ds, k :: t => wt d k * kprod ds t
  | _, _ => 0

/-- weight of `t` among the completions of the prefix `cur` by the factors `fs` -/
def sufw (fs : List (Dist ℕ K)) : List ℕ → List ℕ → K
  | [], t => kprod fs t
  | _ :: _, [] => 0
  | c :: cur, k :: t => if c = k then sufw fs cur t else 0

theorem sufw_nil_fs (cur t : List ℕ) : sufw ([] : List (Dist ℕ K)) cur t = if cur = t then 1 else 0 := by
  induction cur generalizing t with
  | nil => cases t <;> simp [sufw, kprod]
  | cons c cur ih =>
    cases t with
    | nil => simp [sufw]
    | cons k t =>
      simp only [sufw, ih, List.cons.injEq]
      by_cases h : c = k <;> simp [h]

theorem sufw_cons_fs (d : Dist ℕ K) (rest : List (Dist ℕ K)) (cur t : List ℕ) :
    sufw (d :: rest) cur t = (d.map fun e => e.2 * sufw rest (cur ++ [e.1]) t).sum := by
  induction cur generalizing t with
  | nil =>
    cases t with
    | nil => simp [sufw, kprod]
    | cons k u =>
      simp only [sufw, List.nil_append, kprod]
      rw [sum_map_ite_key]
  | cons c cur ih =>
    cases t with
    | nil => simp [sufw]
    | cons k u =>
      simp only [List.cons_append, sufw]
      by_cases h : c = k
      · simp only [h, if_true]; exact ih u
      · simp [h]

variable [IsStrictOrderedRing K]

theorem innerTensor_wt (fs : List (Dist ℕ K)) (hnn : ∀ d ∈ fs, Nonneg d) :
    ∀ (cur : List ℕ) (p : K), 0 ≤ p → ∀ (res : Dist (List ℕ) K) (t : List ℕ),
      wt (innerTensor fs cur p res) t = wt res t + p * sufw fs cur t := by
  induction fs with
  | nil =>
    intro cur p _ res t
    simp only [innerTensor, wt_bump, sufw_nil_fs]
    by_cases h : cur = t <;> simp [h]
  | cons d rest ih =>
    intro cur p hp res t
    have hd : Nonneg d := hnn d (by simp)
    have hrest : ∀ d' ∈ rest, Nonneg d' := fun d' h => hnn d' (by simp [h])
    have key : ∀ (l : Dist ℕ K), Nonneg l → ∀ res : Dist (List ℕ) K,
        wt (l.foldl (fun acc e => if p * e.2 < 0 then acc
            else innerTensor rest (cur ++ [e.1]) (p * e.2) acc) res) t
          = wt res t + p * (l.map fun e => e.2 * sufw rest (cur ++ [e.1]) t).sum := by
      intro l
      induction l with
      | nil => intro _ res; simp
      | cons e l ihl =>
        intro hl res
        have he : 0 ≤ e.2 := hl e (by simp)
        have hpe : 0 ≤ p * e.2 := mul_nonneg hp he
        have hl' : Nonneg l := fun x hx => hl x (by simp [hx])
        simp only [List.foldl_cons, if_neg (not_lt.mpr hpe)]
        rw [ihl hl', ih hrest (cur ++ [e.1]) (p * e.2) hpe res t]
        simp only [List.map_cons, List.sum_cons]
        ring
    simp only [innerTensor]
    rw [key d hd res, sufw_cons_fs]

theorem wt_lift (d : Dist ℕ K) (t : List ℕ) :
    wt (d.map fun e => ([e.1], e.2)) t = kprod [d] t := by
  induction d with
  | nil =>
    cases t with
    | nil => simp [wt, kprod]
    | cons k u => cases u <;> simp [wt, kprod]
  | cons e d ih =>
    simp only [List.map_cons, wt, ih]
    cases t with
    | nil => simp [kprod]
    | cons k u =>
      cases u with
      | nil => simp [kprod, wt]
      | cons k' u' => simp [kprod]

theorem kprod_of_nil_mem (fs : List (Dist ℕ K)) (h : [] ∈ fs) (t : List ℕ) : kprod fs t = 0 := by
  induction fs generalizing t with
  | nil => simp at h
  | cons d rest ih =>
    cases t with
    | nil => simp [kprod]
    | cons k u =>
      simp only [List.mem_cons] at h
      rcases h with h | h
      · subst h; simp [kprod, wt]
      · simp [kprod, ih h u]

theorem kprod_map_congr (g : Dist ℕ K → Dist ℕ K) (fs : List (Dist ℕ K))
    (h : ∀ d ∈ fs, ∀ k, wt (g d) k = wt d k) (t : List ℕ) : kprod (fs.map g) t = kprod fs t := by
  induction fs generalizing t with
  | nil => rfl
  | cons d rest ih =>
    cases t with
    | nil => simp [kprod]
    | cons k u =>
      simp only [List.map_cons, kprod, h d (by simp) k, ih (fun d' hd' => h d' (by simp [hd'])) u]

/-- `list_tensor_product` of non-negative one-mode factors: the weight of every output state is
the product of the factors' weights -/
theorem listTensor_wt (ds : List (Dist ℕ K)) (hne : ds ≠ []) (hnn : ∀ d ∈ ds, Nonneg d)
    (t : List ℕ) : wt (listTensor ds) t = kprod ds t := by
  match ds, hne, hnn with
  | [d], _, _ => exact wt_lift d t
  | d1 :: d2 :: rest, _, hnn =>
    have hunf : listTensor (d1 :: d2 :: rest) =
        if (d1 :: d2 :: rest).any (·.isEmpty) then []
        else innerTensor ((d1 :: d2 :: rest).map fun d => d.filter fun e => 0 < e.2) [] 1 [] := rfl
    rw [hunf]
    split
    · next hany =>
      rw [List.any_eq_true] at hany
      obtain ⟨d, hd, he⟩ := hany
      have : d = [] := by simpa using he
      subst this
      rw [kprod_of_nil_mem _ hd]; rfl
    · have hf : ∀ d ∈ (d1 :: d2 :: rest).map (fun d => d.filter fun e => 0 < e.2), Nonneg d := by
        intro d hd
        simp only [List.mem_map] at hd
        obtain ⟨d', hd', rfl⟩ := hd
        intro e he
        exact hnn d' hd' e (List.mem_of_mem_filter he)
      rw [innerTensor_wt _ hf [] 1 zero_le_one [] t]
      simp only [wt, zero_add, one_mul, sufw]
      exact kprod_map_congr _ _ (fun d hd k => wt_filter_pos d (hnn d hd) k) t

end pointwise

/-! ### kernels, tensor product, `simulate_detectors` -/
section sim
variable {K : Type} [Field K] [LinearOrder K] [IsStrictOrderedRing K]

/-- what the constructors guarantee -/
def AnyDet.WF : AnyDet K → Prop
  | .none => True
  | .det .pnr => True
  | .det (.wired w _) => 0 < w
  | .bs _ r => 0 ≤ r ∧ r ≤ 1

theorem mkDetector_wf {wires maxd : Option ℕ} {d : Det} (h : mkDetector wires maxd = .ok d) :
    (AnyDet.det d : AnyDet K).WF := by
  unfold mkDetector at h
  cases wires with
  | none => cases h; trivial
  | some w =>
    simp only at h
    split at h
    · cases h
    · next hw =>
      cases maxd with
      | none => cases h; exact Nat.pos_of_ne_zero hw
      | some m =>
        simp only at h
        split at h
        · cases h
        · cases h; exact Nat.pos_of_ne_zero hw

theorem mkBS_wf {L : ℕ} {r : K} {p : ℕ × K} (h : mkBS L r = .ok p) : (AnyDet.bs p.1 p.2 : AnyDet K).WF := by
  unfold mkBS at h
  split at h
  · cases h
  · split at h
    · cases h
    · next hr =>
      cases h
      exact ⟨not_lt.mp fun h0 => hr (Or.inl h0), not_lt.mp fun h1 => hr (Or.inr h1)⟩

theorem detectWired_mass_one (w mx : ℕ) (hw : 0 < w) {minP : K} (hmin : minP ≤ 0) {n : ℕ}
    (hn : 1 ≤ n) : mass (detectWired w mx minP n) = 1 := by
  rw [detectWired_mass w mx hw minP hn, keep_of_nonpos hmin (tailSum_nonneg _ _ _)]
  rw [Finset.sum_congr rfl fun i _ => keep_of_nonpos hmin (closed_nonneg w i n)]
  rw [← remaining_eq_tail w hw hn (Nat.min_le_right _ _)]
  ring

/-- every per-mode kernel is a probability distribution -/
theorem kernel_mass_one {minP : K} (hmin : minP ≤ 0) (d : AnyDet K) (hd : d.WF) (n : ℕ) :
    mass (d.kernel minP n) = 1 ∧ Nonneg (d.kernel minP n) := by
  have hstate : ∀ k : ℕ, mass ([(k, (1 : K))] : Dist ℕ K) = 1 ∧ Nonneg ([(k, (1 : K))] : Dist ℕ K) :=
    fun k => ⟨by simp, by intro e he; simp at he; subst he; simp⟩
  cases d with
  | none => exact hstate n
  | det d =>
    cases d with
    | pnr =>
      simp only [AnyDet.kernel, AnyDet.detect, Det.detect, Det.type]
      simp only [or_true, if_true, DetOut.toDist]
      exact hstate n
    | wired w mx =>
      simp only [AnyDet.kernel, AnyDet.detect, Det.detect]
      split
      · exact hstate n
      · next h1 =>
        split
        · exact hstate 1
        · have hn : 1 ≤ n := by
            by_contra hc; exact h1 (Or.inl (by omega))
          exact ⟨detectWired_mass_one w mx hd hmin hn, detectWired_nonneg w mx hd minP hn⟩
  | bs L r =>
    simp only [AnyDet.kernel, AnyDet.detect, bsDetectP]
    split
    · exact hstate n
    · have hnn := treeOcc_nonneg hd.1 hd.2 L n
      exact ⟨by simp only [DetOut.toDist]; rw [aggregate_mass, treeOccP, mass_filter_gt _ hnn hmin, treeOcc_mass],
        aggregate_nonneg (fun e he => hnn e (List.mem_of_mem_filter he))⟩

theorem innerTensor_spec (ds : List (Dist ℕ K)) (hnn : ∀ d ∈ ds, Nonneg d) :
    ∀ (cur : List ℕ) (p : K), 0 ≤ p → ∀ res : Dist (List ℕ) K,
      mass (innerTensor ds cur p res) = mass res + p * (ds.map mass).prod ∧
      (Nonneg res → Nonneg (innerTensor ds cur p res)) := by
  induction ds with
  | nil =>
    intro cur p hp res
    simp only [innerTensor, mass_bump, List.map_nil, List.prod_nil, mul_one, true_and]
    exact fun h => h.bump cur hp
  | cons d rest ih =>
    intro cur p hp res
    have hd : Nonneg d := hnn d (by simp)
    have hrest : ∀ d' ∈ rest, Nonneg d' := fun d' h => hnn d' (by simp [h])
    have key : ∀ (l : Dist ℕ K), Nonneg l → ∀ res : Dist (List ℕ) K,
        mass (l.foldl (fun acc e => if p * e.2 < 0 then acc
            else innerTensor rest (cur ++ [e.1]) (p * e.2) acc) res)
          = mass res + p * mass l * (rest.map mass).prod ∧
        (Nonneg res → Nonneg (l.foldl (fun acc e => if p * e.2 < 0 then acc
            else innerTensor rest (cur ++ [e.1]) (p * e.2) acc) res)) := by
      intro l
      induction l with
      | nil => intro _ res; simp
      | cons e l ihl =>
        intro hl res
        have he : 0 ≤ e.2 := hl e (by simp)
        have hpe : 0 ≤ p * e.2 := mul_nonneg hp he
        have hl' : Nonneg l := fun x hx => hl x (by simp [hx])
        simp only [List.foldl_cons, if_neg (not_lt.mpr hpe)]
        obtain ⟨m1, n1⟩ := ih hrest (cur ++ [e.1]) (p * e.2) hpe res
        obtain ⟨m2, n2⟩ := ihl hl' (innerTensor rest (cur ++ [e.1]) (p * e.2) res)
        refine ⟨?_, fun h => n2 (n1 h)⟩
        rw [m2, m1, mass_cons]; ring
    obtain ⟨k1, k2⟩ := key d hd res
    simp only [innerTensor, List.map_cons, List.prod_cons]
    exact ⟨by rw [k1]; ring, k2⟩

theorem mass_filter_pos {σ : Type} (d : Dist σ K) (h : Nonneg d) :
    mass (d.filter fun e => 0 < e.2) = mass d := by
  induction d with
  | nil => rfl
  | cons e d ih =>
    have he : 0 ≤ e.2 := h e (by simp)
    have hd : Nonneg d := fun x hx => h x (by simp [hx])
    simp only [List.filter_cons]
    split
    · simp [ih hd]
    · next hlt =>
      have : e.2 = 0 := le_antisymm (not_lt.mp (by simpa using hlt)) he
      simp [ih hd, this]

theorem listTensor_spec (ds : List (Dist ℕ K)) (hne : ds ≠ []) (hnn : ∀ d ∈ ds, Nonneg d) :
    mass (listTensor ds) = (ds.map mass).prod ∧ Nonneg (listTensor ds) := by
  match ds, hne, hnn with
  | [d], _, hnn =>
    have hd : Nonneg d := hnn d (by simp)
    constructor
    · simp [listTensor, mass, List.map_map, Function.comp_def]
    · intro e he
      simp only [listTensor, List.mem_map] at he
      obtain ⟨x, hx, rfl⟩ := he
      exact hd x hx
  | d1 :: d2 :: rest, _, hnn =>
    have hunf : listTensor (d1 :: d2 :: rest) =
        if (d1 :: d2 :: rest).any (·.isEmpty) then []
        else innerTensor ((d1 :: d2 :: rest).map fun d => d.filter fun e => 0 < e.2) [] 1 [] := rfl
    rw [hunf]
    split
    · next hany =>
      constructor
      · rw [List.any_eq_true] at hany
        obtain ⟨d, hd, he⟩ := hany
        have : d = [] := by simpa using he
        subst this
        rw [mass_nil]
        exact (List.prod_eq_zero (List.mem_map.mpr ⟨[], hd, rfl⟩)).symm
      · intro e he; simp at he
    · have hf : ∀ d ∈ (d1 :: d2 :: rest).map (fun d => d.filter fun e => 0 < e.2), Nonneg d := by
        intro d hd
        simp only [List.mem_map] at hd
        obtain ⟨d', hd', rfl⟩ := hd
        intro e he
        exact hnn d' hd' e (List.mem_of_mem_filter he)
      obtain ⟨m1, n1⟩ := innerTensor_spec _ hf [] 1 zero_le_one []
      refine ⟨?_, n1 (by intro e he; simp at he)⟩
      rw [m1, mass_nil, zero_add, one_mul, List.map_map]
      congr 1
      apply List.map_congr_left
      intro d hd
      exact mass_filter_pos d (hnn d hd)

/-- the kernel product of one input state is a probability distribution -/
theorem stateDist_mass_one {minP : K} (hmin : minP ≤ 0) (ds : List (AnyDet K))
    (hwf : ∀ d ∈ ds, d.WF) (s : List ℕ) (hlen : s.length = ds.length) (hne : ds ≠ []) :
    mass (stateDist minP ds s) = 1 ∧ Nonneg (stateDist minP ds s) := by
  unfold stateDist
  have hk : ∀ k ∈ List.zipWith (fun n d => AnyDet.kernel minP d n) s ds, mass k = 1 ∧ Nonneg k := by
    intro k hk
    rw [List.mem_iff_getElem] at hk
    obtain ⟨i, hi, rfl⟩ := hk
    rw [List.getElem_zipWith]
    exact kernel_mass_one hmin _ (hwf _ (List.getElem_mem _)) _
  have hne' : List.zipWith (fun n d => AnyDet.kernel minP d n) s ds ≠ [] := by
    intro h
    have := congrArg List.length h
    simp only [List.length_zipWith, hlen, Nat.min_self, List.length_nil] at this
    exact hne (List.length_eq_zero_iff.mp this)
  obtain ⟨m, nn⟩ := listTensor_spec _ hne' fun d hd => (hk d hd).2
  refine ⟨?_, nn⟩
  rw [m]
  apply List.prod_eq_one
  intro x hx
  obtain ⟨k, hk', rfl⟩ := List.mem_map.mp hx
  exact (hk k hk').1

/-- retained mass minus performance -/
def bal (a : Acc K) : K := mass a.1 - a.2

theorem simState_bal {minP : K} (hmin : minP ≤ 0) (minPhotons : Option ℕ) {p : K} (hp : 0 ≤ p)
    (sd : Dist (List ℕ) K) (hsd : Nonneg sd) (a : Acc K) :
    bal (simState minP minPhotons p sd a) = bal a + p * mass sd := by
  unfold simState
  induction sd generalizing a with
  | nil => simp
  | cons o sd ih =>
    have ho : 0 ≤ o.2 := hsd o (by simp)
    have hsd' : Nonneg sd := fun x hx => hsd x (by simp [hx])
    simp only [List.foldl_cons]
    rw [ih hsd']
    split
    · simp only [bal, mass_cons]; ring
    · simp only [bal, mass_cons, mass_addP, keep_of_nonpos hmin (mul_nonneg hp ho)]; ring

theorem simGeneral_bal {minP : K} (hmin : minP ≤ 0) (minPhotons : Option ℕ) (ds : List (AnyDet K))
    (hwf : ∀ d ∈ ds, d.WF) (hne : ds ≠ []) (dist : Dist (List ℕ) K) (hnn : Nonneg dist)
    (hlen : ∀ e ∈ dist, e.1.length = ds.length) :
    bal (simGeneral minP minPhotons ds dist) = mass dist - 1 := by
  unfold simGeneral
  have : ∀ a : Acc K, bal (dist.foldl (fun a e =>
      simState minP minPhotons e.2 (stateDist minP ds e.1) a) a) = bal a + mass dist := by
    induction dist with
    | nil => intro a; simp
    | cons e dist ih =>
      intro a
      have he : 0 ≤ e.2 := hnn e (by simp)
      obtain ⟨m1, n1⟩ := stateDist_mass_one hmin ds hwf e.1 (hlen e (by simp)) hne
      simp only [List.foldl_cons]
      rw [ih (fun x hx => hnn x (by simp [hx])) (fun x hx => hlen x (by simp [hx])),
        simState_bal hmin minPhotons he _ n1, m1, mass_cons]
      ring
  rw [this]; simp [bal]; ring

theorem simThreshold_bal (minPhotons : Option ℕ) (dist : Dist (List ℕ) K) :
    bal (simThreshold minPhotons dist) = mass dist - 1 := by
  unfold simThreshold
  have : ∀ a : Acc K, bal (dist.foldl (fun a e =>
      if belowFilter minPhotons (e.1.map (min · 1)) then (a.1, a.2 - e.2)
      else (bump a.1 (e.1.map (min · 1)) e.2, a.2)) a) = bal a + mass dist := by
    induction dist with
    | nil => intro a; simp
    | cons e dist ih =>
      intro a
      simp only [List.foldl_cons]
      rw [ih]
      split
      · simp only [bal, mass_cons]; ring
      · simp only [bal, mass_cons, mass_bump]; ring
  rw [this]; simp [bal]; ring

theorem mass_normalize {σ : Type} (d : Dist σ K) (h : mass d ≠ 0) : mass (normalize d) = 1 := by
  unfold normalize
  rw [if_neg h]
  have : ∀ (c : K) (l : Dist σ K), mass (l.map fun e => (e.1, e.2 / c)) = mass l / c := by
    intro c l
    induction l with
    | nil => simp
    | cons e l ih => simp only [List.map_cons, mass_cons, ih]; ring
  rw [this, div_self h]

theorem detTypeLoop_nil_pnr : detectionType ([] : List (AnyDet K)) = .PNR := rfl

end sim


/-! ### results of `detect` have no duplicate keys -/
section nodup
variable {K : Type} [Field K] [LinearOrder K]

theorem detectWired_nodup (w mx : ℕ) (minP : K) (n : ℕ) : (keys (detectWired w mx minP n)).Nodup := by
  unfold detectWired
  simp only []
  apply nodup_addP
  have : ∀ (is : List ℕ) (acc : Dist ℕ K × K), (keys acc.1).Nodup →
      (keys (detectLoop w n minP is acc).1).Nodup := by
    intro is
    unfold detectLoop
    induction is with
    | nil => intro acc h; exact h
    | cons i is ih => intro acc h; simp only [List.foldl_cons]; exact ih _ (nodup_addP h _ _ _)
  exact this _ _ (by simp [keys])

theorem aggregate_nodup (d : Dist (List ℕ) K) : (keys (aggregate d)).Nodup := by
  unfold aggregate
  have : ∀ out : Dist ℕ K, (keys out).Nodup →
      (keys (d.foldl (fun out e => bump out (clicks e.1) e.2) out)).Nodup := by
    induction d with
    | nil => intro out h; exact h
    | cons e d ih => intro out h; simp only [List.foldl_cons]; exact ih _ (nodup_bump h _ _)
  exact this [] (by simp [keys])

theorem kernel_nodup (minP : K) (d : AnyDet K) (n : ℕ) : (keys (d.kernel minP n)).Nodup := by
  have hstate : ∀ k : ℕ, (keys ([(k, (1 : K))] : Dist ℕ K)).Nodup := fun k => by simp [keys]
  cases d with
  | none => exact hstate n
  | det d =>
    simp only [AnyDet.kernel, AnyDet.detect, Det.detect]
    split
    · exact hstate n
    · split
      · exact hstate 1
      · cases d with
        | pnr => exact hstate n
        | wired w mx => exact detectWired_nodup w mx minP n
  | bs L r =>
    simp only [AnyDet.kernel, AnyDet.detect, bsDetectP]
    split
    · exact hstate n
    · exact aggregate_nodup _

end nodup

/-! ### `simulate_detectors`, pointwise -/
section simPointwise
variable {K : Type} [Field K] [LinearOrder K] [IsStrictOrderedRing K]

/-- the one-mode kernels of one input state: `zip(s, detectors)` -/
def kernels (minP : K) (ds : List (AnyDet K)) (s : List ℕ) : List (Dist ℕ K) :=
  List.zipWith (fun n d => d.kernel minP n) s ds

theorem kernels_spec {minP : K} (hmin : minP ≤ 0) (ds : List (AnyDet K)) (hwf : ∀ d ∈ ds, d.WF)
    (s : List ℕ) : ∀ k ∈ kernels minP ds s, mass k = 1 ∧ Nonneg k := by
  intro k hk
  unfold kernels at hk
  rw [List.mem_iff_getElem] at hk
  obtain ⟨i, hi, rfl⟩ := hk
  rw [List.getElem_zipWith]
  exact kernel_mass_one hmin _ (hwf _ (List.getElem_mem _)) _

theorem kernels_ne_nil (minP : K) {ds : List (AnyDet K)} (hne : ds ≠ []) {s : List ℕ}
    (hlen : s.length = ds.length) : kernels minP ds s ≠ [] := by
  intro h
  have := congrArg List.length h
  simp only [kernels, List.length_zipWith, hlen, Nat.min_self, List.length_nil] at this
  exact hne (List.length_eq_zero_iff.mp this)

theorem stateDist_wt {minP : K} (hmin : minP ≤ 0) (ds : List (AnyDet K)) (hwf : ∀ d ∈ ds, d.WF)
    (s : List ℕ) (hlen : s.length = ds.length) (hne : ds ≠ []) (t : List ℕ) :
    wt (stateDist minP ds s) t = kprod (kernels minP ds s) t :=
  listTensor_wt _ (kernels_ne_nil minP hne hlen) (fun d hd => (kernels_spec hmin ds hwf s d hd).2) t

theorem simState_wt {minP : K} (hmin : minP ≤ 0) (minPhotons : Option ℕ) {p : K} (hp : 0 ≤ p)
    (sd : Dist (List ℕ) K) (hsd : Nonneg sd) (a : Acc K) (t : List ℕ) :
    wt (simState minP minPhotons p sd a).1 t
      = wt a.1 t + if belowFilter minPhotons t then 0 else p * wt sd t := by
  unfold simState
  induction sd generalizing a with
  | nil => simp [wt]
  | cons o sd ih =>
    have ho : 0 ≤ o.2 := hsd o (by simp)
    have hsd' : Nonneg sd := fun x hx => hsd x (by simp [hx])
    simp only [List.foldl_cons]
    rw [ih hsd']
    by_cases hb : belowFilter minPhotons o.1 = true
    · simp only [hb, if_true, wt]
      by_cases ht : o.1 = t
      · subst ht; simp [hb]
      · simp [ht]
    · simp only [hb, Bool.false_eq_true, if_false, wt_addP, wt,
        keep_of_nonpos hmin (mul_nonneg hp ho)]
      by_cases ht : o.1 = t
      · subst ht; simp [hb]; ring
      · simp [ht]

theorem simState_nodup (minP : K) (minPhotons : Option ℕ) (p : K) (sd : Dist (List ℕ) K) (a : Acc K)
    (h : (keys a.1).Nodup) : (keys (simState minP minPhotons p sd a).1).Nodup := by
  unfold simState
  induction sd generalizing a with
  | nil => exact h
  | cons o sd ih =>
    simp only [List.foldl_cons]
    apply ih
    split
    · exact h
    · exact nodup_addP h _ _ _

theorem simGeneral_wt {minP : K} (hmin : minP ≤ 0) (minPhotons : Option ℕ) (ds : List (AnyDet K))
    (hwf : ∀ d ∈ ds, d.WF) (hne : ds ≠ []) (dist : Dist (List ℕ) K) (hnn : Nonneg dist)
    (hlen : ∀ e ∈ dist, e.1.length = ds.length) (t : List ℕ) :
    wt (simGeneral minP minPhotons ds dist).1 t
      = if belowFilter minPhotons t then 0
        else (dist.map fun e => e.2 * kprod (kernels minP ds e.1) t).sum := by
  unfold simGeneral
  have : ∀ a : Acc K, wt (dist.foldl (fun a e =>
      simState minP minPhotons e.2 (stateDist minP ds e.1) a) a).1 t
      = wt a.1 t + if belowFilter minPhotons t then 0
        else (dist.map fun e => e.2 * kprod (kernels minP ds e.1) t).sum := by
    induction dist with
    | nil => intro a; simp
    | cons e dist ih =>
      intro a
      have he : 0 ≤ e.2 := hnn e (by simp)
      obtain ⟨_, n1⟩ := stateDist_mass_one hmin ds hwf e.1 (hlen e (by simp)) hne
      simp only [List.foldl_cons]
      rw [ih (fun x hx => hnn x (by simp [hx])) (fun x hx => hlen x (by simp [hx])),
        simState_wt hmin minPhotons he _ n1, stateDist_wt hmin ds hwf e.1 (hlen e (by simp)) hne]
      simp only [List.map_cons, List.sum_cons]
      split <;> ring
  rw [this]; simp [wt]

theorem simGeneral_nodup (minP : K) (minPhotons : Option ℕ) (ds : List (AnyDet K))
    (dist : Dist (List ℕ) K) : (keys (simGeneral minP minPhotons ds dist).1).Nodup := by
  unfold simGeneral
  have : ∀ a : Acc K, (keys a.1).Nodup → (keys (dist.foldl (fun a e =>
      simState minP minPhotons e.2 (stateDist minP ds e.1) a) a).1).Nodup := by
    induction dist with
    | nil => intro a h; exact h
    | cons e dist ih =>
      intro a h
      simp only [List.foldl_cons]
      exact ih _ (simState_nodup minP minPhotons e.2 _ a h)
  exact this _ (by simp [keys])

theorem simThreshold_wt (minPhotons : Option ℕ) (dist : Dist (List ℕ) K) (t : List ℕ) :
    wt (simThreshold minPhotons dist).1 t
      = if belowFilter minPhotons t then 0
        else (dist.map fun e => e.2 * (if e.1.map (min · 1) = t then 1 else 0)).sum := by
  unfold simThreshold
  have : ∀ a : Acc K, wt (dist.foldl (fun a e =>
      if belowFilter minPhotons (e.1.map (min · 1)) then (a.1, a.2 - e.2)
      else (bump a.1 (e.1.map (min · 1)) e.2, a.2)) a).1 t
      = wt a.1 t + if belowFilter minPhotons t then 0
        else (dist.map fun e => e.2 * (if e.1.map (min · 1) = t then 1 else 0)).sum := by
    induction dist with
    | nil => intro a; simp
    | cons e dist ih =>
      intro a
      simp only [List.foldl_cons]
      rw [ih]
      simp only [List.map_cons, List.sum_cons]
      by_cases hb : belowFilter minPhotons (e.1.map (min · 1)) = true
      · simp only [hb, if_true]
        by_cases ht : e.1.map (min · 1) = t
        · subst ht; simp [hb]
        · simp [ht]
      · simp only [hb, Bool.false_eq_true, if_false, wt_bump]
        by_cases ht : e.1.map (min · 1) = t
        · subst ht; simp [hb]; ring
        · simp [ht]
  rw [this]; simp [wt]

theorem simThreshold_nodup (minPhotons : Option ℕ) (dist : Dist (List ℕ) K) :
    (keys (simThreshold (K := K) minPhotons dist).1).Nodup := by
  unfold simThreshold
  have : ∀ a : Acc K, (keys a.1).Nodup → (keys (dist.foldl (fun a e =>
      if belowFilter minPhotons (e.1.map (min · 1)) then (a.1, a.2 - e.2)
      else (bump a.1 (e.1.map (min · 1)) e.2, a.2)) a).1).Nodup := by
    induction dist with
    | nil => intro a h; exact h
    | cons e dist ih =>
      intro a h
      simp only [List.foldl_cons]
      apply ih
      split
      · exact h
      · exact nodup_bump h _ _
  exact this _ (by simp [keys])

/-- a detector of threshold type has the point kernel `n ↦ min n 1` -/
theorem kernel_of_threshold (minP : K) (d : AnyDet K) (h : d.type = .Threshold) (n : ℕ) :
    d.kernel minP n = [(min n 1, 1)] := by
  cases d with
  | none => simp [AnyDet.type] at h
  | det d =>
    cases d with
    | pnr => simp [AnyDet.type, Det.type] at h
    | wired w mx =>
      have hw : w = 1 := by
        by_contra hne
        simp [AnyDet.type, Det.type, hne] at h
      simp only [AnyDet.kernel, AnyDet.detect]
      rw [detect_wired_small w mx minP (Or.inr hw)]
      rfl
  | bs L r => simp [AnyDet.type] at h

theorem kprod_threshold (minP : K) (ds : List (AnyDet K)) (h : ∀ d ∈ ds, d.type = .Threshold)
    (s : List ℕ) (hlen : s.length = ds.length) (t : List ℕ) :
    kprod (kernels minP ds s) t = if s.map (min · 1) = t then 1 else 0 := by
  induction ds generalizing s t with
  | nil =>
    have : s = [] := List.length_eq_zero_iff.mp hlen
    subst this
    cases t <;> simp [kernels, kprod]
  | cons d ds ih =>
    cases s with
    | nil => simp at hlen
    | cons n s =>
      have hk : kernels minP (d :: ds) (n :: s) = d.kernel minP n :: kernels minP ds s := rfl
      rw [hk, kernel_of_threshold minP d (h d (by simp))]
      cases t with
      | nil => simp [kprod]
      | cons k u =>
        simp only [kprod, wt, List.map_cons, List.cons.injEq,
          ih (fun d' hd' => h d' (by simp [hd'])) s (by simpa using hlen) u]
        by_cases h1 : min n 1 = k <;> simp [h1]

theorem detTypeLoop_threshold_all (ds : List (AnyDet K)) (t : DType)
    (h : detTypeLoop (some t) ds = .Threshold) : t = .Threshold ∧ ∀ d ∈ ds, d.type = .Threshold := by
  induction ds with
  | nil => simp only [detTypeLoop, Option.getD_some] at h; exact ⟨h, by simp⟩
  | cons d rest ih =>
    simp only [detTypeLoop] at h
    split at h
    · cases h
    · next hne =>
      have hd : t = d.type := by simpa using hne
      obtain ⟨h1, h2⟩ := ih h
      refine ⟨h1, ?_⟩
      intro x hx
      simp only [List.mem_cons] at hx
      rcases hx with rfl | hx
      · rw [← hd, h1]
      · exact h2 x hx

theorem detectionType_threshold_all (ds : List (AnyDet K)) (h : detectionType ds = .Threshold) :
    ∀ d ∈ ds, d.type = .Threshold := by
  cases ds with
  | nil => simp [detectionType] at h
  | cons d rest =>
    simp only [detectionType, List.isEmpty_cons, Bool.false_eq_true, if_false, detTypeLoop] at h
    obtain ⟨h1, h2⟩ := detTypeLoop_threshold_all rest _ h
    intro x hx
    simp only [List.mem_cons] at hx
    rcases hx with rfl | hx
    · exact h1
    · exact h2 x hx

end simPointwise

/-! ### `simulate_detectors_sample` -/
section samplePath
variable {K : Type} [Field K] [LinearOrder K] [IsStrictOrderedRing K]

theorem sampleLoop_fixed_ok (minP : K) (s : List ℕ) (ds : List (AnyDet K)) (acc : Dist (List ℕ) K) :
    ∃ r, sampleLoop true minP s ds acc = .ok r := by
  induction s generalizing ds acc with
  | nil => exact ⟨acc, by simp [sampleLoop]⟩
  | cons n s ih =>
    cases ds with
    | nil => exact ⟨acc, by simp [sampleLoop]⟩
    | cons d ds =>
      obtain ⟨r, hr⟩ := ih ds (tensor2 acc (lift1 (d.kernel minP n)))
      refine ⟨r, ?_⟩
      cases d <;> simpa [sampleLoop] using hr

/-- the inner loop of `tensor_product` for one entry `x` of the left factor -/
def t2inner (x : List ℕ × K) (b : Dist (List ℕ) K) (acc : Dist (List ℕ) K) : Dist (List ℕ) K :=
  b.foldl (fun acc y => if x.2 * y.2 < 0 then acc else bump acc (x.1 ++ y.1) (x.2 * y.2)) acc

theorem tensor2_eq (a b : Dist (List ℕ) K) :
    tensor2 a b = if a.isEmpty then b else a.foldl (fun acc x => t2inner x b acc) [] := rfl

theorem t2inner_cons (x : List ℕ × K) (y : List ℕ × K) (b : Dist (List ℕ) K) (acc : Dist (List ℕ) K) :
    t2inner x (y :: b) acc
      = t2inner x b (if x.2 * y.2 < 0 then acc else bump acc (x.1 ++ y.1) (x.2 * y.2)) := rfl

theorem t2inner_spec (x : List ℕ × K) (hx : 0 ≤ x.2) (b : Dist (List ℕ) K) (hb : Nonneg b)
    (acc : Dist (List ℕ) K) :
    (∀ t, wt (t2inner x b acc) t
        = wt acc t + x.2 * (b.map fun y => y.2 * (if x.1 ++ y.1 = t then 1 else 0)).sum) ∧
      mass (t2inner x b acc) = mass acc + x.2 * mass b ∧
      (Nonneg acc → Nonneg (t2inner x b acc)) := by
  induction b generalizing acc with
  | nil => simp [t2inner]
  | cons y b ih =>
    have hy : 0 ≤ y.2 := hb y (by simp)
    obtain ⟨i1, i2, i3⟩ := ih (fun z hz => hb z (by simp [hz])) (bump acc (x.1 ++ y.1) (x.2 * y.2))
    rw [t2inner_cons, if_neg (not_lt.mpr (mul_nonneg hx hy))]
    refine ⟨?_, ?_, fun h => i3 (h.bump _ (mul_nonneg hx hy))⟩
    · intro t
      rw [i1 t, wt_bump]
      simp only [List.map_cons, List.sum_cons]
      by_cases h : x.1 ++ y.1 = t <;> simp [h] <;> ring
    · rw [i2, mass_bump, mass_cons]; ring

/-- `tensor_product` of a non-empty non-negative `a` with a non-negative `b` -/
theorem tensor2_spec (a b : Dist (List ℕ) K) (ha : Nonneg a) (hb : Nonneg b) (hne : a ≠ []) :
    (∀ t, wt (tensor2 a b) t
        = (a.map fun x => x.2 * (b.map fun y => y.2 * (if x.1 ++ y.1 = t then 1 else 0)).sum).sum) ∧
      mass (tensor2 a b) = mass a * mass b ∧ Nonneg (tensor2 a b) := by
  have he : a.isEmpty = false := by cases a <;> simp_all
  rw [tensor2_eq]
  simp only [he, Bool.false_eq_true, if_false]
  have key : ∀ (l : Dist (List ℕ) K), Nonneg l → ∀ acc : Dist (List ℕ) K,
      (∀ t, wt (l.foldl (fun acc x => t2inner x b acc) acc) t
        = wt acc t + (l.map fun x => x.2 * (b.map fun y => y.2 * (if x.1 ++ y.1 = t then 1 else 0)).sum).sum) ∧
      mass (l.foldl (fun acc x => t2inner x b acc) acc) = mass acc + mass l * mass b ∧
      (Nonneg acc → Nonneg (l.foldl (fun acc x => t2inner x b acc) acc)) := by
    intro l
    induction l with
    | nil => intro _ acc; simp
    | cons x l ih =>
      intro hl acc
      have hx : 0 ≤ x.2 := hl x (by simp)
      obtain ⟨j1, j2, j3⟩ := t2inner_spec x hx b hb acc
      obtain ⟨i1, i2, i3⟩ := ih (fun z hz => hl z (by simp [hz])) (t2inner x b acc)
      simp only [List.foldl_cons]
      refine ⟨?_, ?_, fun h => i3 (j3 h)⟩
      · intro t
        rw [i1 t, j1 t]
        simp only [List.map_cons, List.sum_cons]; ring
      · rw [i2, j2, mass_cons]; ring
  obtain ⟨k1, k2, k3⟩ := key a ha []
  refine ⟨fun t => by rw [k1 t]; simp [wt], by rw [k2]; simp, k3 (by intro e he'; simp at he')⟩

theorem kprod_nil_ne (t : List ℕ) (h : t ≠ []) : kprod ([] : List (Dist ℕ K)) t = 0 := by
  cases t with
  | nil => exact absurd rfl h
  | cons k u => rfl

theorem kprod_snoc_nil (fs : List (Dist ℕ K)) (k : Dist ℕ K) : kprod (fs ++ [k]) [] = 0 := by
  cases fs <;> rfl

theorem kprod_snoc (fs : List (Dist ℕ K)) (k : Dist ℕ K) (u : List ℕ) (j : ℕ) :
    kprod (fs ++ [k]) (u ++ [j]) = kprod fs u * wt k j := by
  induction fs generalizing u with
  | nil =>
    cases u with
    | nil => simp [kprod]
    | cons a u' =>
      simp only [List.nil_append, List.cons_append, kprod]
      rw [kprod_nil_ne _ (by simp)]
      simp
  | cons d fs ih =>
    cases u with
    | nil => simp only [List.cons_append, List.nil_append, kprod, kprod_snoc_nil]; simp
    | cons a u' => simp only [List.cons_append, kprod, ih u']; ring

theorem lift1_sum (k : Dist ℕ K) (x : List ℕ) (t : List ℕ) :
    ((lift1 k).map fun y => y.2 * (if x ++ y.1 = t then (1 : K) else 0)).sum
      = (k.map fun e => e.2 * (if x ++ [e.1] = t then (1 : K) else 0)).sum := by
  simp [lift1, List.map_map, Function.comp_def]

/-- one step of the sampling loop on a non-empty accumulator whose weights are a kernel product -/
theorem tensor2_lift_wt (a : Dist (List ℕ) K) (fs : List (Dist ℕ K)) (k : Dist ℕ K)
    (ha : Nonneg a) (hk : Nonneg k) (hne : a ≠ []) (hw : ∀ t, wt a t = kprod fs t) (t : List ℕ) :
    wt (tensor2 a (lift1 k)) t = kprod (fs ++ [k]) t := by
  have hl : Nonneg (lift1 k) := by
    intro e he
    simp only [lift1, List.mem_map] at he
    obtain ⟨x, hx, rfl⟩ := he
    exact hk x hx
  rw [(tensor2_spec a (lift1 k) ha hl hne).1 t]
  simp only [lift1_sum]
  rcases List.eq_nil_or_concat t with rfl | ⟨u, j, rfl⟩
  · rw [kprod_snoc_nil]
    simp
  · rw [List.concat_eq_append, kprod_snoc, ← hw u]
    simp only [List.append_singleton_inj]
    have h1 : ∀ x : List ℕ × K,
        (k.map fun e => e.2 * (if x.1 = u ∧ e.1 = j then (1 : K) else 0)).sum
          = (if x.1 = u then 1 else 0) * wt k j := by
      intro x
      by_cases hx : x.1 = u
      · simp only [hx, true_and, if_true, one_mul]
        rw [sum_map_ite_key, mul_one]
      · simp [hx]
    simp only [h1]
    have h2 : (a.map fun x => x.2 * ((if x.1 = u then (1 : K) else 0) * wt k j)).sum
        = (a.map fun x => x.2 * (if x.1 = u then wt k j else 0)).sum := by
      congr 1
      apply List.map_congr_left
      intro x _
      by_cases hx : x.1 = u <;> simp [hx]
    rw [h2, sum_map_ite_key]

theorem sampleLoop_spec {minP : K} (hmin : minP ≤ 0) :
    ∀ (s : List ℕ) (ds : List (AnyDet K)), (∀ d ∈ ds, d.WF) →
      ∀ (fs : List (Dist ℕ K)) (acc : Dist (List ℕ) K),
        (fs = [] → acc = []) →
        (fs ≠ [] → Nonneg acc ∧ mass acc = 1 ∧ ∀ t, wt acc t = kprod fs t) →
        fs ++ kernels minP ds s ≠ [] →
        ∃ r, sampleLoop true minP s ds acc = .ok r ∧ Nonneg r ∧ mass r = 1 ∧
          ∀ t, wt r t = kprod (fs ++ kernels minP ds s) t := by
  intro s
  induction s with
  | nil =>
    intro ds _ fs acc _ h2 hne
    have hk : kernels minP ds [] = [] := by simp [kernels]
    rw [hk, List.append_nil] at hne ⊢
    obtain ⟨a1, a2, a3⟩ := h2 hne
    exact ⟨acc, by simp [sampleLoop], a1, a2, a3⟩
  | cons n s ih =>
    intro ds hwf fs acc h1 h2 hne
    cases ds with
    | nil =>
      have hk : kernels minP [] (n :: s) = [] := by simp [kernels]
      rw [hk, List.append_nil] at hne ⊢
      obtain ⟨a1, a2, a3⟩ := h2 hne
      exact ⟨acc, by simp [sampleLoop], a1, a2, a3⟩
    | cons d ds =>
      have hkd := kernel_mass_one hmin d (hwf d (by simp)) n
      have hk : kernels minP (d :: ds) (n :: s) = d.kernel minP n :: kernels minP ds s := rfl
      have hstep : sampleLoop true minP (n :: s) (d :: ds) acc
          = sampleLoop true minP s ds (tensor2 acc (lift1 (d.kernel minP n))) := by
        cases d <;> simp [sampleLoop]
      have hl : Nonneg (lift1 (d.kernel minP n)) := by
        intro e he
        simp only [lift1, List.mem_map] at he
        obtain ⟨x, hx, rfl⟩ := he
        exact hkd.2 x hx
      have hlm : mass (lift1 (d.kernel minP n)) = 1 := by
        rw [← hkd.1]
        simp [lift1, mass, List.map_map, Function.comp_def]
      have hacc' : Nonneg (tensor2 acc (lift1 (d.kernel minP n))) ∧
          mass (tensor2 acc (lift1 (d.kernel minP n))) = 1 ∧
          ∀ t, wt (tensor2 acc (lift1 (d.kernel minP n))) t = kprod (fs ++ [d.kernel minP n]) t := by
        by_cases hfs : fs = []
        · have : acc = [] := h1 hfs
          subst this; subst hfs
          have : tensor2 ([] : Dist (List ℕ) K) (lift1 (d.kernel minP n)) = lift1 (d.kernel minP n) := by
            simp [tensor2]
          rw [this]
          exact ⟨hl, hlm, fun t => wt_lift _ t⟩
        · obtain ⟨a1, a2, a3⟩ := h2 hfs
          have hane : acc ≠ [] := by
            intro h; rw [h] at a2; simp at a2
          obtain ⟨_, m2, m3⟩ := tensor2_spec acc (lift1 (d.kernel minP n)) a1 hl hane
          exact ⟨m3, by rw [m2, a2, hlm, mul_one],
            fun t => tensor2_lift_wt acc fs _ a1 hkd.2 hane a3 t⟩
      have := ih ds (fun x hx => hwf x (by simp [hx])) (fs ++ [d.kernel minP n])
        (tensor2 acc (lift1 (d.kernel minP n))) (by simp) (fun _ => hacc') (by simp)
      rw [hstep, hk]
      simpa [List.append_assoc] using this

/-- a detector of PNR type (unset, or `Detector.pnr()`) has the point kernel `n ↦ n` -/
theorem kernel_of_pnr (minP : K) (d : AnyDet K) (h : d.type = .PNR) (n : ℕ) :
    d.kernel minP n = [(n, 1)] := by
  cases d with
  | none => rfl
  | det d =>
    cases d with
    | pnr => simp [AnyDet.kernel, AnyDet.detect, Det.detect, Det.type, DetOut.toDist]
    | wired w mx =>
      by_cases hw : w = 1 <;> simp [AnyDet.type, Det.type, hw] at h
  | bs L r => simp [AnyDet.type] at h

theorem kprod_pnr (minP : K) (ds : List (AnyDet K)) (h : ∀ d ∈ ds, d.type = .PNR)
    (s : List ℕ) (hlen : s.length = ds.length) (t : List ℕ) :
    kprod (kernels minP ds s) t = if s = t then 1 else 0 := by
  induction ds generalizing s t with
  | nil =>
    have : s = [] := List.length_eq_zero_iff.mp hlen
    subst this
    cases t <;> simp [kernels, kprod]
  | cons d ds ih =>
    cases s with
    | nil => simp at hlen
    | cons n s =>
      have hk : kernels minP (d :: ds) (n :: s) = d.kernel minP n :: kernels minP ds s := rfl
      rw [hk, kernel_of_pnr minP d (h d (by simp))]
      cases t with
      | nil => simp [kprod]
      | cons k u =>
        simp only [kprod, wt, List.cons.injEq,
          ih (fun d' hd' => h d' (by simp [hd'])) s (by simpa using hlen) u]
        by_cases h1 : n = k <;> simp [h1]

theorem detTypeLoop_pnr_all (ds : List (AnyDet K)) (t : DType)
    (h : detTypeLoop (some t) ds = .PNR) : t = .PNR ∧ ∀ d ∈ ds, d.type = .PNR := by
  induction ds with
  | nil => simp only [detTypeLoop, Option.getD_some] at h; exact ⟨h, by simp⟩
  | cons d rest ih =>
    simp only [detTypeLoop] at h
    split at h
    · cases h
    · next hne =>
      have hd : t = d.type := by simpa using hne
      obtain ⟨h1, h2⟩ := ih h
      refine ⟨h1, ?_⟩
      intro x hx
      simp only [List.mem_cons] at hx
      rcases hx with rfl | hx
      · rw [← hd, h1]
      · exact h2 x hx

theorem detectionType_pnr_all (ds : List (AnyDet K)) (h : detectionType ds = .PNR) :
    ∀ d ∈ ds, d.type = .PNR := by
  cases ds with
  | nil => simp
  | cons d rest =>
    simp only [detectionType, List.isEmpty_cons, Bool.false_eq_true, if_false, detTypeLoop] at h
    obtain ⟨h1, h2⟩ := detTypeLoop_pnr_all rest _ h
    intro x hx
    simp only [List.mem_cons] at hx
    rcases hx with rfl | hx
    · exact h1
    · exact h2 x hx

end samplePath

/-! ### `get_detection_type` loop -/
section dtypeLoop
variable {K : Type} [Field K] [LinearOrder K]

theorem detTypeLoop_uniform (t : DType) (ds : List (AnyDet K)) (h : ∀ d ∈ ds, d.type = t) :
    detTypeLoop (some t) ds = t := by
  induction ds with
  | nil => rfl
  | cons d rest ih =>
    have hd : d.type = t := h d (by simp)
    simp only [detTypeLoop, hd, ne_eq, not_true_eq_false, if_false]
    exact ih fun x hx => h x (by simp [hx])

theorem detTypeLoop_mixed (t : DType) (ds : List (AnyDet K)) (h : ∃ d ∈ ds, d.type ≠ t) :
    detTypeLoop (some t) ds = .Mixed := by
  induction ds with
  | nil => obtain ⟨d, hd, _⟩ := h; simp at hd
  | cons d rest ih =>
    by_cases hd : d.type = t
    · simp only [detTypeLoop, hd, ne_eq, not_true_eq_false, if_false]
      apply ih
      obtain ⟨x, hx, hne⟩ := h
      simp only [List.mem_cons] at hx
      rcases hx with rfl | hx
      · exact absurd hd hne
      · exact ⟨x, hx, hne⟩
    · have : t ≠ d.type := fun e => hd e.symm
      simp [detTypeLoop, this]

end dtypeLoop

end PM.C08
