/-
  C18 — helper lemmas (model: `Model/C18.lean`).
-/
import PercevalModel.Model.C18

namespace PM.C18
open PM.SM

/-! ### generic -/

theorem run_cons {S Op Out : Type} (step : S → Op → S × Out) (s : S) (op : Op) (ops : List Op) :
    run step s (op :: ops) =
      ((run step (step s op).1 ops).1, (step s op).2 :: (run step (step s op).1 ops).2) := by
  simp [run]

theorem run_append_snd {S Op Out : Type} (step : S → Op → S × Out) (s : S) (a b : List Op) :
    (run step s (a ++ b)).2 = (run step s a).2 ++ (run step (exec step s a) b).2 := by
  induction a generalizing s with
  | nil => simp [run, exec]
  | cons x xs ih => simp [run_cons, ih, exec_cons]

/-! ### the reachable shapes of a job -/

/-- The combinations of (task phase, mode, status, worker, callback open, number of task entries)
a job can be in.  In particular `fnCalls ≤ 1`, a final status exactly when the task has ended, and
never "RUNNING with a dead worker" (the state in which `LocalJob.status` would repair the status). -/
def shapeOk : Phase → Mode → St → Worker → Bool → Nat → Prop
  | .idle, .none, .waiting, .none, false, n => n = 0
  | .ready, .sync, .waiting, .none, false, n => n = 0
  | .ready, .async, .running, .alive, false, n => n = 0
  | .active, .sync, .running, .none, _, n => n = 1
  | .active, .async, .running, .alive, _, n => n = 1
  | .done, .sync, st, .none, false, n => st.isFinal = true ∧ n = 1
  | .done, .async, st, .dead, false, n => st.isFinal = true ∧ n = 1
  | _, _, _, _, _, _ => False

def Inv (s : State) : Prop := shapeOk s.phase s.mode s.status s.worker s.cbOpen s.fnCalls

/-- the same, as a case distinction usable with `rcases` -/
theorem Inv.cases {s : State} (h : Inv s) :
    (s.phase = .idle ∧ s.mode = .none ∧ s.status = .waiting ∧ s.worker = .none ∧ s.cbOpen = false ∧ s.fnCalls = 0) ∨
    (s.phase = .ready ∧ s.mode = .sync ∧ s.status = .waiting ∧ s.worker = .none ∧ s.cbOpen = false ∧ s.fnCalls = 0) ∨
    (s.phase = .ready ∧ s.mode = .async ∧ s.status = .running ∧ s.worker = .alive ∧ s.cbOpen = false ∧ s.fnCalls = 0) ∨
    (s.phase = .active ∧ s.mode = .sync ∧ s.status = .running ∧ s.worker = .none ∧ s.fnCalls = 1) ∨
    (s.phase = .active ∧ s.mode = .async ∧ s.status = .running ∧ s.worker = .alive ∧ s.fnCalls = 1) ∨
    (s.phase = .done ∧ s.mode = .sync ∧ s.status.isFinal = true ∧ s.worker = .none ∧ s.cbOpen = false ∧ s.fnCalls = 1) ∨
    (s.phase = .done ∧ s.mode = .async ∧ s.status.isFinal = true ∧ s.worker = .dead ∧ s.cbOpen = false ∧ s.fnCalls = 1) := by
  unfold Inv at h
  generalize s.phase = ph at h ⊢
  generalize s.mode = md at h ⊢
  generalize s.status = st at h ⊢
  generalize s.worker = wk at h ⊢
  generalize s.cbOpen = cb at h ⊢
  cases ph <;> cases md <;> cases wk <;> cases cb <;> cases st <;> simp_all [shapeOk]

theorem inv_init (cfg : Cfg) : Inv (init cfg) := by simp [Inv, init, shapeOk]

/-! ### frames: what an action can touch -/

theorem notePending_snd (s0 : State) (r : State × Out) : (notePending s0 r).2 = r.2 := by
  unfold notePending
  split
  · split <;> rfl
  · rfl

theorem notePending_fst (s0 : State) (r : State × Out) :
    ∃ p, (notePending s0 r).1 = { r.1 with pending := p } := by
  unfold notePending
  split
  · split
    · exact ⟨_, rfl⟩
    · exact ⟨r.1.pending, rfl⟩
  · exact ⟨r.1.pending, rfl⟩

theorem convert_frame {s s2 : State} (h : convert s = some s2) :
    ∃ r mp, s2 = { s with results := r, mapPending := mp } := by
  unfold convert at h
  split at h
  · split at h
    · cases h; exact ⟨_, _, rfl⟩
    · cases h
  · cases h; exact ⟨s.results, s.mapPending, rfl⟩

/-- never "RUNNING with a dead worker" -/
def NoRepair (s : State) : Prop := ¬ (s.status = .running ∧ s.worker = .dead)

theorem Inv.noRepair {s : State} (h : Inv s) : NoRepair s := by
  intro ⟨h1, h2⟩
  rcases h.cases with h | h | h | h | h | h | h <;> simp_all [St.isFinal]

theorem statusProp_true {s : State} (h : NoRepair s) : statusProp true s = .ok s := by
  unfold statusProp
  split
  · next hs =>
    cases hw : s.worker <;> simp
    exact absurd ⟨hs, hw⟩ h
  · rfl

theorem getRes_frame (fixed : Bool) {s : State} (h : NoRepair s) :
    ∃ r mp, (getRes fixed s).1 = { s with results := r, mapPending := mp } := by
  have triv : ∃ r mp, s = { s with results := r, mapPending := mp } := ⟨s.results, s.mapPending, rfl⟩
  unfold getRes
  have hsp : statusProp fixed s = .ok s ∨ ∃ e, statusProp fixed s = .error e := by
    unfold statusProp
    split
    · next hs =>
      cases hw : s.worker
      · cases fixed <;> simp
      · simp
      · exact absurd ⟨hs, hw⟩ h
    · exact .inl rfl
  rcases hsp with hsp | ⟨e, hsp⟩
  · rw [hsp]; simp only
    split
    · split
      · next s2 hc => exact convert_frame hc
      · exact triv
    · exact triv
  · rw [hsp]; exact triv

theorem finish_frame (fixed : Bool) {s : State} (hs : s.status ≠ .running) :
    ∃ r mp, (finish fixed s).1 =
      { s with phase := .done, cbOpen := false, pending := none,
               worker := if s.worker = Worker.alive then Worker.dead else s.worker,
               results := r, mapPending := mp } := by
  unfold finish
  simp only
  split
  · have hn : NoRepair { s with phase := .done, cbOpen := false, pending := none,
        worker := if s.worker = Worker.alive then Worker.dead else s.worker } := fun h => hs h.1
    obtain ⟨r, mp, h⟩ := getRes_frame fixed hn
    exact ⟨r, mp, h⟩
  · exact ⟨s.results, s.mapPending, rfl⟩

/-! ### the invariant is preserved by every event (both versions of the code) -/

/-- "the task function is active" part of the shape, status left open -/
def ActiveShape (s : State) : Prop :=
  s.phase = .active ∧ ((s.mode = .sync ∧ s.worker = .none) ∨ (s.mode = .async ∧ s.worker = .alive)) ∧
    s.fnCalls = 1

theorem Inv.activeShape {s : State} (h : Inv s) (ha : s.phase = .active) : ActiveShape s := by
  rcases h.cases with h | h | h | h | h | h | h <;> simp_all [ActiveShape]

theorem inv_finish (fixed : Bool) {s : State} (hf : s.status.isFinal = true) (ha : ActiveShape s) :
    Inv (finish fixed s).1 := by
  have hs : s.status ≠ .running := by intro h; simp [h, St.isFinal] at hf
  obtain ⟨r, mp, h⟩ := finish_frame fixed hs
  rw [h]
  obtain ⟨h1, h2 | h2, h3⟩ := ha <;> simp [Inv, shapeOk, h1, h2, h3, hf]

theorem inv_execEntry (cfg : Cfg) (s : State) (c : Call) (async : Bool) (h : Inv s)
    (hen : callerEnabled s = true) : Inv (execEntry cfg s c async).1 := by
  unfold execEntry
  split
  · exact h
  · next hw =>
    have hw : s.status = .waiting := Classical.not_not.mp hw
    have hidle : s.phase = .idle ∧ s.mode = .none ∧ s.worker = .none ∧ s.cbOpen = false ∧ s.fnCalls = 0 := by
      rcases h.cases with h | h | h | h | h | h | h <;> simp_all [callerEnabled, St.isFinal]
    obtain ⟨a, b, c', d, e⟩ := hidle
    simp only
    split
    · simp [Inv, shapeOk, *]
    · cases async <;> simp [Inv, shapeOk, *]

theorem inv_step (fixed : Bool) (cfg : Cfg) (s : State) (e : Ev) (h : Inv s) :
    Inv (step fixed cfg s e).1 := by
  cases e with
  | execSync c =>
    simp only [step]
    split
    · next hen =>
      obtain ⟨p, hp⟩ := notePending_fst s (execEntry cfg s c false)
      rw [hp]; exact inv_execEntry cfg s c false h hen
    · exact h
  | execAsync c =>
    simp only [step]
    split
    · next hen =>
      obtain ⟨p, hp⟩ := notePending_fst s (execEntry cfg s c true)
      rw [hp]; exact inv_execEntry cfg s c true h hen
    · exact h
  | statusQuery =>
    simp only [step]
    split
    · obtain ⟨p, hp⟩ := notePending_fst s (actStatus fixed s)
      rw [hp]
      have : (actStatus fixed s).1 = s := by
        unfold actStatus
        have hsp : statusProp fixed s = .ok s ∨ ∃ e, statusProp fixed s = .error e := by
          cases fixed
          · unfold statusProp
            split
            · next hs =>
              cases hw : s.worker
              · simp
              · simp
              · exact absurd ⟨hs, hw⟩ h.noRepair
            · exact .inl rfl
          · exact .inl (statusProp_true h.noRepair)
        rcases hsp with hsp | ⟨e, hsp⟩ <;> rw [hsp]
      rw [this]; exact h
    · exact h
  | cancel =>
    simp only [step]
    split
    · exact h
    · exact h
  | getResults =>
    simp only [step]
    split
    · obtain ⟨p, hp⟩ := notePending_fst s (actGet fixed s)
      rw [hp]
      obtain ⟨r, mp, hg⟩ := getRes_frame fixed h.noRepair
      have : (actGet fixed s).1 = (getRes fixed s).1 := by
        unfold actGet; split <;> simp [*]
      rw [this, hg]; exact h
    · exact h
  | tStart =>
    simp only [step]
    split
    · next hp =>
      rcases h.cases with h | h | h | h | h | h | h <;> simp_all [taskStart, Inv, shapeOk]
    · exact h
  | tProgress p =>
    simp only [step]
    split
    · next hp =>
      unfold taskProgress
      rcases h.cases with h | h | h | h | h | h | h <;> simp_all <;>
        (split <;> [skip; split] <;> simp_all [Inv, shapeOk])
    · exact h
  | tReturn r =>
    simp only [step]
    split
    · next hp =>
      have ha := h.activeShape hp
      unfold taskReturn
      simp only
      split
      · exact inv_finish fixed (by simp [stopRun, St.isFinal]) (by simpa [ActiveShape, stopRun] using ha)
      · exact inv_finish fixed (by simp [stopRun, St.isFinal]) (by simpa [ActiveShape, stopRun] using ha)
    · exact h
  | tRaise c t =>
    simp only [step]
    split
    · next hp =>
      have ha := h.activeShape hp
      exact inv_finish fixed (by simp [stopRun, St.isFinal]) (by simpa [ActiveShape, stopRun] using ha)
    · exact h
  | tPropagate =>
    simp only [step]
    split
    · next hp =>
      have ha := h.activeShape hp.1
      split
      · exact inv_finish fixed (by simp [stopRun, St.isFinal]) (by simpa [ActiveShape, stopRun] using ha)
      · exact h
    · exact h

theorem inv_after (fixed : Bool) (cfg : Cfg) (w : List Ev) : Inv (after fixed cfg w) :=
  inv_exec (step fixed cfg) Inv (fun s e h => inv_step fixed cfg s e h) _ (inv_init cfg) w

theorem inv_exec' (fixed : Bool) (cfg : Cfg) {s : State} (h : Inv s) (w : List Ev) :
    Inv (exec (step fixed cfg) s w) :=
  inv_exec (step fixed cfg) Inv (fun s e h => inv_step fixed cfg s e h) _ h w

end PM.C18
