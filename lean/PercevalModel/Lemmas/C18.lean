/-
  C18 — helper lemmas (model: `Model/C18.lean`).
-/
import PercevalModel.Model.C18

namespace PM.C18
open PM.SM

/-! ### generic -/

theorem run_cons {S Op Out : Type} (step : S → Op → S × Out) (s : S) (op : Op) (ops : List Op) :
    run step s (op :: ops) =
      ((run step (step s op).1 ops).1, (step s op).2 :: (run step (step s op).1 ops).2) := by
  simp [run]

theorem run_append_snd {S Op Out : Type} (step : S → Op → S × Out) (s : S) (a b : List Op) :
    (run step s (a ++ b)).2 = (run step s a).2 ++ (run step (exec step s a) b).2 := by
  induction a generalizing s with
  | nil => simp [run, exec]
  | cons x xs ih => simp [run_cons, ih, exec_cons]

/-! ### the reachable shapes of a job -/

/-- The combinations of (task phase, mode, status, worker, callback open, number of task entries)
a job can be in.  In particular `fnCalls ≤ 1`, a final status exactly when the task has ended, and
never "RUNNING with a dead worker" (the state in which `LocalJob.status` would repair the status). -/
def shapeOk : Phase → Mode → St → Worker → Bool → Nat → Prop
  | .idle, .none, .waiting, .none, false, n => n = 0
  | .ready, .sync, .waiting, .none, false, n => n = 0
  | .ready, .async, .running, .alive, false, n => n = 0
  | .active, .sync, .running, .none, _, n => n = 1
  | .active, .async, .running, .alive, _, n => n = 1
  | .done, .sync, st, .none, false, n => st.isFinal = true ∧ n = 1
  | .done, .async, st, .dead, false, n => st.isFinal = true ∧ n = 1
  | _, _, _, _, _, _ => False

def Inv (s : State) : Prop := shapeOk s.phase s.mode s.status s.worker s.cbOpen s.fnCalls

/-- the same, as a case distinction usable with `rcases` -/
theorem Inv.cases {s : State} (h : Inv s) :
    (s.phase = .idle ∧ s.mode = .none ∧ s.status = .waiting ∧ s.worker = .none ∧ s.cbOpen = false ∧ s.fnCalls = 0) ∨
    (s.phase = .ready ∧ s.mode = .sync ∧ s.status = .waiting ∧ s.worker = .none ∧ s.cbOpen = false ∧ s.fnCalls = 0) ∨
    (s.phase = .ready ∧ s.mode = .async ∧ s.status = .running ∧ s.worker = .alive ∧ s.cbOpen = false ∧ s.fnCalls = 0) ∨
    (s.phase = .active ∧ s.mode = .sync ∧ s.status = .running ∧ s.worker = .none ∧ s.fnCalls = 1) ∨
    (s.phase = .active ∧ s.mode = .async ∧ s.status = .running ∧ s.worker = .alive ∧ s.fnCalls = 1) ∨
    (s.phase = .done ∧ s.mode = .sync ∧ s.status.isFinal = true ∧ s.worker = .none ∧ s.cbOpen = false ∧ s.fnCalls = 1) ∨
    (s.phase = .done ∧ s.mode = .async ∧ s.status.isFinal = true ∧ s.worker = .dead ∧ s.cbOpen = false ∧ s.fnCalls = 1) := by
  unfold Inv at h
  generalize s.phase = ph at h ⊢
  generalize s.mode = md at h ⊢
  generalize s.status = st at h ⊢
  generalize s.worker = wk at h ⊢
  generalize s.cbOpen = cb at h ⊢
  cases ph <;> cases md <;> cases wk <;> cases cb <;> cases st <;> simp_all [shapeOk]

theorem inv_init (cfg : Cfg) : Inv (init cfg) := by simp [Inv, init, shapeOk]

/-! ### frames: what an action can touch -/

theorem notePending_snd (s0 : State) (r : State × Out) : (notePending s0 r).2 = r.2 := by
  unfold notePending
  split
  · split <;> rfl
  · rfl

theorem notePending_fst (s0 : State) (r : State × Out) :
    ∃ p, (notePending s0 r).1 = { r.1 with pending := p } := by
  unfold notePending
  split
  · split
    · exact ⟨_, rfl⟩
    · exact ⟨r.1.pending, rfl⟩
  · exact ⟨r.1.pending, rfl⟩

theorem notePending_eq (s0 t : State) (o : Out) :
    ∃ p, notePending s0 (t, o) = ({ t with pending := p }, o) := by
  unfold notePending
  split
  · split
    · exact ⟨_, rfl⟩
    · exact ⟨t.pending, rfl⟩
  · exact ⟨t.pending, rfl⟩

theorem convert_frame {s s2 : State} (h : convert s = some s2) :
    ∃ r mp, s2 = { s with results := r, mapPending := mp } := by
  unfold convert at h
  split at h
  · split at h
    · cases h; exact ⟨_, _, rfl⟩
    · cases h
  · cases h; exact ⟨s.results, s.mapPending, rfl⟩

/-- never "RUNNING with a dead worker" -/
def NoRepair (s : State) : Prop := ¬ (s.status = .running ∧ s.worker = .dead)

theorem Inv.noRepair {s : State} (h : Inv s) : NoRepair s := by
  intro ⟨h1, h2⟩
  rcases h.cases with h | h | h | h | h | h | h <;> simp_all [St.isFinal]

theorem statusProp_true {s : State} (h : NoRepair s) : statusProp true s = .ok s := by
  unfold statusProp
  split
  · next hs =>
    cases hw : s.worker <;> simp
    exact absurd ⟨hs, hw⟩ h
  · rfl

theorem getRes_frame (fixed : Bool) {s : State} (h : NoRepair s) :
    ∃ r mp, (getRes fixed s).1 = { s with results := r, mapPending := mp } := by
  have triv : ∃ r mp, s = { s with results := r, mapPending := mp } := ⟨s.results, s.mapPending, rfl⟩
  unfold getRes
  have hsp : statusProp fixed s = .ok s ∨ ∃ e, statusProp fixed s = .error e := by
    unfold statusProp
    split
    · next hs =>
      cases hw : s.worker
      · cases fixed <;> simp
      · simp
      · exact absurd ⟨hs, hw⟩ h
    · exact .inl rfl
  rcases hsp with hsp | ⟨e, hsp⟩
  · rw [hsp]; simp only
    split
    · split
      · next s2 hc => exact convert_frame hc
      · exact triv
    · exact triv
  · rw [hsp]; exact triv

/-- the state in which the task function has just been left -/
def finishPre (s : State) : State :=
  { s with phase := .done, cbOpen := false, pending := none,
           worker := if s.worker = Worker.alive then Worker.dead else s.worker }

theorem finish_frame (fixed : Bool) {s : State} (hs : s.status ≠ .running) :
    ∃ r mp, (finish fixed s).1 =
      { s with phase := .done, cbOpen := false, pending := none,
               worker := if s.worker = Worker.alive then Worker.dead else s.worker,
               results := r, mapPending := mp } := by
  unfold finish
  simp only
  split
  · obtain ⟨r, mp, h⟩ := getRes_frame fixed (s := (finishPre s)) (fun h => hs h.1)
    exact ⟨r, mp, h⟩
  · exact ⟨s.results, s.mapPending, rfl⟩

/-! ### the invariant is preserved by every event (both versions of the code) -/

/-- "the task function is active" part of the shape, status left open -/
def ActiveShape (s : State) : Prop :=
  s.phase = .active ∧ ((s.mode = .sync ∧ s.worker = .none) ∨ (s.mode = .async ∧ s.worker = .alive)) ∧
    s.fnCalls = 1

theorem Inv.activeShape {s : State} (h : Inv s) (ha : s.phase = .active) : ActiveShape s := by
  rcases h.cases with h | h | h | h | h | h | h <;> simp_all [ActiveShape]

theorem Inv.running_of_active {s : State} (h : Inv s) (ha : s.phase = .active) : s.status = .running := by
  rcases h.cases with h | h | h | h | h | h | h <;> simp_all

theorem inv_finish (fixed : Bool) {s : State} (hf : s.status.isFinal = true) (ha : ActiveShape s) :
    Inv (finish fixed s).1 := by
  have hs : s.status ≠ .running := by intro h; simp [h, St.isFinal] at hf
  obtain ⟨r, mp, h⟩ := finish_frame fixed hs
  rw [h]
  obtain ⟨h1, h2 | h2, h3⟩ := ha <;> simp [Inv, shapeOk, h2, h3, hf]

theorem inv_execEntry (cfg : Cfg) (s : State) (c : Call) (async : Bool) (h : Inv s)
    (hen : callerEnabled s = true) : Inv (execEntry cfg s c async).1 := by
  unfold execEntry
  split
  · exact h
  · next hw =>
    have hw : s.status = .waiting := Classical.not_not.mp hw
    have hidle : s.phase = .idle ∧ s.mode = .none ∧ s.worker = .none ∧ s.cbOpen = false ∧ s.fnCalls = 0 := by
      rcases h.cases with h | h | h | h | h | h | h <;> simp_all [callerEnabled, St.isFinal]
    obtain ⟨a, b, c', d, e⟩ := hidle
    simp only
    split
    · simp [Inv, shapeOk, *]
    · cases async <;> simp [Inv, shapeOk, *]

theorem inv_step (fixed : Bool) (cfg : Cfg) (s : State) (e : Ev) (h : Inv s) :
    Inv (step fixed cfg s e).1 := by
  cases e with
  | execSync c =>
    simp only [step]
    split
    · next hen =>
      obtain ⟨p, hp⟩ := notePending_fst s (execEntry cfg s c false)
      rw [hp]; exact inv_execEntry cfg s c false h hen
    · exact h
  | execAsync c =>
    simp only [step]
    split
    · next hen =>
      obtain ⟨p, hp⟩ := notePending_fst s (execEntry cfg s c true)
      rw [hp]; exact inv_execEntry cfg s c true h hen
    · exact h
  | statusQuery =>
    simp only [step]
    split
    · obtain ⟨p, hp⟩ := notePending_fst s (actStatus fixed s)
      rw [hp]
      have : (actStatus fixed s).1 = s := by
        unfold actStatus
        have hsp : statusProp fixed s = .ok s ∨ ∃ e, statusProp fixed s = .error e := by
          cases fixed
          · unfold statusProp
            split
            · next hs =>
              cases hw : s.worker
              · simp
              · simp
              · exact absurd ⟨hs, hw⟩ h.noRepair
            · exact .inl rfl
          · exact .inl (statusProp_true h.noRepair)
        rcases hsp with hsp | ⟨e, hsp⟩ <;> rw [hsp]
      rw [this]; exact h
    · exact h
  | cancel =>
    simp only [step]
    split
    · exact h
    · exact h
  | getResults =>
    simp only [step]
    split
    · obtain ⟨p, hp⟩ := notePending_fst s (actGet fixed s)
      rw [hp]
      obtain ⟨r, mp, hg⟩ := getRes_frame fixed h.noRepair
      have : (actGet fixed s).1 = (getRes fixed s).1 := by
        unfold actGet; split <;> simp [*]
      rw [this, hg]; exact h
    · exact h
  | tStart =>
    simp only [step]
    split
    · next hp =>
      rcases h.cases with h | h | h | h | h | h | h <;> simp_all [taskStart, Inv, shapeOk]
    · exact h
  | tProgress p =>
    simp only [step]
    split
    · next hp =>
      obtain ⟨h1, h2, h3⟩ := h.activeShape hp
      have hst : s.status = .running := h.running_of_active hp
      unfold taskProgress
      simp only
      split
      · rcases h2 with h2 | h2 <;> simp [Inv, shapeOk, h1, h2, h3, hst]
      · split <;> rcases h2 with h2 | h2 <;> simp [Inv, shapeOk, h1, h2, h3, hst]
    · exact h
  | tReturn r =>
    simp only [step]
    split
    · next hp =>
      have ha := h.activeShape hp
      unfold taskReturn
      simp only
      split
      · exact inv_finish fixed (by simp [stopRun, St.isFinal]) (by simpa [ActiveShape, stopRun] using ha)
      · exact inv_finish fixed (by simp [stopRun, St.isFinal]) (by simpa [ActiveShape, stopRun] using ha)
    · exact h
  | tRaise c t =>
    simp only [step]
    split
    · next hp =>
      have ha := h.activeShape hp
      exact inv_finish fixed (by simp [stopRun, St.isFinal]) (by simpa [ActiveShape, stopRun] using ha)
    · exact h
  | tPropagate =>
    simp only [step]
    split
    · next hp =>
      have ha := h.activeShape hp.1
      split
      · exact inv_finish fixed (by simp [stopRun, St.isFinal]) (by simpa [ActiveShape, stopRun] using ha)
      · exact h
    · exact h

theorem inv_after (fixed : Bool) (cfg : Cfg) (w : List Ev) : Inv (after fixed cfg w) :=
  inv_exec (step fixed cfg) Inv (fun s e h => inv_step fixed cfg s e h) _ (inv_init cfg) w

theorem inv_exec' (fixed : Bool) (cfg : Cfg) {s : State} (h : Inv s) (w : List Ev) :
    Inv (exec (step fixed cfg) s w) :=
  inv_exec (step fixed cfg) Inv (fun s e h => inv_step fixed cfg s e h) _ h w

/-! ### exact behaviour of the read actions in a reachable state -/

theorem statusProp_cases (fixed : Bool) {s : State} (h : NoRepair s) :
    statusProp fixed s = .ok s ∨
      (fixed = false ∧ s.status = .running ∧ s.worker = .none ∧ statusProp fixed s = .error .attribute) := by
  unfold statusProp
  split
  · next hs =>
    cases hw : s.worker
    · cases fixed <;> simp [hs]
    · simp
    · exact absurd ⟨hs, hw⟩ h
  · exact .inl rfl

theorem actStatus_cases (fixed : Bool) {s : State} (h : NoRepair s) :
    actStatus fixed s = (s, .status s.status s.msg s.progress) ∨
      (fixed = false ∧ s.status = .running ∧ s.worker = .none ∧ actStatus fixed s = (s, .exc .attribute)) := by
  unfold actStatus
  rcases statusProp_cases fixed h with hsp | ⟨a, b, c, hsp⟩
  · rw [hsp]; exact .inl rfl
  · rw [hsp]; exact .inr ⟨a, b, c, rfl⟩

theorem convert_cases {s s2 : State} (h : convert s = some s2) :
    (s.mapPending = false ∧ s2 = s) ∨
      (s.mapPending = true ∧ ∃ r, convertRet s.mapping s.results = some r ∧
        s2 = { s with results := r, mapPending := false }) := by
  unfold convert at h
  split at h
  · next hm =>
    split at h
    · next r hr => cases h; exact .inr ⟨hm, r, hr, rfl⟩
    · cases h
  · next hm => cases h; exact .inl ⟨by simpa using hm, rfl⟩

theorem getRes_cases (fixed : Bool) {s : State} (h : NoRepair s) :
    (fixed = false ∧ s.status = .running ∧ s.worker = .none ∧ getRes fixed s = (s, .err .attribute)) ∨
    (s.status.isFinal = false ∧ getRes fixed s = (s, .err .stillRunning)) ∨
    (s.status.isFinal = true ∧ convert s = none ∧
      getRes fixed s = (s, .err (if s.status.failed then .failed else .notAvailable))) ∨
    (s.status.isFinal = true ∧ ∃ s2, convert s = some s2 ∧ getRes fixed s = (s2, .val s2.results)) := by
  unfold getRes
  rcases statusProp_cases fixed h with hsp | ⟨a, b, c, hsp⟩
  · rw [hsp]; simp only
    cases hf : s.status.isFinal
    · exact .inr (.inl ⟨rfl, by simp⟩)
    · cases hc : convert s
      · exact .inr (.inr (.inl ⟨rfl, rfl, by simp⟩))
      · next s2 => exact .inr (.inr (.inr ⟨rfl, s2, rfl, by simp⟩))
  · rw [hsp]; exact .inl ⟨a, b, c, rfl⟩

theorem actGet_eq (fixed : Bool) (s : State) :
    actGet fixed s = ((getRes fixed s).1,
      match (getRes fixed s).2 with | .val r => .results r | .err e => .exc e) := by
  unfold actGet
  split <;> simp [*]

/-! ### how the task phase moves -/

theorem execEntry_cases (cfg : Cfg) (s : State) (c : Call) (async : Bool) (h : Inv s)
    (hen : callerEnabled s = true) :
    (s.phase ≠ .idle ∧ execEntry cfg s c async = (s, .exc .assertion)) ∨
    (s.phase = .idle ∧ ∃ cmd map e ucb, execEntry cfg s c async =
        ({ s with userCb := ucb, command := cmd, mapping := map }, .exc e) ∧
        (handleParams cfg.paramNames s.command s.mapping c).2.2 = some e) ∨
    (s.phase = .idle ∧ (handleParams cfg.paramNames s.command s.mapping c).2.2 = none ∧
      (execEntry cfg s c async).2 = .accepted ∧ (execEntry cfg s c async).1.phase = .ready ∧
      (execEntry cfg s c async).1.fnCalls = s.fnCalls ∧ (execEntry cfg s c async).1.cbLog = s.cbLog ∧
      (execEntry cfg s c async).1.cancelReq = s.cancelReq ∧
      (execEntry cfg s c async).1.mapPending = s.mapPending) := by
  unfold execEntry
  split
  · next hw =>
    refine .inl ⟨?_, rfl⟩
    intro hi
    rcases h.cases with h | h | h | h | h | h | h <;> simp_all
  · next hw =>
    have hw : s.status = .waiting := Classical.not_not.mp hw
    have hidle : s.phase = .idle := by
      rcases h.cases with h | h | h | h | h | h | h <;> simp_all [callerEnabled, St.isFinal]
    refine .inr ?_
    simp only
    split
    · next cmd map e heq => exact .inl ⟨hidle, cmd, map, e, _, rfl, by simp [heq]⟩
    · next cmd map heq =>
      refine .inr ⟨hidle, by simp [heq], ?_⟩
      cases async <;> simp

/-- One event moves the task phase one step forward at most: idle → ready exactly when an execute call
is accepted, ready → active at the task's entry, active → done when the task is left. -/
theorem phase_step (fixed : Bool) (cfg : Cfg) (s : State) (e : Ev) (h : Inv s) :
    ((step fixed cfg s e).1.phase = s.phase ∧ (step fixed cfg s e).1.fnCalls = s.fnCalls ∧
        (step fixed cfg s e).2 ≠ .accepted ∧ (∀ r, (step fixed cfg s e).2 ≠ .finished r)) ∨
    (s.phase = .idle ∧ (step fixed cfg s e).2 = .accepted ∧ (step fixed cfg s e).1.phase = .ready ∧
        (step fixed cfg s e).1.fnCalls = s.fnCalls) ∨
    (s.phase = .ready ∧ (∃ a, (step fixed cfg s e).2 = .started a) ∧ (step fixed cfg s e).1.phase = .active) ∨
    (s.phase = .active ∧ (step fixed cfg s e).1.phase = .done ∧ ∃ r, (step fixed cfg s e).2 = .finished r) := by
  have hexec : ∀ c a, callerEnabled s = true →
      ((notePending s (execEntry cfg s c a)).1.phase = s.phase ∧
        (notePending s (execEntry cfg s c a)).1.fnCalls = s.fnCalls ∧
        (notePending s (execEntry cfg s c a)).2 ≠ .accepted ∧
        (∀ r, (notePending s (execEntry cfg s c a)).2 ≠ .finished r)) ∨
      (s.phase = .idle ∧ (notePending s (execEntry cfg s c a)).2 = .accepted ∧
        (notePending s (execEntry cfg s c a)).1.phase = .ready ∧
        (notePending s (execEntry cfg s c a)).1.fnCalls = s.fnCalls) := by
    intro c a hen
    obtain ⟨p, hp⟩ := notePending_fst s (execEntry cfg s c a)
    rw [hp, notePending_snd]
    rcases execEntry_cases cfg s c a h hen with ⟨_, he⟩ | ⟨_, cmd, map, e, ucb, he, _⟩ | ⟨hi, _, h1, h2, h3, _⟩
    · rw [he]; exact .inl ⟨rfl, rfl, by simp, by simp⟩
    · rw [he]; exact .inl ⟨rfl, rfl, by simp, by simp⟩
    · exact .inr ⟨hi, h1, h2, h3⟩
  have hfin : ∀ t : State, t.status ≠ .running → t.phase = s.phase → s.phase = .active →
      s.phase = .active ∧ (finish fixed t).1.phase = .done ∧ ∃ r, (finish fixed t).2 = .finished r := by
    intro t ht _ ha
    obtain ⟨r, mp, hf⟩ := finish_frame fixed ht
    refine ⟨ha, by rw [hf], ?_⟩
    unfold finish; simp only; split <;> exact ⟨_, rfl⟩
  cases e with
  | execSync c =>
    simp only [step]
    split
    · next hen =>
      rcases hexec c false hen with h | h
      · exact .inl h
      · exact .inr (.inl h)
    · exact .inl ⟨rfl, rfl, by simp, by simp⟩
  | execAsync c =>
    simp only [step]
    split
    · next hen =>
      rcases hexec c true hen with h | h
      · exact .inl h
      · exact .inr (.inl h)
    · exact .inl ⟨rfl, rfl, by simp, by simp⟩
  | statusQuery =>
    simp only [step]
    split
    · obtain ⟨p, hp⟩ := notePending_fst s (actStatus fixed s)
      rw [hp, notePending_snd]
      rcases actStatus_cases fixed h.noRepair with he | ⟨_, _, _, he⟩ <;> rw [he] <;>
        exact .inl ⟨rfl, rfl, by simp, by simp⟩
    · exact .inl ⟨rfl, rfl, by simp, by simp⟩
  | cancel =>
    simp only [step]
    split <;> exact .inl ⟨rfl, rfl, by simp, by simp⟩
  | getResults =>
    simp only [step]
    split
    · obtain ⟨p, hp⟩ := notePending_fst s (actGet fixed s)
      rw [hp, notePending_snd, actGet_eq]
      obtain ⟨r, mp, hg⟩ := getRes_frame fixed h.noRepair
      refine .inl ⟨by rw [hg], by rw [hg], ?_, ?_⟩ <;> (split <;> simp)
    · exact .inl ⟨rfl, rfl, by simp, by simp⟩
  | tStart =>
    simp only [step]
    split
    · next hp => exact .inr (.inr (.inl ⟨hp, ⟨_, rfl⟩, rfl⟩))
    · exact .inl ⟨rfl, rfl, by simp, by simp⟩
  | tProgress p =>
    simp only [step]
    split
    · unfold taskProgress
      simp only
      split
      · exact .inl ⟨rfl, rfl, by simp, by simp⟩
      · split <;> exact .inl ⟨rfl, rfl, by simp, by simp⟩
    · exact .inl ⟨rfl, rfl, by simp, by simp⟩
  | tReturn r =>
    simp only [step]
    split
    · next hp =>
      refine .inr (.inr (.inr ?_))
      unfold taskReturn
      simp only
      split
      · exact hfin _ (by simp [stopRun]) (by simp [stopRun]) hp
      · exact hfin _ (by simp [stopRun]) (by simp [stopRun]) hp
    · exact .inl ⟨rfl, rfl, by simp, by simp⟩
  | tRaise c t =>
    simp only [step]
    split
    · next hp => exact .inr (.inr (.inr (hfin _ (by simp [stopRun]) (by simp [stopRun]) hp)))
    · exact .inl ⟨rfl, rfl, by simp, by simp⟩
  | tPropagate =>
    simp only [step]
    split
    · next hp =>
      split
      · exact .inr (.inr (.inr (hfin _ (by simp [stopRun]) (by simp [stopRun]) hp.1)))
      · exact .inl ⟨rfl, rfl, by simp, by simp⟩
    · exact .inl ⟨rfl, rfl, by simp, by simp⟩

/-! ### observations on outputs -/

/-- the value a caller received: from `get_results()` or as the return value of `execute_sync` -/
def resultOf : Out → Option Ret
  | .results r => some r
  | .finished (some (.val r)) => some r
  | _ => none

/-- which user callback saw which progress value -/
def seen : Out → Option (Nat × Nat)
  | .progressed (some id) p _ => some (id, p)
  | _ => none

theorem finish_snd (fixed : Bool) (t : State) : ∃ r, (finish fixed t).2 = .finished r := by
  unfold finish; simp only; split <;> exact ⟨_, rfl⟩

/-! ### after the task has ended nothing but the one-shot conversion, the cancel flag and the
harness-side `pending` can change -/

theorem done_step (fixed : Bool) (cfg : Cfg) (s : State) (e : Ev) (h : Inv s) (hd : s.phase = .done) :
    ∃ r mp cr p, (step fixed cfg s e).1 =
        { s with results := r, mapPending := mp, cancelReq := cr, pending := p } ∧
      ((r = s.results ∧ mp = s.mapPending) ∨
        (s.mapPending = true ∧ mp = false ∧ convertRet s.mapping s.results = some r)) ∧
      (∀ v, resultOf (step fixed cfg s e).2 = some v → v = r ∧ mp = false) := by
  have hfin : s.status.isFinal = true := by
    rcases h.cases with h | h | h | h | h | h | h <;> simp_all
  have hen : callerEnabled s = true := by simp [callerEnabled, hd]
  have same : ∀ (p : Option Exc) (o : Out), resultOf o = none →
      ∃ r mp cr p', ({ s with pending := p }, o).1 =
        { s with results := r, mapPending := mp, cancelReq := cr, pending := p' } ∧
      ((r = s.results ∧ mp = s.mapPending) ∨
        (s.mapPending = true ∧ mp = false ∧ convertRet s.mapping s.results = some r)) ∧
      (∀ v, resultOf ({ s with pending := p }, o).2 = some v → v = r ∧ mp = false) := by
    intro p o ho
    exact ⟨s.results, s.mapPending, s.cancelReq, p, rfl, .inl ⟨rfl, rfl⟩, by simp [ho]⟩
  have hexec : ∀ c a, ∃ p, notePending s (execEntry cfg s c a) = ({ s with pending := p }, .exc .assertion) := by
    intro c a
    rcases execEntry_cases cfg s c a h hen with ⟨_, he⟩ | ⟨hi, _⟩ | ⟨hi, _⟩
    · rw [he]; exact notePending_eq s s _
    · simp [hd] at hi
    · simp [hd] at hi
  cases e with
  | execSync c =>
    simp only [step, hen, if_true]
    obtain ⟨p, hp⟩ := hexec c false
    rw [hp]; exact same p _ rfl
  | execAsync c =>
    simp only [step, hen, if_true]
    obtain ⟨p, hp⟩ := hexec c true
    rw [hp]; exact same p _ rfl
  | statusQuery =>
    simp only [step, hen, if_true]
    rcases actStatus_cases fixed h.noRepair with he | ⟨_, _, _, he⟩ <;>
      (rw [he]; obtain ⟨p, hp⟩ := notePending_eq s s _; rw [hp]; exact same p _ rfl)
  | cancel =>
    simp only [step, hen, if_true]
    exact ⟨s.results, s.mapPending, true, s.pending, rfl, .inl ⟨rfl, rfl⟩, by simp [resultOf]⟩
  | getResults =>
    simp only [step, hen, if_true]
    rw [actGet_eq]
    rcases getRes_cases fixed h.noRepair with ⟨_, hr, _, _⟩ | ⟨hr, _⟩ | ⟨_, _, he⟩ | ⟨_, s2, hc, he⟩
    · simp [hr, St.isFinal] at hfin
    · simp [hr] at hfin
    · rw [he]; obtain ⟨p, hp⟩ := notePending_eq s s (.exc (if s.status.failed then .failed else .notAvailable))
      simp only; rw [hp]; exact same p _ rfl
    · rw [he]; obtain ⟨p, hp⟩ := notePending_eq s s2 (.results s2.results)
      simp only; rw [hp]
      rcases convert_cases hc with ⟨hm, rfl⟩ | ⟨hm, r, hr, rfl⟩
      · exact ⟨s2.results, s2.mapPending, s2.cancelReq, p, rfl, .inl ⟨rfl, rfl⟩,
          by intro v hv; simp [resultOf] at hv; exact ⟨hv.symm, hm⟩⟩
      · exact ⟨r, false, s.cancelReq, p, rfl, .inr ⟨hm, rfl, hr⟩,
          by intro v hv; simp [resultOf] at hv; exact ⟨hv.symm, rfl⟩⟩
  | tStart =>
    have hn : ¬ s.phase = .ready := by simp [hd]
    simp only [step, if_neg hn]; exact same s.pending .disabled rfl
  | tProgress p =>
    have hn : ¬ s.phase = .active := by simp [hd]
    simp only [step, if_neg hn]; exact same s.pending .disabled rfl
  | tReturn r =>
    have hn : ¬ s.phase = .active := by simp [hd]
    simp only [step, if_neg hn]; exact same s.pending .disabled rfl
  | tRaise c t =>
    have hn : ¬ s.phase = .active := by simp [hd]
    simp only [step, if_neg hn]; exact same s.pending .disabled rfl
  | tPropagate =>
    have hn : ¬ (s.phase = .active ∧ s.cbOpen = true) := by simp [hd]
    simp only [step, if_neg hn]; exact same s.pending .disabled rfl

theorem Inv.final_iff {s : State} (h : Inv s) : s.status.isFinal = true ↔ s.phase = .done := by
  rcases h.cases with h | h | h | h | h | h | h <;> simp_all [St.isFinal]

/-! ### what one event does to the callback log, the cancel flag and the pending conversion -/

theorem step_frame (fixed : Bool) (cfg : Cfg) (s : State) (e : Ev) (h : Inv s) :
    (step fixed cfg s e).1.cbLog = s.cbLog ++ (seen (step fixed cfg s e).2).toList ∧
    ((step fixed cfg s e).1.cancelReq = true ↔ s.cancelReq = true ∨ (step fixed cfg s e).2 = .done) ∧
    ((step fixed cfg s e).1.phase ≠ .done → (step fixed cfg s e).1.mapPending = s.mapPending) := by
  have hexec : ∀ c a, callerEnabled s = true →
      (notePending s (execEntry cfg s c a)).1.cbLog = s.cbLog ++ (seen (notePending s (execEntry cfg s c a)).2).toList ∧
      ((notePending s (execEntry cfg s c a)).1.cancelReq = true ↔
        s.cancelReq = true ∨ (notePending s (execEntry cfg s c a)).2 = .done) ∧
      ((notePending s (execEntry cfg s c a)).1.phase ≠ .done →
        (notePending s (execEntry cfg s c a)).1.mapPending = s.mapPending) := by
    intro c a hen
    rcases execEntry_cases cfg s c a h hen with ⟨_, he⟩ | ⟨_, cmd, map, e, ucb, he, _⟩ | ⟨_, _, h1, _, _, h4, h5, h6⟩
    · rw [he]; obtain ⟨p, hp⟩ := notePending_eq s s (.exc .assertion); rw [hp]; simp [seen]
    · rw [he]; obtain ⟨p, hp⟩ := notePending_eq s { s with userCb := ucb, command := cmd, mapping := map } (.exc e)
      rw [hp]; simp [seen]
    · obtain ⟨p, hp⟩ := notePending_fst s (execEntry cfg s c a)
      rw [hp, notePending_snd, h1]
      simp [seen, h4, h5, h6]
  have hfin : ∀ t : State, t.status ≠ .running → t.cbLog = s.cbLog → t.cancelReq = s.cancelReq →
      (finish fixed t).1.cbLog = s.cbLog ++ (seen (finish fixed t).2).toList ∧
      ((finish fixed t).1.cancelReq = true ↔ s.cancelReq = true ∨ (finish fixed t).2 = .done) ∧
      ((finish fixed t).1.phase ≠ .done → (finish fixed t).1.mapPending = s.mapPending) := by
    intro t ht h1 h2
    obtain ⟨r, mp, hf⟩ := finish_frame fixed ht
    obtain ⟨o, ho⟩ := finish_snd fixed t
    rw [hf, ho]; simp [seen, h1, h2]
  cases e with
  | execSync c =>
    simp only [step]
    split
    · next hen => exact hexec c false hen
    · simp [seen]
  | execAsync c =>
    simp only [step]
    split
    · next hen => exact hexec c true hen
    · simp [seen]
  | statusQuery =>
    simp only [step]
    split
    · rcases actStatus_cases fixed h.noRepair with he | ⟨_, _, _, he⟩ <;>
        (rw [he]; obtain ⟨p, hp⟩ := notePending_eq s s _; rw [hp]; simp [seen])
    · simp [seen]
  | cancel =>
    simp only [step]
    split <;> simp [seen]
  | getResults =>
    simp only [step]
    split
    · rw [actGet_eq]
      rcases getRes_cases fixed h.noRepair with ⟨_, _, _, he⟩ | ⟨_, he⟩ | ⟨_, _, he⟩ | ⟨hf, s2, hc, he⟩
      · rw [he]; obtain ⟨p, hp⟩ := notePending_eq s s (.exc .attribute); simp only; rw [hp]; simp [seen]
      · rw [he]; obtain ⟨p, hp⟩ := notePending_eq s s (.exc .stillRunning); simp only; rw [hp]; simp [seen]
      · rw [he]; obtain ⟨p, hp⟩ := notePending_eq s s (.exc (if s.status.failed then .failed else .notAvailable))
        simp only; rw [hp]; simp [seen]
      · rw [he]; obtain ⟨p, hp⟩ := notePending_eq s s2 (.results s2.results)
        simp only; rw [hp]
        obtain ⟨r, mp, rfl⟩ := convert_frame hc
        have hd := h.final_iff.mp hf
        simp [seen, hd]
    · simp [seen]
  | tStart =>
    simp only [step]
    split <;> simp [seen, taskStart]
  | tProgress p =>
    simp only [step]
    split
    · unfold taskProgress
      simp only
      split
      · next hc => simp [seen, hc]
      · split <;> simp [seen]
    · simp [seen]
  | tReturn r =>
    simp only [step]
    split
    · unfold taskReturn
      simp only
      split
      · exact hfin _ (by simp [stopRun]) (by simp [stopRun]) (by simp [stopRun])
      · exact hfin _ (by simp [stopRun]) (by simp [stopRun]) (by simp [stopRun])
    · simp [seen]
  | tRaise c t =>
    simp only [step]
    split
    · exact hfin _ (by simp [stopRun]) (by simp [stopRun]) (by simp [stopRun])
    · simp [seen]
  | tPropagate =>
    simp only [step]
    split
    · split
      · exact hfin _ (by simp [stopRun]) (by simp [stopRun]) (by simp [stopRun])
      · simp [seen]
    · simp [seen]

/-! ### whole-history consequences -/

theorem done_absorbing (fixed : Bool) (cfg : Cfg) (s : State) (e : Ev) (h : Inv s) (hd : s.phase = .done) :
    (step fixed cfg s e).1.phase = .done := by
  obtain ⟨r, mp, cr, p, h1, _⟩ := done_step fixed cfg s e h hd
  rw [h1]; exact hd

/-- the mapping function is still pending as long as the task has not ended -/
def MapInv (cfg : Cfg) (s : State) : Prop := Inv s ∧ (s.phase ≠ .done → s.mapPending = cfg.hasMap)

theorem mapInv_step (fixed : Bool) (cfg : Cfg) (s : State) (e : Ev) (h : MapInv cfg s) :
    MapInv cfg (step fixed cfg s e).1 := by
  refine ⟨inv_step fixed cfg s e h.1, fun hn => ?_⟩
  have h3 := (step_frame fixed cfg s e h.1).2.2 hn
  rw [h3]
  apply h.2
  intro hd
  exact hn (done_absorbing fixed cfg s e h.1 hd)

theorem mapInv_after (fixed : Bool) (cfg : Cfg) (w : List Ev) : MapInv cfg (after fixed cfg w) :=
  inv_exec (step fixed cfg) (MapInv cfg) (fun s e h => mapInv_step fixed cfg s e h) _
    ⟨inv_init cfg, fun _ => rfl⟩ w

/-- the job holds the task's value `r`: untouched, or converted exactly once -/
def Holds (cfg : Cfg) (r : Ret) (s : State) : Prop :=
  (s.mapPending = cfg.hasMap ∧ s.results = r) ∨
    (cfg.hasMap = true ∧ s.mapPending = false ∧ convertRet s.mapping r = some s.results)

/-- the task has ended with this status and stop message -/
def FinalSt (st : St) (m : Msg) (s : State) : Prop := s.phase = .done ∧ s.status = st ∧ s.msg = m

theorem finalSt_step (fixed : Bool) (cfg : Cfg) (s : State) (e : Ev) (h : Inv s) {st : St} {m : Msg}
    (hf : FinalSt st m s) : FinalSt st m (step fixed cfg s e).1 := by
  obtain ⟨r, mp, cr, p, h1, _⟩ := done_step fixed cfg s e h hf.1
  rw [h1]; exact hf

theorem holds_step (fixed : Bool) (cfg : Cfg) (s : State) (e : Ev) (h : Inv s) (hd : s.phase = .done)
    {r : Ret} (hh : Holds cfg r s) : Holds cfg r (step fixed cfg s e).1 := by
  obtain ⟨r', mp, cr, p, h1, h2, _⟩ := done_step fixed cfg s e h hd
  rw [h1]
  rcases h2 with ⟨rfl, rfl⟩ | ⟨hm, rfl, hc⟩
  · exact hh
  · rcases hh with ⟨a, b⟩ | ⟨_, b, _⟩
    · exact .inr ⟨by rw [← a, hm], rfl, by rw [← b]; exact hc⟩
    · rw [hm] at b; cases b

theorem final_exec (fixed : Bool) (cfg : Cfg) (w : List Ev) {s : State} (h : Inv s) {st : St} {m : Msg}
    (hf : FinalSt st m s) : FinalSt st m (exec (step fixed cfg) s w) := by
  have := inv_exec (step fixed cfg) (fun s => Inv s ∧ FinalSt st m s)
    (fun s e h => ⟨inv_step fixed cfg s e h.1, finalSt_step fixed cfg s e h.1 h.2⟩) s ⟨h, hf⟩ w
  exact this.2

theorem holds_exec (fixed : Bool) (cfg : Cfg) (w : List Ev) {s : State} (h : Inv s) (hd : s.phase = .done)
    {r : Ret} (hh : Holds cfg r s) : Holds cfg r (exec (step fixed cfg) s w) := by
  have := inv_exec (step fixed cfg) (fun s => Inv s ∧ s.phase = .done ∧ Holds cfg r s)
    (fun s e h => ⟨inv_step fixed cfg s e h.1, done_absorbing fixed cfg s e h.1 h.2.1,
      holds_step fixed cfg s e h.1 h.2.1 h.2.2⟩) s ⟨h, hd, hh⟩ w
  exact this.2.2

/-- leaving the task function with a final status, value `r` and the conversion still pending -/
theorem finish_holds (fixed : Bool) (cfg : Cfg) {t : State} {r : Ret} (hf : t.status.isFinal = true)
    (hr : t.results = r) (hm : t.mapPending = cfg.hasMap) :
    (finish fixed t).1.phase = .done ∧ (finish fixed t).1.status = t.status ∧
      (finish fixed t).1.msg = t.msg ∧ Holds cfg r (finish fixed t).1 := by
  have hn : NoRepair (finishPre t) := by
    intro ⟨h1, _⟩
    have : t.status = .running := h1
    simp [this, St.isFinal] at hf
  have hpre : Holds cfg r (finishPre t) := .inl ⟨hm, hr⟩
  have hfp : (finishPre t).status.isFinal = true := hf
  show (finish fixed t).1.phase = .done ∧ (finish fixed t).1.status = (finishPre t).status ∧
      (finish fixed t).1.msg = (finishPre t).msg ∧ Holds cfg r (finish fixed t).1
  have hfin : finish fixed t = match t.mode with
      | .sync => ((getRes fixed (finishPre t)).1, .finished (some (getRes fixed (finishPre t)).2))
      | _ => (finishPre t, .finished none) := rfl
  rw [hfin]
  split
  · rcases getRes_cases fixed hn with ⟨_, hs, _, _⟩ | ⟨hs, _⟩ | ⟨_, _, he⟩ | ⟨_, s2, hc, he⟩
    · rw [hs] at hfp; simp [St.isFinal] at hfp
    · rw [hs] at hfp; cases hfp
    · rw [he]; exact ⟨rfl, rfl, rfl, hpre⟩
    · rw [he]
      rcases convert_cases hc with ⟨_, rfl⟩ | ⟨hmp, r2, hr2, rfl⟩
      · exact ⟨rfl, rfl, rfl, hpre⟩
      · refine ⟨rfl, rfl, rfl, .inr ⟨?_, rfl, ?_⟩⟩
        · rw [← hm]; exact hmp
        · rw [← hr]; exact hr2
  · exact ⟨rfl, rfl, rfl, hpre⟩

theorem cancelReq_run (fixed : Bool) (cfg : Cfg) (w : List Ev) {s : State} (h : Inv s) :
    (exec (step fixed cfg) s w).cancelReq = true ↔
      s.cancelReq = true ∨ Out.done ∈ (run (step fixed cfg) s w).2 := by
  induction w generalizing s with
  | nil => simp [exec, run]
  | cons e w ih =>
    rw [exec_cons, run_cons, ih (inv_step fixed cfg s e h), (step_frame fixed cfg s e h).2.1]
    simp only [List.mem_cons]
    constructor
    · rintro ((a | a) | a)
      · exact .inl a
      · exact .inr (.inl a.symm)
      · exact .inr (.inr a)
    · rintro (a | a | a)
      · exact .inl (.inl a)
      · exact .inl (.inr a.symm)
      · exact .inr a

theorem cbLog_run (fixed : Bool) (cfg : Cfg) (w : List Ev) {s : State} (h : Inv s) :
    (exec (step fixed cfg) s w).cbLog = s.cbLog ++ (run (step fixed cfg) s w).2.filterMap seen := by
  induction w generalizing s with
  | nil => simp [exec, run]
  | cons e w ih =>
    rw [exec_cons, run_cons, ih (inv_step fixed cfg s e h), (step_frame fixed cfg s e h).1]
    cases hs : seen (step fixed cfg s e).2 <;> simp [hs]

theorem count_accepted_run (fixed : Bool) (cfg : Cfg) (w : List Ev) {s : State} (h : Inv s) :
    List.count Out.accepted (run (step fixed cfg) s w).2 ≤ (if s.phase = .idle then 1 else 0) := by
  induction w generalizing s with
  | nil => simp [run]
  | cons e w ih =>
    rw [run_cons]
    have ih' := ih (inv_step fixed cfg s e h)
    simp only [List.count_cons]
    rcases phase_step fixed cfg s e h with ⟨h1, _, h3, _⟩ | ⟨h1, h2, h3, _⟩ | ⟨h1, ⟨a, h2⟩, h3⟩ | ⟨h1, h2, r, h3⟩
    · rw [h1] at ih'
      have : ((step fixed cfg s e).2 == Out.accepted) = false := by simpa using h3
      simp [this]; exact ih'
    · rw [h3] at ih'; simp [h1, h2] at ih' ⊢; exact ih'
    · rw [h3] at ih'; simp [h1, h2] at ih' ⊢; exact ih'
    · rw [h2] at ih'; simp [h1, h3] at ih' ⊢; exact ih'

theorem accepted_before_start (fixed : Bool) (cfg : Cfg) (w : List Ev) {s : State} (h : Inv s)
    (hp : (exec (step fixed cfg) s w).phase ≠ .idle) :
    s.phase ≠ .idle ∨ Out.accepted ∈ (run (step fixed cfg) s w).2 := by
  induction w generalizing s with
  | nil => exact .inl hp
  | cons e w ih =>
    rw [exec_cons] at hp
    rw [run_cons]
    rcases ih (inv_step fixed cfg s e h) hp with h1 | h1
    · rcases phase_step fixed cfg s e h with ⟨h2, _⟩ | ⟨_, h2, _⟩ | ⟨h2, _⟩ | ⟨h2, _⟩
      · exact .inl (h2 ▸ h1)
      · exact .inr (by simp [h2])
      · exact .inl (by simp [h2])
      · exact .inl (by simp [h2])
    · exact .inr (by simp [h1])

/-! ### results: refused while running, settled by the first retrieval -/

/-- the one-shot conversion is over and the job holds `v` -/
def Settled (v : Ret) (s : State) : Prop := s.phase = .done ∧ s.mapPending = false ∧ s.results = v

theorem settled_step (fixed : Bool) (cfg : Cfg) (s : State) (e : Ev) (h : Inv s) {v : Ret}
    (hs : Settled v s) :
    Settled v (step fixed cfg s e).1 ∧ ∀ v', resultOf (step fixed cfg s e).2 = some v' → v' = v := by
  obtain ⟨r, mp, cr, p, h1, h2, h3⟩ := done_step fixed cfg s e h hs.1
  have hr : r = s.results ∧ mp = s.mapPending := by
    rcases h2 with h2 | ⟨hm, _⟩
    · exact h2
    · rw [hs.2.1] at hm; cases hm
  refine ⟨?_, fun v' hv => ?_⟩
  · rw [h1]; exact ⟨hs.1, by rw [hr.2]; exact hs.2.1, by rw [hr.1]; exact hs.2.2⟩
  · rw [(h3 v' hv).1, hr.1]; exact hs.2.2

theorem finish_result (fixed : Bool) {t : State} (ht : t.status ≠ .running) {v : Ret}
    (hv : resultOf (finish fixed t).2 = some v) : Settled v (finish fixed t).1 := by
  have hn : NoRepair (finishPre t) := fun h => ht h.1
  have hfin : finish fixed t = match t.mode with
      | .sync => ((getRes fixed (finishPre t)).1, .finished (some (getRes fixed (finishPre t)).2))
      | _ => (finishPre t, .finished none) := rfl
  rw [hfin] at hv ⊢
  split at hv
  · rcases getRes_cases fixed hn with ⟨_, _, _, he⟩ | ⟨_, he⟩ | ⟨_, _, he⟩ | ⟨_, s2, hc, he⟩
    · rw [he] at hv; simp [resultOf] at hv
    · rw [he] at hv; simp [resultOf] at hv
    · rw [he] at hv; simp [resultOf] at hv
    · rw [he] at hv ⊢
      simp [resultOf] at hv
      rcases convert_cases hc with ⟨hm, rfl⟩ | ⟨hm, r, hr, rfl⟩
      · exact ⟨rfl, hm, hv⟩
      · exact ⟨rfl, rfl, hv⟩
  · simp [resultOf] at hv

/-- whoever receives a value (from `get_results()` or from `execute_sync`) leaves the job settled on it;
in particular no value is handed out before the task has ended -/
theorem result_settles (fixed : Bool) (cfg : Cfg) (s : State) (e : Ev) (h : Inv s) {v : Ret}
    (hv : resultOf (step fixed cfg s e).2 = some v) :
    Settled v (step fixed cfg s e).1 ∧ (s.phase = .done ∨ ∃ r, (step fixed cfg s e).2 = .finished r) := by
  have hexec : ∀ c a, resultOf (notePending s (execEntry cfg s c a)).2 = some v → callerEnabled s = true → False := by
    intro c a hv hen
    rw [notePending_snd] at hv
    rcases execEntry_cases cfg s c a h hen with ⟨_, he⟩ | ⟨_, cmd, map, e, ucb, he, _⟩ | ⟨_, _, h1, _⟩
    · rw [he] at hv; simp [resultOf] at hv
    · rw [he] at hv; simp [resultOf] at hv
    · rw [h1] at hv; simp [resultOf] at hv
  cases e with
  | execSync c =>
    simp only [step] at hv
    split at hv
    · next hen => exact (hexec c false hv hen).elim
    · simp [resultOf] at hv
  | execAsync c =>
    simp only [step] at hv
    split at hv
    · next hen => exact (hexec c true hv hen).elim
    · simp [resultOf] at hv
  | statusQuery =>
    simp only [step] at hv
    split at hv
    · rw [notePending_snd] at hv
      rcases actStatus_cases fixed h.noRepair with he | ⟨_, _, _, he⟩ <;>
        (rw [he] at hv; simp [resultOf] at hv)
    · simp [resultOf] at hv
  | cancel =>
    simp only [step] at hv
    split at hv <;> simp [resultOf] at hv
  | getResults =>
    simp only [step] at hv ⊢
    split at hv
    · next hen =>
      rw [if_pos hen]
      rw [notePending_snd, actGet_eq] at hv
      rw [actGet_eq]
      rcases getRes_cases fixed h.noRepair with ⟨_, _, _, he⟩ | ⟨_, he⟩ | ⟨_, _, he⟩ | ⟨hf, s2, hc, he⟩
      · rw [he] at hv; simp [resultOf] at hv
      · rw [he] at hv; simp [resultOf] at hv
      · rw [he] at hv; simp [resultOf] at hv
      · rw [he] at hv ⊢
        simp [resultOf] at hv
        obtain ⟨p, hp⟩ := notePending_eq s s2 (.results s2.results)
        simp only; rw [hp]
        have hd := h.final_iff.mp hf
        refine ⟨?_, .inl hd⟩
        rcases convert_cases hc with ⟨hm, rfl⟩ | ⟨hm, r, hr, rfl⟩
        · exact ⟨hd, hm, hv⟩
        · exact ⟨hd, rfl, hv⟩
    · simp [resultOf] at hv
  | tStart =>
    simp only [step] at hv
    split at hv <;> simp [resultOf, taskStart] at hv
  | tProgress p =>
    simp only [step] at hv
    split at hv
    · unfold taskProgress at hv
      simp only at hv
      split at hv
      · simp [resultOf] at hv
      · split at hv <;> simp [resultOf] at hv
    · simp [resultOf] at hv
  | tReturn r =>
    simp only [step] at hv ⊢
    split at hv
    · next hp =>
      rw [if_pos hp]
      unfold taskReturn at hv ⊢
      simp only at hv ⊢
      split at hv
      · next hc => rw [if_pos hc]; exact ⟨finish_result fixed (by simp [stopRun]) hv, .inr (finish_snd fixed _)⟩
      · next hc => rw [if_neg hc]; exact ⟨finish_result fixed (by simp [stopRun]) hv, .inr (finish_snd fixed _)⟩
    · simp [resultOf] at hv
  | tRaise c t =>
    simp only [step] at hv ⊢
    split at hv
    · next hp =>
      rw [if_pos hp]
      exact ⟨finish_result fixed (by simp [stopRun]) hv, .inr (finish_snd fixed _)⟩
    · simp [resultOf] at hv
  | tPropagate =>
    simp only [step] at hv ⊢
    split at hv
    · next hp =>
      rw [if_pos hp]
      split at hv
      · next e he =>
        try simp only [he]
        exact ⟨finish_result fixed (by simp [stopRun]) hv, .inr (finish_snd fixed _)⟩
      · simp [resultOf] at hv
    · simp [resultOf] at hv

theorem settled_run (fixed : Bool) (cfg : Cfg) (w : List Ev) {s : State} (h : Inv s) {v : Ret}
    (hs : Settled v s) : ∀ o ∈ (run (step fixed cfg) s w).2, ∀ v', resultOf o = some v' → v' = v :=
  outputs_run (step fixed cfg) (fun s => Inv s ∧ Settled v s) (fun o => ∀ v', resultOf o = some v' → v' = v)
    (fun s e hh => ⟨⟨inv_step fixed cfg s e hh.1, (settled_step fixed cfg s e hh.1 hh.2).1⟩,
      (settled_step fixed cfg s e hh.1 hh.2).2⟩) s ⟨h, hs⟩ w

theorem results_pairwise (fixed : Bool) (cfg : Cfg) (w : List Ev) {s : State} (h : Inv s) :
    (run (step fixed cfg) s w).2.Pairwise
      (fun a b => ∀ va vb, resultOf a = some va → resultOf b = some vb → va = vb) := by
  induction w generalizing s with
  | nil => simp [run]
  | cons e w ih =>
    rw [run_cons]
    refine List.Pairwise.cons ?_ (ih (inv_step fixed cfg s e h))
    intro b hb va vb ha hvb
    have hs := (result_settles fixed cfg s e h ha).1
    exact (settled_run fixed cfg w (inv_step fixed cfg s e h) hs b hb vb hvb).symm

/-! ### the harness-side memory `pending` influences nothing but `tPropagate` -/

/-- forget which exception the last caller action inside the callback raised -/
def clr (s : State) : State := { s with pending := none }

theorem notePending_clr (s0 t : State) (o : Out) : clr (notePending s0 (t, o)).1 = clr t := by
  obtain ⟨p, hp⟩ := notePending_eq s0 t o
  rw [hp]; rfl

theorem notePending_cbOpen (s0 s0' : State) (r : State × Out) (h : s0.cbOpen = s0'.cbOpen) :
    notePending s0 r = notePending s0' r := by
  unfold notePending; rw [h]

theorem execEntry_clr (cfg : Cfg) (s : State) (c : Call) (a : Bool) :
    execEntry cfg (clr s) c a = (clr (execEntry cfg s c a).1, (execEntry cfg s c a).2) := by
  unfold execEntry
  have hst : (clr s).status = s.status := rfl
  rw [hst]
  by_cases hw : s.status ≠ .waiting
  · rw [if_pos hw, if_pos hw]
  · rw [if_neg hw, if_neg hw]
    simp only [clr]
    generalize handleParams cfg.paramNames s.command s.mapping c = hp
    obtain ⟨cmd, map, e⟩ := hp
    cases e <;> cases a <;> rfl

theorem statusProp_clr (fixed : Bool) (s : State) :
    statusProp fixed (clr s) = (statusProp fixed s).map clr := by
  obtain ⟨st, msg, pr, wk, cr, res, mp, cmd, map, ucb, ph, md, cbo, pend, fc, log⟩ := s
  cases st <;> cases wk <;> cases fixed <;> rfl

theorem convert_clr (s : State) : convert (clr s) = (convert s).map clr := by
  obtain ⟨st, msg, pr, wk, cr, res, mp, cmd, map, ucb, ph, md, cbo, pend, fc, log⟩ := s
  cases mp
  · rfl
  · simp only [convert, clr, if_true]
    cases convertRet map res <;> rfl

theorem getRes_clr (fixed : Bool) (s : State) :
    getRes fixed (clr s) = (clr (getRes fixed s).1, (getRes fixed s).2) := by
  unfold getRes
  rw [statusProp_clr]
  cases statusProp fixed s with
  | error e => rfl
  | ok s1 =>
    simp only [Except.map]
    have : (clr s1).status = s1.status := rfl
    rw [this]
    split
    · rw [convert_clr]
      cases convert s1 <;> rfl
    · rfl

theorem finish_clr (fixed : Bool) (t t' : State) (h : clr t = clr t') : finish fixed t = finish fixed t' := by
  have hp : finishPre t = finishPre t' := by
    have : finishPre t = finishPre (clr t) := rfl
    rw [this, h]; rfl
  have hm : t.mode = t'.mode := by
    have : (clr t).mode = (clr t').mode := by rw [h]
    exact this
  have hfin : ∀ t : State, finish fixed t = match t.mode with
      | .sync => ((getRes fixed (finishPre t)).1, .finished (some (getRes fixed (finishPre t)).2))
      | _ => (finishPre t, .finished none) := fun _ => rfl
  rw [hfin t, hfin t', hp, hm]

/-- every event but `tPropagate` behaves the same whatever `pending` holds -/
theorem step_clr (fixed : Bool) (cfg : Cfg) (s : State) (e : Ev) (he : e ≠ .tPropagate) :
    clr (step fixed cfg (clr s) e).1 = clr (step fixed cfg s e).1 ∧
      (step fixed cfg (clr s) e).2 = (step fixed cfg s e).2 := by
  have hen : callerEnabled (clr s) = callerEnabled s := rfl
  have hnp : ∀ r : State × Out, clr (notePending (clr s) (clr r.1, r.2)).1 = clr (notePending s r).1 ∧
      (notePending (clr s) (clr r.1, r.2)).2 = (notePending s r).2 := by
    intro r
    rw [notePending_cbOpen (clr s) s _ rfl]
    obtain ⟨t, o⟩ := r
    rw [notePending_clr, notePending_clr, notePending_snd, notePending_snd]
    exact ⟨rfl, rfl⟩
  cases e with
  | execSync c =>
    simp only [step, hen]
    split
    · rw [execEntry_clr]; exact hnp _
    · exact ⟨rfl, rfl⟩
  | execAsync c =>
    simp only [step, hen]
    split
    · rw [execEntry_clr]; exact hnp _
    · exact ⟨rfl, rfl⟩
  | statusQuery =>
    simp only [step, hen]
    split
    · have : actStatus fixed (clr s) = (clr (actStatus fixed s).1, (actStatus fixed s).2) := by
        unfold actStatus
        rw [statusProp_clr]
        cases statusProp fixed s <;> rfl
      rw [this]; exact hnp _
    · exact ⟨rfl, rfl⟩
  | cancel =>
    simp only [step, hen]
    split <;> exact ⟨rfl, rfl⟩
  | getResults =>
    simp only [step, hen]
    split
    · have : actGet fixed (clr s) = (clr (actGet fixed s).1, (actGet fixed s).2) := by
        rw [actGet_eq, actGet_eq, getRes_clr]
      rw [this]; exact hnp _
    · exact ⟨rfl, rfl⟩
  | tStart =>
    simp only [step]
    have : (clr s).phase = s.phase := rfl
    rw [this]
    split <;> exact ⟨rfl, rfl⟩
  | tProgress p =>
    simp only [step]
    have : (clr s).phase = s.phase := rfl
    rw [this]
    split
    · have : taskProgress (clr s) p = taskProgress s p := rfl
      rw [this]; exact ⟨rfl, rfl⟩
    · exact ⟨rfl, rfl⟩
  | tReturn r =>
    simp only [step]
    have : (clr s).phase = s.phase := rfl
    rw [this]
    split
    · have : taskReturn fixed (clr s) r = taskReturn fixed s r := by
        unfold taskReturn
        simp only
        have hc : (clr s).cancelReq = s.cancelReq := rfl
        rw [hc]
        split <;> exact finish_clr fixed _ _ rfl
      rw [this]; exact ⟨rfl, rfl⟩
    · exact ⟨rfl, rfl⟩
  | tRaise c t =>
    simp only [step]
    have : (clr s).phase = s.phase := rfl
    rw [this]
    split
    · have : taskRaise fixed (clr s) (.task c t) = taskRaise fixed s (.task c t) :=
        finish_clr fixed _ _ rfl
      rw [this]; exact ⟨rfl, rfl⟩
    · exact ⟨rfl, rfl⟩
  | tPropagate => exact absurd rfl he

theorem step_clr_rel (fixed : Bool) (cfg : Cfg) (s s' : State) (e : Ev) (he : e ≠ .tPropagate)
    (h : clr s = clr s') :
    clr (step fixed cfg s e).1 = clr (step fixed cfg s' e).1 ∧
      (step fixed cfg s e).2 = (step fixed cfg s' e).2 := by
  obtain ⟨a1, a2⟩ := step_clr fixed cfg s e he
  obtain ⟨b1, b2⟩ := step_clr fixed cfg s' e he
  rw [h] at a1 a2
  exact ⟨a1.symm.trans b1, a2.symm.trans b2⟩

theorem run_clr_rel (fixed : Bool) (cfg : Cfg) (w : List Ev) (hw : Ev.tPropagate ∉ w) (s s' : State)
    (h : clr s = clr s') :
    clr (exec (step fixed cfg) s w) = clr (exec (step fixed cfg) s' w) ∧
      (run (step fixed cfg) s w).2 = (run (step fixed cfg) s' w).2 := by
  induction w generalizing s s' with
  | nil => exact ⟨h, rfl⟩
  | cons e w ih =>
    have he : e ≠ .tPropagate := fun h => hw (by simp [h])
    obtain ⟨h1, h2⟩ := step_clr_rel fixed cfg s s' e he h
    obtain ⟨h3, h4⟩ := ih (fun h => hw (by simp [h])) _ _ h1
    rw [exec_cons, exec_cons, run_cons, run_cons]
    exact ⟨h3, by rw [h2, h4]⟩

/-- the actions that only look at the job -/
def readOnly : Ev → Bool
  | .statusQuery | .getResults | .execSync _ | .execAsync _ => true
  | _ => false

/-- while the task is in flight a read-only action changes nothing in the job (repaired code) -/
theorem readOnly_inflight (cfg : Cfg) (s : State) (e : Ev) (h : Inv s) (hr : readOnly e = true)
    (hp : s.phase = .ready ∨ s.phase = .active) : clr (step true cfg s e).1 = clr s := by
  have hnf : s.status.isFinal = false := by
    cases hf : s.status.isFinal
    · rfl
    · have := h.final_iff.mp hf; rcases hp with hp | hp <;> simp [hp] at this
  have hni : s.phase ≠ .idle := by rcases hp with hp | hp <;> simp [hp]
  have hexec : ∀ c a, callerEnabled s = true → clr (notePending s (execEntry cfg s c a)).1 = clr s := by
    intro c a hen
    rcases execEntry_cases cfg s c a h hen with ⟨_, he⟩ | ⟨hi, _⟩ | ⟨hi, _⟩
    · rw [he]; exact notePending_clr s s _
    · exact absurd hi hni
    · exact absurd hi hni
  cases e with
  | execSync c =>
    simp only [step]
    split
    · next hen => exact hexec c false hen
    · rfl
  | execAsync c =>
    simp only [step]
    split
    · next hen => exact hexec c true hen
    · rfl
  | statusQuery =>
    simp only [step]
    split
    · rcases actStatus_cases true h.noRepair with he | ⟨hf, _⟩
      · rw [he]; exact notePending_clr s s _
      · cases hf
    · rfl
  | getResults =>
    simp only [step]
    split
    · rw [actGet_eq]
      rcases getRes_cases true h.noRepair with ⟨hf, _⟩ | ⟨_, he⟩ | ⟨hf, _⟩ | ⟨hf, _⟩
      · cases hf
      · rw [he]; exact notePending_clr s s _
      · rw [hnf] at hf; cases hf
      · rw [hnf] at hf; cases hf
    · rfl
  | cancel => cases hr
  | tStart => cases hr
  | tProgress p => cases hr
  | tReturn r => cases hr
  | tRaise c t => cases hr
  | tPropagate => cases hr

/-! ### `_handle_params`: a keyword nobody asked for is never consumed -/

theorem mem_keys_derase {kw : Dict} {k k' : Key} (h : k ∈ keys kw) (hne : k ≠ k') :
    k ∈ keys (derase kw k') := by
  simp only [keys, derase, List.mem_map, List.mem_filter] at h ⊢
  obtain ⟨e, he, rfl⟩ := h
  exact ⟨e, ⟨he, by simpa using hne⟩, rfl⟩

theorem fill_keeps (d kw : Dict) (k : Key) (hk : k ∈ keys kw) (hd : k ∉ keys d) :
    k ∈ keys (fill d kw).2 := by
  induction d generalizing kw with
  | nil => simpa [fill] using hk
  | cons x r ih =>
    obtain ⟨k', v⟩ := x
    have hne : k ≠ k' := by intro h; apply hd; simp [keys, h]
    have hr : k ∉ keys r := by intro h; apply hd; simp only [keys, List.map_cons, List.mem_cons]; exact .inr h
    unfold fill
    split
    · exact ih _ (mem_keys_derase hk hne) hr
    · exact ih _ hk hr

theorem keys_dset {d : Dict} {k x : Key} {v : PyVal} (h : x ∈ keys (dset d k v)) : x = k ∨ x ∈ keys d := by
  induction d with
  | nil => simp [dset, keys] at h; exact .inl h
  | cons e r ih =>
    obtain ⟨k', v'⟩ := e
    unfold dset at h
    split at h
    · simp only [keys, List.map_cons, List.mem_cons] at h ⊢
      rcases h with h | h
      · exact .inr (.inl h)
      · exact .inr (.inr h)
    · simp only [keys, List.map_cons, List.mem_cons] at h ⊢
      rcases h with h | h
      · exact .inr (.inl h)
      · rcases ih h with h | h
        · exact .inl h
        · exact .inr (.inr h)

theorem keys_posArgs (kw : Dict) (names : List Key) (args : List PyVal) (cmd : Dict) {x : Key}
    (h : x ∈ keys (posArgs kw names args cmd).1) : x ∈ keys cmd ∨ x ∈ names := by
  induction names generalizing args cmd with
  | nil => cases args <;> (simp [posArgs] at h; exact .inl h)
  | cons n ns ih =>
    cases args with
    | nil => simp [posArgs] at h; exact .inl h
    | cons a as =>
      unfold posArgs at h
      split at h
      · exact .inl h
      · rcases ih as _ h with h | h
        · rcases keys_dset h with h | h
          · exact .inr (by simp [h])
          · exact .inl h
        · exact .inr (by simp [h])

theorem keys_popExtra (names : List Key) (map : Dict) (args : List PyVal) {x : Key}
    (h : x ∈ keys (popExtra names map args).1) : x ∈ keys map ∨ x = maxSamples := by
  unfold popExtra at h
  split at h
  · rcases keys_dset h with h | h
    · exact .inr h
    · exact .inl h
  · exact .inl h

theorem handleParams_eq (names : List Key) (cmd map : Dict) (c : Call) :
    handleParams names cmd map c =
      match (posArgs c.kwargs names (popExtra names map c.args).2 cmd).2 with
      | some e => ((posArgs c.kwargs names (popExtra names map c.args).2 cmd).1, (popExtra names map c.args).1, some e)
      | none =>
        ((fill (posArgs c.kwargs names (popExtra names map c.args).2 cmd).1 c.kwargs).1,
         (fill (popExtra names map c.args).1
            (fill (posArgs c.kwargs names (popExtra names map c.args).2 cmd).1 c.kwargs).2).1,
         if (fill (popExtra names map c.args).1
            (fill (posArgs c.kwargs names (popExtra names map c.args).2 cmd).1 c.kwargs).2).2.isEmpty && !c.cbKw
          then none else some .unused) := by
  unfold handleParams
  rcases popExtra names map c.args with ⟨m1, a1⟩
  simp only
  rcases posArgs c.kwargs names a1 cmd with ⟨c1, _ | e⟩ <;> rfl

/-- more positional arguments than declared names: the loop `names[idx]` cannot finish — it raises
(IndexError when the names are exhausted, or earlier "passed twice") -/
theorem posArgs_surplus (kw : Dict) (names : List Key) (args : List PyVal) (cmd : Dict)
    (h : names.length < args.length) : (posArgs kw names args cmd).2 ≠ none := by
  induction names generalizing args cmd with
  | nil =>
    cases args with
    | nil => simp at h
    | cons a as => simp [posArgs]
  | cons n ns ih =>
    cases args with
    | nil => simp at h
    | cons a as =>
      unfold posArgs
      split
      · simp
      · exact ih as _ (by simpa using h)

/-- the positional loop can only raise IndexError or "passed twice" -/
theorem posArgs_exc (kw : Dict) (names : List Key) (args : List PyVal) (cmd : Dict) :
    (posArgs kw names args cmd).2 = none ∨ (posArgs kw names args cmd).2 = some .index ∨
    (posArgs kw names args cmd).2 = some .twice := by
  induction names generalizing args cmd with
  | nil => cases args <;> simp [posArgs]
  | cons n ns ih =>
    cases args with
    | nil => simp [posArgs]
    | cons a as =>
      unfold posArgs
      split
      · simp
      · exact ih as _

/-- what is left for the positional loop after the `max_samples` pop -/
theorem popExtra_length (names : List Key) (map : Dict) (args : List PyVal)
    (h : names.length < args.length) : (popExtra names map args).2.length = args.length - 1 := by
  unfold popExtra
  rw [if_pos h]
  simp

/-! ### `_handle_params`: a keyword naming a FIXED preset is never consumed; the routing is blind to values -/
theorem dhas_of_mem_keys {kw : Dict} {k : Key} (h : k ∈ keys kw) : dhas kw k = true := by
  induction kw with
  | nil => simp [keys] at h
  | cons e r ih =>
    obtain ⟨k', v⟩ := e
    simp only [keys, List.map_cons, List.mem_cons] at h
    unfold dhas
    by_cases hk : k = k'
    · subst hk; simp [List.lookup]
    · have hr : k ∈ keys r := by
        rcases h with h | h
        · exact absurd h hk
        · exact h
      have := ih hr
      unfold dhas at this
      simp only [List.lookup]
      have hb : (k == k') = false := by simpa using hk
      rw [hb]; exact this

theorem mem_dset {d : Dict} {k : Key} {v : PyVal} {x : Key × PyVal} (h : x ∈ dset d k v) :
    x ∈ d ∨ x = (k, v) := by
  induction d with
  | nil => simp [dset] at h; exact .inr h
  | cons e r ih =>
    obtain ⟨k', v'⟩ := e
    unfold dset at h
    split at h
    · next hk =>
      simp only [List.mem_cons] at h ⊢
      rcases h with h | h
      · exact .inr (by rw [h, hk])
      · exact .inl (.inr h)
    · simp only [List.mem_cons] at h ⊢
      rcases h with h | h
      · exact .inl (.inl h)
      · rcases ih h with h | h
        · exact .inl (.inr h)
        · exact .inr h

/-- a keyword survives `fill` unless the dictionary has an OPEN slot (value `None`) of that name -/
theorem fill_keeps_fixed (d kw : Dict) (k : Key) (hk : k ∈ keys kw) (hd : (k, none) ∉ d) :
    k ∈ keys (fill d kw).2 := by
  induction d generalizing kw with
  | nil => simpa [fill] using hk
  | cons x r ih =>
    obtain ⟨k', v⟩ := x
    have hr : (k, none) ∉ r := by intro h; exact hd (List.mem_cons_of_mem _ h)
    unfold fill
    split
    · next hv _ =>
      have hne : k ≠ k' := by
        intro h; apply hd; subst h; simp
      exact ih _ (mem_keys_derase hk hne) hr
    · exact ih _ hk hr

/-- the positional loop never opens a slot named by a keyword argument: it raises "passed twice" first -/
theorem posArgs_no_open (kw : Dict) (names : List Key) (args : List PyVal) (cmd : Dict) (k : Key)
    (hk : k ∈ keys kw) (hc : (k, none) ∉ cmd) : (k, none) ∉ (posArgs kw names args cmd).1 := by
  induction names generalizing args cmd with
  | nil => cases args <;> simpa [posArgs] using hc
  | cons n ns ih =>
    cases args with
    | nil => simpa [posArgs] using hc
    | cons a as =>
      unfold posArgs
      split
      · exact hc
      · next hn =>
        apply ih
        intro h
        rcases mem_dset h with h | h
        · exact hc h
        · have : k = n := by simpa using congrArg Prod.fst h
          subst this
          exact hn (dhas_of_mem_keys hk)

theorem popExtra_no_open (names : List Key) (map : Dict) (args : List PyVal) (k : Key)
    (hm : (k, none) ∉ map)
    (hms : k ≠ maxSamples ∨ args.length ≤ names.length ∨ args.getLast?.getD none ≠ none) :
    (k, none) ∉ (popExtra names map args).1 := by
  unfold popExtra
  split
  · next hlen =>
    intro h
    rcases mem_dset h with h | h
    · exact hm h
    · rcases hms with hms | hms | hms
      · exact hms (by simpa using congrArg Prod.fst h)
      · omega
      · exact hms (by simpa using (congrArg Prod.snd h).symm)
  · exact hm

/-- rename the non-`None` values of a dictionary -/
def vmap (f : Nat → Nat) (d : Dict) : Dict := d.map fun e => (e.1, e.2.map f)

/-- rename the non-`None` values of a call -/
def Call.vmap (f : Nat → Nat) (c : Call) : Call :=
  { c with args := c.args.map (Option.map f), kwargs := PM.C18.vmap f c.kwargs }

theorem lookup_vmap (f : Nat → Nat) (d : Dict) (k : Key) :
    (vmap f d).lookup k = (d.lookup k).map (Option.map f) := by
  induction d with
  | nil => simp [vmap]
  | cons e r ih =>
    obtain ⟨k', v⟩ := e
    simp only [vmap, List.map_cons, List.lookup] at ih ⊢
    cases k == k' <;> simp [ih]

theorem dhas_vmap (f : Nat → Nat) (d : Dict) (k : Key) : dhas (vmap f d) k = dhas d k := by
  unfold dhas; rw [lookup_vmap]; cases d.lookup k <;> rfl

theorem dset_vmap (f : Nat → Nat) (d : Dict) (k : Key) (v : PyVal) :
    dset (vmap f d) k (v.map f) = vmap f (dset d k v) := by
  induction d with
  | nil => simp [vmap, dset]
  | cons e r ih =>
    obtain ⟨k', v'⟩ := e
    simp only [vmap, List.map_cons, dset] at ih ⊢
    split
    · simp
    · simp [ih]

theorem derase_vmap (f : Nat → Nat) (d : Dict) (k : Key) : derase (vmap f d) k = vmap f (derase d k) := by
  simp [derase, vmap, List.filter_map, Function.comp_def]

theorem fill_vmap (f : Nat → Nat) (d kw : Dict) :
    fill (vmap f d) (vmap f kw) = (vmap f (fill d kw).1, vmap f (fill d kw).2) := by
  induction d generalizing kw with
  | nil => simp [fill, vmap]
  | cons e r ih =>
    obtain ⟨k, v⟩ := e
    have hl := lookup_vmap f kw k
    cases v with
    | none =>
      cases hk : kw.lookup k with
      | none =>
        rw [hk] at hl
        simp only [vmap, List.map_cons, Option.map_none] at hl ⊢
        unfold fill
        simp only [hl, hk]
        have := ih kw
        simp only [vmap] at this
        rw [this]
        simp
      | some x =>
        rw [hk] at hl
        simp only [vmap, List.map_cons, Option.map_none, Option.map_some] at hl ⊢
        unfold fill
        simp only [hl, hk]
        have := ih (derase kw k)
        rw [← derase_vmap] at this
        simp only [vmap] at this
        rw [this]
        simp
    | some y =>
      simp only [vmap, List.map_cons, Option.map_some]
      unfold fill
      have := ih kw
      simp only [vmap] at this
      simp only [this]
      simp

theorem posArgs_vmap (f : Nat → Nat) (kw : Dict) (names : List Key) (args : List PyVal) (cmd : Dict) :
    posArgs (vmap f kw) names (args.map (Option.map f)) (vmap f cmd) =
      (vmap f (posArgs kw names args cmd).1, (posArgs kw names args cmd).2) := by
  induction names generalizing args cmd with
  | nil => cases args <;> simp [posArgs]
  | cons n ns ih =>
    cases args with
    | nil => simp [posArgs]
    | cons a as =>
      simp only [List.map_cons]
      unfold posArgs
      rw [dhas_vmap]
      split
      · rfl
      · rw [dset_vmap, ih]

theorem popExtra_vmap (f : Nat → Nat) (names : List Key) (map : Dict) (args : List PyVal) :
    popExtra names (vmap f map) (args.map (Option.map f)) =
      (vmap f (popExtra names map args).1, (popExtra names map args).2.map (Option.map f)) := by
  unfold popExtra
  simp only [List.length_map]
  split
  · have : (List.map (Option.map f) args).getLast?.getD none = (args.getLast?.getD none).map f := by
      rw [List.getLast?_map]; cases args.getLast? <;> rfl
    rw [this, dset_vmap]
    simp [List.dropLast_eq_take, List.map_take]
  · rfl

theorem isEmpty_vmap (f : Nat → Nat) (d : Dict) : (vmap f d).isEmpty = d.isEmpty := by
  cases d <;> rfl

/-- `final_truthful` at the level of one reachable state -/
theorem final_truthful_state (fixed : Bool) (cfg : Cfg) (s : State) (hinv : Inv s)
    (hmap : s.mapPending = cfg.hasMap) (h : s.phase = .active) (w2 : List Ev) :
    (∀ r, (exec (step fixed cfg) (step fixed cfg s (.tReturn r)).1 w2).phase = .done ∧
          (exec (step fixed cfg) (step fixed cfg s (.tReturn r)).1 w2).status =
            (if s.cancelReq then .canceled else .success) ∧
          (exec (step fixed cfg) (step fixed cfg s (.tReturn r)).1 w2).msg =
            (if s.cancelReq then .canceled else .none) ∧
          Holds cfg r (exec (step fixed cfg) (step fixed cfg s (.tReturn r)).1 w2)) ∧
    (∀ c m, (exec (step fixed cfg) (step fixed cfg s (.tRaise c m)).1 w2).phase = .done ∧
          (exec (step fixed cfg) (step fixed cfg s (.tRaise c m)).1 w2).status = .error ∧
          (exec (step fixed cfg) (step fixed cfg s (.tRaise c m)).1 w2).msg = .task c m) := by
  constructor
  · intro r
    have hinv' := inv_step fixed cfg s (.tReturn r) hinv
    have hstep : (step fixed cfg s (.tReturn r)).1 =
        (finish fixed (if s.cancelReq then stopRun { s with results := r } .canceled .canceled
                        else stopRun { s with results := r } .success .none)).1 := by
      simp only [step, if_pos h, taskReturn]
    generalize step fixed cfg s (.tReturn r) = t at hinv' hstep
    obtain ⟨t1, o⟩ := t
    simp only at hstep hinv'
    subst hstep
    by_cases hc : s.cancelReq = true
    · simp only [if_pos hc] at hinv' ⊢
      obtain ⟨a, b, c, d⟩ := finish_holds fixed cfg (t := stopRun { s with results := r } .canceled .canceled)
        (r := r) (by simp [stopRun, St.isFinal]) (by simp [stopRun]) (by simpa [stopRun] using hmap)
      have hf := final_exec fixed cfg w2 hinv' (st := .canceled) (m := .canceled) ⟨a, by rw [b]; rfl, by rw [c]; rfl⟩
      exact ⟨hf.1, hf.2.1, hf.2.2, holds_exec fixed cfg w2 hinv' a d⟩
    · simp only [if_neg hc] at hinv' ⊢
      obtain ⟨a, b, c, d⟩ := finish_holds fixed cfg (t := stopRun { s with results := r } .success .none)
        (r := r) (by simp [stopRun, St.isFinal]) (by simp [stopRun]) (by simpa [stopRun] using hmap)
      have hf := final_exec fixed cfg w2 hinv' (st := .success) (m := .none) ⟨a, by rw [b]; rfl, by rw [c]; rfl⟩
      exact ⟨hf.1, hf.2.1, hf.2.2, holds_exec fixed cfg w2 hinv' a d⟩
  · intro c m
    have hinv' := inv_step fixed cfg s (.tRaise c m) hinv
    have hstep : (step fixed cfg s (.tRaise c m)).1 = (finish fixed (stopRun s .error (.task c m))).1 := by
      simp only [step, if_pos h, taskRaise]
    generalize step fixed cfg s (.tRaise c m) = t at hinv' hstep
    obtain ⟨t1, o⟩ := t
    simp only at hstep hinv'
    subst hstep
    obtain ⟨a, b, c', _⟩ := finish_holds fixed cfg (t := stopRun s .error (.task c m))
      (r := s.results) (by simp [stopRun, St.isFinal]) (by simp [stopRun]) (by simpa [stopRun] using hmap)
    exact final_exec fixed cfg w2 hinv' (st := .error) (m := .task c m) ⟨a, by rw [b]; rfl, by rw [c']; rfl⟩

/-! ### several jobs in one process: the product machine -/

/-- A job that exists in a process is stepped by the events addressed to it and by nothing else:
after any process history — events on other jobs and creations of further jobs interleaved at will —
its state is the single-job run over its own events, and the answers it gave are those of that run. -/
theorem proc_run_proj (fixed : Bool) (W : List PEv) :
    ∀ (P : Proc) (i : Nat) (cfg : Cfg) (s : State), P[i]? = some (cfg, s) →
      (exec (pstep fixed) P W)[i]? = some (cfg, exec (step fixed cfg) s (proj i W)) ∧
      answersTo i (run (pstep fixed) P W).2 = (run (step fixed cfg) s (proj i W)).2 := by
  induction W with
  | nil => intro P i cfg s h; exact ⟨h, rfl⟩
  | cons a W ih =>
    intro P i cfg s h
    have hlt : i < P.length := by
      rcases Nat.lt_or_ge i P.length with hl | hl
      · exact hl
      · rw [List.getElem?_eq_none hl] at h; cases h
    cases a with
    | create c =>
      have h' : (P ++ [(c, init c)])[i]? = some (cfg, s) := by
        rw [List.getElem?_append_left hlt]; exact h
      obtain ⟨h1, h2⟩ := ih _ i cfg s h'
      refine ⟨?_, ?_⟩
      · rw [exec_cons]; exact h1
      · rw [run_cons]; exact h2
    | on j e =>
      by_cases hj : j = i
      · subst hj
        have hstep : pstep fixed P (.on j e) =
            (P.set j (cfg, (step fixed cfg s e).1), some (j, (step fixed cfg s e).2)) := by
          simp only [pstep, h]
        have h' : (P.set j (cfg, (step fixed cfg s e).1))[j]? = some (cfg, (step fixed cfg s e).1) := by
          rw [List.getElem?_set_self hlt]
        obtain ⟨h1, h2⟩ := ih _ j cfg _ h'
        refine ⟨?_, ?_⟩
        · rw [exec_cons, hstep]
          simp only [proj, if_true]
          rw [exec_cons]; exact h1
        · rw [run_cons, hstep]
          simp only [proj, if_true, answersTo]
          rw [run_cons, h2]
      · have hproj : proj i (PEv.on j e :: W) = proj i W := by simp [proj, hj]
        cases hP : P[j]? with
        | none =>
          have hstep : pstep fixed P (.on j e) = (P, some (j, .disabled)) := by
            simp only [pstep, hP]
          obtain ⟨h1, h2⟩ := ih P i cfg s h
          refine ⟨?_, ?_⟩
          · rw [exec_cons, hstep, hproj]; exact h1
          · rw [run_cons, hstep, hproj]; simp only [answersTo, if_neg hj]; exact h2
        | some x =>
          obtain ⟨c, t⟩ := x
          have hstep : pstep fixed P (.on j e) =
              (P.set j (c, (step fixed c t e).1), some (j, (step fixed c t e).2)) := by
            simp only [pstep, hP]
          have h' : (P.set j (c, (step fixed c t e).1))[i]? = some (cfg, s) := by
            rw [List.getElem?_set_ne hj]; exact h
          obtain ⟨h1, h2⟩ := ih _ i cfg s h'
          refine ⟨?_, ?_⟩
          · rw [exec_cons, hstep, hproj]; exact h1
          · rw [run_cons, hstep, hproj]; simp only [answersTo, if_neg hj]; exact h2

end PM.C18
