/-
  C18 — helper lemmas (model: `Model/C18.lean`).
-/
import PercevalModel.Model.C18

namespace PM.C18
open PM.SM

/-! ### generic -/

theorem run_cons {S Op Out : Type} (step : S → Op → S × Out) (s : S) (op : Op) (ops : List Op) :
    run step s (op :: ops) =
      ((run step (step s op).1 ops).1, (step s op).2 :: (run step (step s op).1 ops).2) := by
  simp [run]

theorem run_append_snd {S Op Out : Type} (step : S → Op → S × Out) (s : S) (a b : List Op) :
    (run step s (a ++ b)).2 = (run step s a).2 ++ (run step (exec step s a) b).2 := by
  induction a generalizing s with
  | nil => simp [run, exec]
  | cons x xs ih => simp [run_cons, ih, exec_cons]

/-! ### the reachable shapes of a job -/

/-- The combinations of (task phase, mode, status, worker, callback open, number of task entries)
a job can be in.  In particular `fnCalls ≤ 1`, a final status exactly when the task has ended, and
never "RUNNING with a dead worker" (the state in which `LocalJob.status` would repair the status). -/
def shapeOk : Phase → Mode → St → Worker → Bool → Nat → Prop
  | .idle, .none, .waiting, .none, false, n => n = 0
  | .ready, .sync, .waiting, .none, false, n => n = 0
  | .ready, .async, .running, .alive, false, n => n = 0
  | .active, .sync, .running, .none, _, n => n = 1
  | .active, .async, .running, .alive, _, n => n = 1
  | .done, .sync, st, .none, false, n => st.isFinal = true ∧ n = 1
  | .done, .async, st, .dead, false, n => st.isFinal = true ∧ n = 1
  | _, _, _, _, _, _ => False

def Inv (s : State) : Prop := shapeOk s.phase s.mode s.status s.worker s.cbOpen s.fnCalls

/-- the same, as a case distinction usable with `rcases` -/
theorem Inv.cases {s : State} (h : Inv s) :
    (s.phase = .idle ∧ s.mode = .none ∧ s.status = .waiting ∧ s.worker = .none ∧ s.cbOpen = false ∧ s.fnCalls = 0) ∨
    (s.phase = .ready ∧ s.mode = .sync ∧ s.status = .waiting ∧ s.worker = .none ∧ s.cbOpen = false ∧ s.fnCalls = 0) ∨
    (s.phase = .ready ∧ s.mode = .async ∧ s.status = .running ∧ s.worker = .alive ∧ s.cbOpen = false ∧ s.fnCalls = 0) ∨
    (s.phase = .active ∧ s.mode = .sync ∧ s.status = .running ∧ s.worker = .none ∧ s.fnCalls = 1) ∨
    (s.phase = .active ∧ s.mode = .async ∧ s.status = .running ∧ s.worker = .alive ∧ s.fnCalls = 1) ∨
    (s.phase = .done ∧ s.mode = .sync ∧ s.status.isFinal = true ∧ s.worker = .none ∧ s.cbOpen = false ∧ s.fnCalls = 1) ∨
    (s.phase = .done ∧ s.mode = .async ∧ s.status.isFinal = true ∧ s.worker = .dead ∧ s.cbOpen = false ∧ s.fnCalls = 1) := by
  unfold Inv at h
  generalize s.phase = ph at h ⊢
  generalize s.mode = md at h ⊢
  generalize s.status = st at h ⊢
  generalize s.worker = wk at h ⊢
  generalize s.cbOpen = cb at h ⊢
  cases ph <;> cases md <;> cases wk <;> cases cb <;> cases st <;> simp_all [shapeOk]

theorem inv_init (cfg : Cfg) : Inv (init cfg) := by simp [Inv, init, shapeOk]

/-! ### frames: what an action can touch -/

theorem notePending_snd (s0 : State) (r : State × Out) : (notePending s0 r).2 = r.2 := by
  unfold notePending
  split
  · split <;> rfl
  · rfl

theorem notePending_fst (s0 : State) (r : State × Out) :
    ∃ p, (notePending s0 r).1 = { r.1 with pending := p } := by
  unfold notePending
  split
  · split
    · exact ⟨_, rfl⟩
    · exact ⟨r.1.pending, rfl⟩
  · exact ⟨r.1.pending, rfl⟩

theorem convert_frame {s s2 : State} (h : convert s = some s2) :
    ∃ r mp, s2 = { s with results := r, mapPending := mp } := by
  unfold convert at h
  split at h
  · split at h
    · cases h; exact ⟨_, _, rfl⟩
    · cases h
  · cases h; exact ⟨s.results, s.mapPending, rfl⟩

/-- never "RUNNING with a dead worker" -/
def NoRepair (s : State) : Prop := ¬ (s.status = .running ∧ s.worker = .dead)

theorem Inv.noRepair {s : State} (h : Inv s) : NoRepair s := by
  intro ⟨h1, h2⟩
  rcases h.cases with h | h | h | h | h | h | h <;> simp_all [St.isFinal]

theorem statusProp_true {s : State} (h : NoRepair s) : statusProp true s = .ok s := by
  unfold statusProp
  split
  · next hs =>
    cases hw : s.worker <;> simp
    exact absurd ⟨hs, hw⟩ h
  · rfl

theorem getRes_frame (fixed : Bool) {s : State} (h : NoRepair s) :
    ∃ r mp, (getRes fixed s).1 = { s with results := r, mapPending := mp } := by
  have triv : ∃ r mp, s = { s with results := r, mapPending := mp } := ⟨s.results, s.mapPending, rfl⟩
  unfold getRes
  have hsp : statusProp fixed s = .ok s ∨ ∃ e, statusProp fixed s = .error e := by
    unfold statusProp
    split
    · next hs =>
      cases hw : s.worker
      · cases fixed <;> simp
      · simp
      · exact absurd ⟨hs, hw⟩ h
    · exact .inl rfl
  rcases hsp with hsp | ⟨e, hsp⟩
  · rw [hsp]; simp only
    split
    · split
      · next s2 hc => exact convert_frame hc
      · exact triv
    · exact triv
  · rw [hsp]; exact triv

end PM.C18
