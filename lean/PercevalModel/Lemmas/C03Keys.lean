/-
  Lemmas for C03, section 13 of Props/C03.lean (`SVDistribution` as a dict keyed by normalised vectors).
-/
import PercevalModel.Model.C03Keys

namespace PM.C03
variable {K : Type} [DecidableEq K]

theorem wget_wset_same (d : WDict K) (k : K) (v : Rat) : wget (wset d k v) k = v := by
  induction d with
  | nil => simp [wset, wget, List.lookup]
  | cons e r ih =>
    obtain ⟨k', v'⟩ := e
    by_cases h : k' = k
    · subst h; simp [wset, wget, List.lookup]
    · have h' : (k == k') = false := by
        rw [beq_eq_false_iff_ne]; exact fun e => h e.symm
      simp only [wset, h, if_false, wget, List.lookup, h'] at ih ⊢
      exact ih

theorem wget_wset_other (d : WDict K) (k c : K) (v : Rat) (hc : c ≠ k) : wget (wset d k v) c = wget d c := by
  induction d with
  | nil =>
    have h' : (c == k) = false := by rw [beq_eq_false_iff_ne]; exact hc
    simp [wset, wget, List.lookup, h']
  | cons e r ih =>
    obtain ⟨k', v'⟩ := e
    by_cases h : k' = k
    · subst h
      have h' : (c == k') = false := by rw [beq_eq_false_iff_ne]; exact hc
      simp [wset, wget, List.lookup, h']
    · simp only [wset, h, if_false, wget, List.lookup] at ih ⊢
      cases hck : (c == k') with
      | true => rfl
      | false => exact ih

theorem wget_of_lookup {d : WDict K} {k : K} {v : Rat} (h : d.lookup k = some v) : wget d k = v := by
  simp [wget, h]

theorem wget_of_lookup_none {d : WDict K} {k : K} (h : d.lookup k = none) : wget d k = 0 := by
  simp [wget, h]

/-- the repaired `svd[k] += w`, seen from any component `c` -/
theorem wget_svdIadd_fixed (norm : K → K) (hn : ∀ k, norm (norm k) = norm k) (d : WDict K) (k c : K) (w : Rat) :
    wget (svdIadd true norm d k w) c = if norm k = c then wget d c + w else wget d c := by
  unfold svdIadd svdGet svdSet
  simp only [if_true]
  cases hl : d.lookup (norm k) with
  | some v =>
    simp only
    by_cases hc : norm k = c
    · subst hc; simp [wget_wset_same, wget_of_lookup hl]
    · simp only [hc, if_false]; exact wget_wset_other _ _ _ _ (fun e => hc e.symm)
  | none =>
    simp only [hn]
    by_cases hc : norm k = c
    · subst hc; simp [wget_wset_same, wget_of_lookup_none hl]
    · simp only [hc, if_false]
      rw [wget_wset_other _ _ _ _ (fun e => hc e.symm), wget_wset_other _ _ _ _ (fun e => hc e.symm)]

theorem wget_svdGet_fixed (norm : K → K) (hn : ∀ k, norm (norm k) = norm k) (d : WDict K) (k c : K) :
    wget (svdGet true norm d k).1 c = wget d c ∧ (svdGet true norm d k).2 = wget d (norm k) := by
  unfold svdGet svdSet
  simp only [if_true]
  cases hl : d.lookup (norm k) with
  | some v => exact ⟨rfl, (wget_of_lookup hl).symm⟩
  | none =>
    simp only [hn]
    refine ⟨?_, (wget_of_lookup_none hl).symm⟩
    by_cases hc : c = norm k
    · subst hc; rw [wget_wset_same, wget_of_lookup_none hl]
    · exact wget_wset_other _ _ _ _ hc

theorem wget_svdSet (norm : K → K) (d : WDict K) (k c : K) (v : Rat) :
    wget (svdSet norm d k v) c = if norm k = c then v else wget d c := by
  unfold svdSet
  by_cases hc : norm k = c
  · subst hc; simp [wget_wset_same]
  · simp only [hc, if_false]; exact wget_wset_other _ _ _ _ (fun e => hc e.symm)

end PM.C03
