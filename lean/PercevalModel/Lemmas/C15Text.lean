/-
  C15 — helper lemmas for the text formats (`Model/C15Text.lean`).
-/
import PercevalModel.Model.C15Text
import PercevalModel.Lemmas.C15
import Mathlib.Tactic.FieldSimp
import Mathlib.Tactic.Ring
import Mathlib.Tactic.LinearCombination
import Mathlib.Tactic.Positivity
import Mathlib.Tactic.Linarith
import Mathlib.Algebra.Order.AbsoluteValue.Basic
import Mathlib.Data.Rat.Defs
import Mathlib.Algebra.Order.Field.Rat

namespace PM.C15.Txt

open PM.C15 (Text Dbl gridNum gridExp roundHalfEven_err)

/-! ### digits -/

theorem digit_facts : ∀ d : Fin 10, digitVal (digitChar d) = d ∧ isDigit (digitChar d) = true := by decide

theorem digitVal_digitChar {d : Nat} (h : d < 10) : digitVal (digitChar d) = d :=
  (digit_facts ⟨d, h⟩).1

theorem isDigit_digitChar {d : Nat} (h : d < 10) : isDigit (digitChar d) = true :=
  (digit_facts ⟨d, h⟩).2

theorem parseDigits_append (acc : Nat) (l : Text) (c : Char) :
    parseDigits acc (l ++ [c]) = parseDigits acc l * 10 + digitVal c := by
  induction l generalizing acc with
  | nil => rfl
  | cons x xs ih => exact ih (acc * 10 + digitVal x)

theorem showNatF_spec : ∀ (f n : Nat), n < f →
    parseDigits 0 (showNatF f n) = n ∧ (showNatF f n).all isDigit = true ∧ showNatF f n ≠ []
  | 0, _, h => by omega
  | f + 1, n, h => by
    unfold showNatF
    by_cases hn : n < 10
    · rw [if_pos hn]
      refine ⟨?_, ?_, by simp⟩
      · show 0 * 10 + digitVal (digitChar n) = n
        rw [digitVal_digitChar hn]; omega
      · simp only [List.all_cons, List.all_nil, Bool.and_true]
        exact isDigit_digitChar hn
    · have hlt : n / 10 < f := by omega
      obtain ⟨e1, e2, e3⟩ := showNatF_spec f (n / 10) hlt
      have hm : n % 10 < 10 := Nat.mod_lt _ (by decide)
      rw [if_neg hn]
      refine ⟨?_, ?_, by simp⟩
      · rw [parseDigits_append, e1, digitVal_digitChar hm]; omega
      · rw [List.all_append, e2]
        simp only [List.all_cons, List.all_nil, Bool.and_true, Bool.true_and]
        exact isDigit_digitChar hm

theorem parseDigits_showNat (n : Nat) : parseDigits 0 (showNat n) = n :=
  (showNatF_spec (n + 1) n (by omega)).1

theorem allDigits_showNat (n : Nat) : allDigits (showNat n) = true := by
  obtain ⟨_, e2, e3⟩ := showNatF_spec (n + 1) n (by omega)
  unfold allDigits showNat
  cases h : showNatF (n + 1) n with
  | nil => exact absurd h e3
  | cons a t => rw [h] at e2; simpa using e2

theorem showNat_ne_nil (n : Nat) : showNat n ≠ [] := (showNatF_spec (n + 1) n (by omega)).2.2

theorem parseNat?_showNat (n : Nat) : parseNat? (showNat n) = some n := by
  simp [parseNat?, allDigits_showNat, parseDigits_showNat]

theorem mem_showNat_isDigit {n : Nat} {c : Char} (h : c ∈ showNat n) : isDigit c = true := by
  have := (showNatF_spec (n + 1) n (by omega)).2.1
  exact (List.all_eq_true.1 this) c h

theorem digitChar_zero_iff : ∀ d : Fin 10, digitChar d = '0' ↔ d.val = 0 := by decide

/-- the first digit of a positive number is not `0` -/
theorem showNatF_head : ∀ (f n : Nat), n < f → 0 < n → (showNatF f n).head? ≠ some '0'
  | 0, _, h, _ => by omega
  | f + 1, n, h, hp => by
    unfold showNatF
    by_cases hn : n < 10
    · simp only [hn, if_true, List.head?_cons, ne_eq, Option.some.injEq]
      intro h0
      have := (digitChar_zero_iff ⟨n, hn⟩).1 h0
      simp at this; omega
    · simp only [hn, if_false]
      have hlt : n / 10 < f := by omega
      have hp' : 0 < n / 10 := by omega
      have ih := showNatF_head f (n / 10) hlt hp'
      have hne := (showNatF_spec f (n / 10) hlt).2.2
      cases h' : showNatF f (n / 10) with
      | nil => exact absurd h' hne
      | cons a t => rw [h'] at ih; simpa using ih

theorem showNatF_length_one : ∀ (f n : Nat), n < 10 → (showNatF (f + 1) n).length = 1 := by
  intro f n h; simp [showNatF, h]

theorem canonNat_showNat (n : Nat) : canonNat (showNat n) = true := by
  unfold canonNat
  rw [allDigits_showNat]
  by_cases hn : n < 10
  · have : (showNat n).length = 1 := showNatF_length_one n n hn
    simp [this]
  · have h := showNatF_head (n + 1) n (by omega) (by omega)
    have : ((showNat n).head? != some '0') = true := by
      simpa [showNat, bne_iff_ne] using h
    simp [this]

/-! ### the text of a number -/

/-- characters a number is written with -/
def numChar (c : Char) : Bool := isDigit c || c == '-' || c == '.' || c == 'e'

theorem splitFirst_none (c : Char) : ∀ (t : Text), c ∉ t → splitFirst c t = none
  | [], _ => rfl
  | x :: xs, h => by
    have hx : x ≠ c := fun e => h (by simp [e])
    have := splitFirst_none c xs (fun hm => h (List.mem_cons_of_mem _ hm))
    simp [splitFirst, hx, this]

theorem splitFirst_append (c : Char) : ∀ (a b : Text), c ∉ a → splitFirst c (a ++ c :: b) = some (a, b)
  | [], b, _ => by simp [splitFirst]
  | x :: xs, b, h => by
    have hx : x ≠ c := fun e => h (by simp [e])
    have := splitFirst_append c xs b (fun hm => h (List.mem_cons_of_mem _ hm))
    simp [splitFirst, hx, this]

theorem parseDigits_replicate (acc : Nat) (l : Text) :
    ∀ z, parseDigits acc (l ++ List.replicate z '0') = parseDigits acc l * 10 ^ z
  | 0 => by simp
  | z + 1 => by
    rw [List.replicate_succ', ← List.append_assoc, parseDigits_append, parseDigits_replicate acc l z]
    have : digitVal '0' = 0 := by decide
    rw [this, Nat.pow_succ, Nat.add_zero, Nat.mul_assoc]

theorem takeWhile_all (p : Char → Bool) : ∀ (l : Text), ∀ x ∈ l.takeWhile p, p x = true
  | [], x, h => by simp at h
  | a :: l, x, h => by
    by_cases ha : p a = true
    · rw [List.takeWhile_cons_of_pos ha] at h
      rcases List.mem_cons.1 h with rfl | h
      · exact ha
      · exact takeWhile_all p l x h
    · rw [List.takeWhile_cons_of_neg ha] at h; simp at h

theorem stripZeros_spec (t : Text) :
    ∃ z, t = stripZeros t ++ List.replicate z '0' ∧ t.length = (stripZeros t).length + z := by
  refine ⟨(t.reverse.takeWhile (· == '0')).length, ?_, ?_⟩
  · have h := List.takeWhile_append_dropWhile (p := (· == '0')) (l := t.reverse)
    have h2 : t = (t.reverse.dropWhile (· == '0')).reverse ++ (t.reverse.takeWhile (· == '0')).reverse := by
      rw [← List.reverse_append, h, List.reverse_reverse]
    have h3 : (t.reverse.takeWhile (· == '0')).reverse = List.replicate (t.reverse.takeWhile (· == '0')).length '0' := by
      rw [List.eq_replicate_iff]
      refine ⟨by simp, ?_⟩
      intro b hb
      rw [List.mem_reverse] at hb
      have := takeWhile_all _ _ b hb
      simpa using this
    unfold stripZeros
    rw [← h3]; exact h2
  · have h := List.takeWhile_append_dropWhile (p := (· == '0')) (l := t.reverse)
    have : t.length = (t.reverse.takeWhile (· == '0')).length + (t.reverse.dropWhile (· == '0')).length := by
      rw [← List.length_append, h, List.length_reverse]
    unfold stripZeros
    rw [List.length_reverse]; omega

theorem parseDigits_six (a b c d e f : Nat) (ha : a < 10) (hb : b < 10) (hc : c < 10) (hd : d < 10)
    (he : e < 10) (hf : f < 10) :
    parseDigits 0 ([a, b, c, d, e, f].map digitChar) = ((((a*10+b)*10+c)*10+d)*10+e)*10+f := by
  show (((((0 * 10 + digitVal (digitChar a)) * 10 + digitVal (digitChar b)) * 10 + digitVal (digitChar c)) * 10
    + digitVal (digitChar d)) * 10 + digitVal (digitChar e)) * 10 + digitVal (digitChar f) = _
  rw [digitVal_digitChar ha, digitVal_digitChar hb, digitVal_digitChar hc, digitVal_digitChar hd,
    digitVal_digitChar he, digitVal_digitChar hf]
  omega

theorem pad6_spec (n : Nat) (h : n < 1000000) :
    parseDigits 0 (pad6 n) = n ∧ (pad6 n).all isDigit = true ∧ (pad6 n).length = 6 := by
  have m : ∀ k, k % 10 < 10 := fun k => Nat.mod_lt _ (by decide)
  refine ⟨?_, ?_, by simp [pad6]⟩
  · unfold pad6
    rw [parseDigits_six _ _ _ _ _ _ (m _) (m _) (m _) (m _) (m _) (m _)]
    omega
  · simp only [pad6, List.map_cons, List.map_nil, List.all_cons, List.all_nil, isDigit_digitChar (m _),
      Bool.and_self]

theorem all_of_append_left {p : Char → Bool} {a b : Text} (h : (a ++ b).all p = true) : a.all p = true := by
  rw [List.all_append] at h; exact (Bool.and_eq_true _ _ ▸ h).1

/-- the fractional digits: `b / 10^len = fp / 10^6` -/
theorem frac_spec (fp : Nat) (h : fp < 10 ^ 6) (h0 : fp ≠ 0) :
    allDigits (stripZeros (pad6 fp)) = true ∧
    parseDigits 0 (stripZeros (pad6 fp)) * 10 ^ 6 = fp * 10 ^ (stripZeros (pad6 fp)).length ∧
    (stripZeros (pad6 fp)).length ≤ 6 := by
  obtain ⟨e1, e2, e3⟩ := pad6_spec fp h
  obtain ⟨z, hz, hl⟩ := stripZeros_spec (pad6 fp)
  have hp : parseDigits 0 (stripZeros (pad6 fp)) * 10 ^ z = fp := by
    rw [← parseDigits_replicate, ← hz, e1]
  have hall : (stripZeros (pad6 fp)).all isDigit = true := by
    have e2' : (stripZeros (pad6 fp) ++ List.replicate z '0').all isDigit = true := by rw [← hz]; exact e2
    exact all_of_append_left e2'
  have hne : stripZeros (pad6 fp) ≠ [] := by
    intro hnil
    rw [hnil] at hp
    have hz0 : parseDigits 0 ([] : Text) = 0 := rfl
    rw [hz0, Nat.zero_mul] at hp
    exact h0 hp.symm
  refine ⟨?_, ?_, by omega⟩
  · unfold allDigits
    cases hh : stripZeros (pad6 fp) with
    | nil => exact absurd hh hne
    | cons a t => rw [hh] at hall; simpa using hall
  · have hL : (stripZeros (pad6 fp)).length + z = 6 := by omega
    calc parseDigits 0 (stripZeros (pad6 fp)) * 10 ^ 6
        = parseDigits 0 (stripZeros (pad6 fp)) * 10 ^ ((stripZeros (pad6 fp)).length + z) := by rw [hL]
      _ = (parseDigits 0 (stripZeros (pad6 fp)) * 10 ^ z) * 10 ^ (stripZeros (pad6 fp)).length := by
          rw [Nat.pow_add]; ring
      _ = fp * 10 ^ (stripZeros (pad6 fp)).length := by rw [hp]

theorem isDigit_ne {c d : Char} (h : isDigit c = true) (hd : isDigit d = false) : c ≠ d := by
  intro e; rw [e, hd] at h; exact absurd h (by decide)

theorem not_mem_of_allDigits {t : Text} {d : Char} (h : t.all isDigit = true) (hd : isDigit d = false) : d ∉ t := by
  intro hm
  exact isDigit_ne ((List.all_eq_true.1 h) d hm) hd rfl

theorem allDigits_all {t : Text} (h : allDigits t = true) : t.all isDigit = true := by
  unfold allDigits at h
  exact (Bool.and_eq_true _ _ ▸ h).2

/-- the mantissa: `m / 10^sc = k / 10^6` -/
theorem parseMant_mantText (k : Nat) :
    ∃ m sc, parseMant (mantText k) = some (m, sc) ∧ m * 10 ^ 6 = k * 10 ^ sc := by
  have hip := allDigits_showNat (k / 10 ^ 6)
  have hdot : '.' ∉ showNat (k / 10 ^ 6) := not_mem_of_allDigits (allDigits_all hip) (by decide)
  unfold mantText
  by_cases h0 : k % 10 ^ 6 = 0
  · refine ⟨k / 10 ^ 6, 0, ?_, ?_⟩
    · simp only [h0, if_true, List.append_nil, parseMant, splitFirst_none '.' _ hdot, parseNat?_showNat,
        Option.map_some]
    · have := Nat.div_add_mod k (10 ^ 6)
      simp only [Nat.pow_zero, Nat.mul_one]
      omega
  · have hlt : k % 10 ^ 6 < 10 ^ 6 := Nat.mod_lt _ (by decide)
    obtain ⟨f1, f2, f3⟩ := frac_spec (k % 10 ^ 6) hlt h0
    refine ⟨k / 10 ^ 6 * 10 ^ (stripZeros (pad6 (k % 10 ^ 6))).length + parseDigits 0 (stripZeros (pad6 (k % 10 ^ 6))),
      (stripZeros (pad6 (k % 10 ^ 6))).length, ?_, ?_⟩
    · simp only [h0, if_false, parseMant, splitFirst_append '.' _ _ hdot, parseNat?_showNat]
      simp only [parseNat?, f1, if_true]
    · have := Nat.div_add_mod k (10 ^ 6)
      calc (k / 10 ^ 6 * 10 ^ (stripZeros (pad6 (k % 10 ^ 6))).length + parseDigits 0 (stripZeros (pad6 (k % 10 ^ 6)))) * 10 ^ 6
          = (k / 10 ^ 6 * 10 ^ 6) * 10 ^ (stripZeros (pad6 (k % 10 ^ 6))).length
              + parseDigits 0 (stripZeros (pad6 (k % 10 ^ 6))) * 10 ^ 6 := by ring
        _ = (k / 10 ^ 6 * 10 ^ 6) * 10 ^ (stripZeros (pad6 (k % 10 ^ 6))).length
              + k % 10 ^ 6 * 10 ^ (stripZeros (pad6 (k % 10 ^ 6))).length := by rw [f2]
        _ = (10 ^ 6 * (k / 10 ^ 6) + k % 10 ^ 6) * 10 ^ (stripZeros (pad6 (k % 10 ^ 6))).length := by ring
        _ = k * 10 ^ (stripZeros (pad6 (k % 10 ^ 6))).length := by rw [this]

/-- every character of a mantissa is a digit or the point -/
theorem mantText_chars (k : Nat) : ∀ c ∈ mantText k, isDigit c = true ∨ c = '.' := by
  intro c hc
  unfold mantText at hc
  rw [List.mem_append] at hc
  rcases hc with hc | hc
  · exact Or.inl (mem_showNat_isDigit hc)
  · by_cases h0 : k % 10 ^ 6 = 0
    · rw [if_pos h0] at hc; simp at hc
    · rw [if_neg h0, List.mem_cons] at hc
      rcases hc with rfl | hc
      · exact Or.inr rfl
      · have hlt : k % 10 ^ 6 < 10 ^ 6 := Nat.mod_lt _ (by decide)
        exact Or.inl ((List.all_eq_true.1 (allDigits_all (frac_spec _ hlt h0).1)) c hc)

theorem mantText_head (k : Nat) : ∃ c t, mantText k = c :: t ∧ isDigit c = true := by
  unfold mantText
  cases h : showNat (k / 10 ^ 6) with
  | nil => exact absurd h (showNat_ne_nil _)
  | cons c t =>
    exact ⟨c, _, rfl, mem_showNat_isDigit (n := k / 10 ^ 6) (by rw [h]; simp)⟩

theorem parseUnsigned_spec (k e : Nat) :
    ∃ m sc, parseUnsigned (mantText k ++ expText e) = some (m, sc + e) ∧ m * 10 ^ 6 = k * 10 ^ sc := by
  obtain ⟨m, sc, h1, h2⟩ := parseMant_mantText k
  have he : 'e' ∉ mantText k := by
    intro hm
    rcases mantText_chars k 'e' hm with h | h
    · exact absurd h (by decide)
    · exact absurd h (by decide)
  refine ⟨m, sc, ?_, h2⟩
  unfold expText
  by_cases h0 : e = 0
  · subst h0
    simp only [if_true, List.append_nil, parseUnsigned, splitFirst_none 'e' _ he, h1, Nat.add_zero]
  · simp only [h0, if_false, parseUnsigned, splitFirst_append 'e' _ _ he, h1, parseNat?_showNat]

theorem decVal_eq (neg : Bool) (m sc k e : Nat) (h : m * 10 ^ 6 = k * 10 ^ sc) :
    decVal neg m (sc + e) = GNum.toRat ⟨neg, k, e⟩ := by
  unfold decVal GNum.toRat
  have h' : (m : ℚ) * 10 ^ 6 = k * 10 ^ sc := by exact_mod_cast h
  have p1 : (10 : ℚ) ^ (sc + e) ≠ 0 := by positivity
  have p2 : (10 : ℚ) ^ (6 + e) ≠ 0 := by positivity
  rw [div_eq_div_iff p1 p2]
  cases neg
  · simp only [Bool.false_eq_true, if_false]
    rw [pow_add, pow_add]
    linear_combination (10 : ℚ) ^ e * h'
  · simp only [if_true]
    rw [pow_add, pow_add]
    linear_combination -(10 : ℚ) ^ e * h'

/-- `float(simple_float(v)[1])` is the decimal on the grid -/
theorem parseNum_renderNum (g : GNum) : parseNum (renderNum g) = some g.toRat := by
  obtain ⟨m, sc, h1, h2⟩ := parseUnsigned_spec g.k g.e
  obtain ⟨c, t, hc, hd⟩ := mantText_head g.k
  unfold renderNum
  cases hn : g.neg with
  | true =>
    simp only [if_true, List.singleton_append, parseNum, h1, Option.map_some]
    rw [decVal_eq true m sc g.k g.e h2, ← hn]
  | false =>
    simp only [Bool.false_eq_true, if_false, List.nil_append]
    have hne : c ≠ '-' := isDigit_ne hd (by decide)
    have : parseNum (mantText g.k ++ expText g.e)
        = (parseUnsigned (mantText g.k ++ expText g.e)).map fun p => decVal false p.1 p.2 := by
      rw [hc]
      simp only [List.cons_append, parseNum]
      split
      · next r heq => simp at heq; exact absurd heq.1 hne
      · rfl
    rw [this, h1, Option.map_some, decVal_eq false m sc g.k g.e h2, ← hn]

theorem renderNum_chars (g : GNum) : ∀ c ∈ renderNum g, numChar c = true := by
  intro c hc
  unfold renderNum at hc
  simp only [List.mem_append] at hc
  unfold numChar
  rcases hc with hc | hc | hc
  · by_cases hn : g.neg
    · simp [hn] at hc; subst hc; decide
    · simp [hn] at hc
  · rcases mantText_chars g.k c hc with h | h
    · simp [h]
    · subst h; decide
  · unfold expText at hc
    by_cases h0 : g.e = 0
    · simp [h0] at hc
    · simp only [h0, if_false, List.mem_cons] at hc
      rcases hc with rfl | rfl | hc
      · decide
      · decide
      · simp [mem_showNat_isDigit hc]

/-! ### words and punctuation -/

theorem segGo_word : ∀ (w acc rest : Text), w.all wordChar = true → segGo acc (w ++ rest) = segGo (acc ++ w) rest
  | [], acc, rest, _ => by simp
  | c :: w, acc, rest, h => by
    simp only [List.all_cons, Bool.and_eq_true] at h
    have ih := segGo_word w (acc ++ [c]) rest h.2
    simp only [List.cons_append, segGo, h.1, if_true, ih, List.append_assoc, List.nil_append]

theorem segGo_render : ∀ (segs : List Seg), (∀ s ∈ segs, s.1.all wordChar = true ∧ wordChar s.2 = false) →
    segGo [] (renderSegs segs) = some segs
  | [], _ => rfl
  | (w, c) :: rest, h => by
    have hw := (h (w, c) (by simp)).1
    have hc := (h (w, c) (by simp)).2
    have ih := segGo_render rest (fun s hs => h s (List.mem_cons_of_mem _ hs))
    have : renderSegs ((w, c) :: rest) = w ++ (c :: renderSegs rest) := by
      simp [renderSegs]
    rw [this, segGo_word w [] _ hw]
    simp only [List.nil_append, segGo, hc, Bool.false_eq_true, if_false, ih]

/-- punctuation of a state text -/
def stPunct (c : Char) : Bool := c == '|' || c == '>' || c == ',' || c == '{' || c == '}' || c == ':'

/-- characters a state is written with -/
def stChar (c : Char) : Bool := wordChar c || stPunct c

theorem stPunct_not_word : ∀ c, stPunct c = true → wordChar c = false := by
  intro c h
  simp only [stPunct, Bool.or_eq_true, beq_iff_eq] at h
  rcases h with ((((h | h) | h) | h) | h) | h <;> subst h <;> decide

theorem wordChar_of_isDigit {c : Char} (h : isDigit c = true) : wordChar c = true := by
  simp [wordChar, h]

theorem all_wordChar_of_digits {t : Text} (h : t.all isDigit = true) : t.all wordChar = true := by
  rw [List.all_eq_true] at h ⊢
  exact fun c hc => wordChar_of_isDigit (h c hc)

theorem all_wordChar_showNat (n : Nat) : (showNat n).all wordChar = true :=
  all_wordChar_of_digits (allDigits_all (allDigits_showNat n))

theorem canonNat_digits {t : Text} (h : canonNat t = true) : allDigits t = true := by
  unfold canonNat at h
  exact (Bool.and_eq_true _ _ ▸ h).1

theorem valOk_word {tag v : Text} (h : valOk tag v = true) : v.all wordChar = true := by
  unfold valOk at h
  by_cases ht : tag = ['P']
  · rw [if_pos ht] at h
    simp only [polLetters, List.contains_eq_mem, List.mem_cons, List.not_mem_nil, or_false,
      decide_eq_true_eq] at h
    rcases h with h | h | h | h | h | h <;> subst h <;> decide
  · rw [if_neg ht, Bool.and_eq_true] at h
    exact all_wordChar_of_digits (allDigits_all (canonNat_digits h.1))

theorem tagOk_word {t : Text} (h : tagOk t = true) : t.all wordChar = true := by
  unfold tagOk at h
  simp only [Bool.and_eq_true] at h
  exact h.1.2

/-- every segment is a word followed by a state punctuation -/
def SegsOk (l : List Seg) : Prop := ∀ s ∈ l, s.1.all wordChar = true ∧ stPunct s.2 = true

theorem SegsOk.append {a b : List Seg} (ha : SegsOk a) (hb : SegsOk b) : SegsOk (a ++ b) := by
  intro s hs
  rcases List.mem_append.1 hs with h | h
  · exact ha s h
  · exact hb s h

theorem SegsOk.cons {w : Text} {c : Char} {l : List Seg} (hw : w.all wordChar = true) (hc : stPunct c = true)
    (hl : SegsOk l) : SegsOk ((w, c) :: l) := by
  intro s hs
  rcases List.mem_cons.1 hs with rfl | h
  · exact ⟨hw, hc⟩
  · exact hl s h

theorem SegsOk.nil : SegsOk [] := fun _ h => by simp at h

theorem annotSegs_ok : ∀ (a : Annot), (∀ tv ∈ a, (tagOk tv.1 && valOk tv.1 tv.2) = true) → SegsOk (annotSegs a)
  | [], _ => SegsOk.nil
  | [(t, v)], h => by
    have := h (t, v) (by simp)
    simp only [Bool.and_eq_true] at this
    exact SegsOk.cons (tagOk_word this.1) (by decide) (SegsOk.cons (valOk_word this.2) (by decide) SegsOk.nil)
  | (t, v) :: x :: rest, h => by
    have := h (t, v) (by simp)
    simp only [Bool.and_eq_true] at this
    have ih := annotSegs_ok (x :: rest) (fun tv htv => h tv (List.mem_cons_of_mem _ htv))
    exact SegsOk.cons (tagOk_word this.1) (by decide) (SegsOk.cons (valOk_word this.2) (by decide) ih)

theorem countWord_word (n : Nat) : (countWord n).all wordChar = true := by
  unfold countWord
  by_cases h : n = 1
  · simp [h]
  · rw [if_neg h]; exact all_wordChar_showNat n

theorem Annot.WF_all {a : Annot} (h : Annot.WF a = true) :
    a ≠ [] ∧ (∀ tv ∈ a, (tagOk tv.1 && valOk tv.1 tv.2) = true) ∧ Chain (fun x y => ltText x.1 y.1) a = true := by
  unfold Annot.WF at h
  simp only [Bool.and_eq_true, Bool.not_eq_true', List.isEmpty_eq_false_iff, List.all_eq_true] at h
  exact ⟨h.1.1, fun tv htv => by simpa using h.1.2 tv htv, h.2⟩

theorem Group.WF_all {g : Group} (h : Group.WF g = true) : 1 ≤ g.count ∧ Annot.WF g.annot = true := by
  unfold Group.WF at h
  simpa using h

theorem Mode.WF_all {m : Mode} (h : Mode.WF m = true) :
    (∀ g ∈ m.groups, Group.WF g = true) ∧
      Chain (fun x y => ltText (annotText x.annot) (annotText y.annot)) m.groups = true := by
  unfold Mode.WF at h
  simp only [Bool.and_eq_true, List.all_eq_true] at h
  exact h

theorem groupSegs_ok {g : Group} (h : Group.WF g = true) : SegsOk (groupSegs g) :=
  SegsOk.cons (countWord_word _) (by decide) (annotSegs_ok _ (Annot.WF_all (Group.WF_all h).2).2.1)

theorem flatMap_ok : ∀ (gs : List Group), (∀ g ∈ gs, Group.WF g = true) → SegsOk (gs.flatMap groupSegs)
  | [], _ => by simpa using SegsOk.nil
  | g :: rest, h => by
    rw [List.flatMap_cons]
    exact (groupSegs_ok (h g (by simp))).append (flatMap_ok rest (fun x hx => h x (List.mem_cons_of_mem _ hx)))

theorem plainWord_word (m : Mode) : (plainWord m).all wordChar = true := by
  unfold plainWord
  split
  · exact all_wordChar_showNat _
  · split
    · rfl
    · exact all_wordChar_showNat _

theorem modeSegs_ok {m : Mode} (h : Mode.WF m = true) {c : Char} (hc : stPunct c = true) : SegsOk (modeSegs m c) :=
  (flatMap_ok _ (Mode.WF_all h).1).append (SegsOk.cons (plainWord_word m) hc SegsOk.nil)

theorem modesSegs_ok : ∀ (s : List Mode), (∀ m ∈ s, Mode.WF m = true) → SegsOk (modesSegs s)
  | [], _ => SegsOk.nil
  | [m], h => modeSegs_ok (h m (by simp)) (by decide)
  | m :: x :: rest, h => by
    have ih := modesSegs_ok (x :: rest) (fun y hy => h y (List.mem_cons_of_mem _ hy))
    exact (modeSegs_ok (h m (by simp)) (by decide)).append ih

theorem FState.WF_all {s : FState} (h : FState.WF s = true) : ∀ m ∈ s, Mode.WF m = true := by
  unfold FState.WF at h
  exact List.all_eq_true.1 h

theorem stateSegs_ok {s : FState} (h : FState.WF s = true) : SegsOk (stateSegs s) := by
  unfold stateSegs
  refine SegsOk.cons rfl (by decide) ?_
  split
  · exact SegsOk.cons rfl (by decide) SegsOk.nil
  · exact modesSegs_ok s (FState.WF_all h)

theorem renderSegs_chars {l : List Seg} (h : SegsOk l) : ∀ c ∈ renderSegs l, stChar c = true := by
  intro c hc
  simp only [renderSegs, List.mem_flatMap, List.mem_append, List.mem_singleton] at hc
  obtain ⟨s, hs, hc | hc⟩ := hc
  · simp [stChar, List.all_eq_true.1 (h s hs).1 c hc]
  · subst hc; simp [stChar, (h s hs).2]

theorem encodeState_chars {s : FState} (h : FState.WF s = true) : ∀ c ∈ encodeState s, stChar c = true :=
  renderSegs_chars (stateSegs_ok h)

theorem segGo_stateSegs {s : FState} (h : FState.WF s = true) :
    segGo [] (encodeState s) = some (stateSegs s) :=
  segGo_render _ (fun x hx => ⟨(stateSegs_ok h x hx).1, stPunct_not_word _ (stateSegs_ok h x hx).2⟩)

/-! ### the parser of a state on the writer's segments -/

theorem parseAnnot_annotSegs : ∀ (a : Annot) (rest : List Seg), a ≠ [] →
    (∀ tv ∈ a, (tagOk tv.1 && valOk tv.1 tv.2) = true) → parseAnnot (annotSegs a ++ rest) = some (a, rest)
  | [], _, h, _ => absurd rfl h
  | [(t, v)], rest, _, h => by
    have := h (t, v) (by simp)
    simp [annotSegs, parseAnnot, this]
  | (t, v) :: x :: more, rest, _, h => by
    have := h (t, v) (by simp)
    have ih := parseAnnot_annotSegs (x :: more) rest (by simp) (fun tv htv => h tv (List.mem_cons_of_mem _ htv))
    simp [annotSegs, parseAnnot, this, ih]

theorem sortAnnot_sorted : ∀ (a : Annot), Chain (fun x y => ltText x.1 y.1) a = true → sortAnnot a = some a
  | [], _ => rfl
  | [tv], _ => rfl
  | tv :: x :: rest, h => by
    simp only [Chain, Bool.and_eq_true] at h
    have ih := sortAnnot_sorted (x :: rest) h.2
    rw [sortAnnot, ih]
    simp [insTag, h.1]

theorem sortGroups_sorted : ∀ (gs : List Group),
    Chain (fun x y => ltText (annotText x.annot) (annotText y.annot)) gs = true → sortGroups gs = gs
  | [], _ => rfl
  | [g], _ => rfl
  | g :: x :: rest, h => by
    simp only [Chain, Bool.and_eq_true] at h
    have ih := sortGroups_sorted (x :: rest) h.2
    rw [sortGroups, ih]
    simp [insGroup, h.1]

theorem showNat_isEmpty (n : Nat) : (showNat n).isEmpty = false := by
  cases h : showNat n with
  | nil => exact absurd h (showNat_ne_nil n)
  | cons _ _ => rfl

theorem parseCount_countWord {n : Nat} (h : 1 ≤ n) : parseCount (countWord n) = some n := by
  unfold countWord parseCount
  by_cases h1 : n = 1
  · simp [h1]
  · have h2 : 2 ≤ n := by omega
    simp [h1, showNat_isEmpty, canonNat_showNat, parseDigits_showNat, h2]

theorem parseGroups_spec : ∀ (gs : List Group) (fuel : Nat) (w : Text) (c : Char) (rest : List Seg),
    gs.length < fuel → (c = ',' ∨ c = '>') → (∀ g ∈ gs, Group.WF g = true) →
    parseGroups fuel (gs.flatMap groupSegs ++ (w, c) :: rest) = some (gs, w, c, rest)
  | [], 0, _, _, _, hf, _, _ => by simp at hf
  | [], f + 1, w, c, rest, _, hc, _ => by
    have h1 : c ≠ '{' := by rcases hc with rfl | rfl <;> decide
    simp [parseGroups, h1, hc]
  | g :: gs, 0, _, _, _, hf, _, _ => by simp at hf
  | g :: gs, f + 1, w, c, rest, hf, hc, hw => by
    have hg := Group.WF_all (hw g (by simp))
    obtain ⟨hne, hall, hch⟩ := Annot.WF_all hg.2
    have ih := parseGroups_spec gs f w c rest (by simpa using hf) hc (fun x hx => hw x (List.mem_cons_of_mem _ hx))
    have e1 := parseAnnot_annotSegs g.annot (gs.flatMap groupSegs ++ (w, c) :: rest) hne hall
    simp only [List.flatMap_cons, groupSegs, List.cons_append, List.append_assoc, parseGroups, if_true,
      parseCount_countWord hg.1, e1, sortAnnot_sorted _ hch, ih]

theorem parseMode_spec (m : Mode) (fuel : Nat) (c : Char) (rest : List Seg) (hf : m.groups.length < fuel)
    (hc : c = ',' ∨ c = '>') (hw : Mode.WF m = true) :
    parseMode fuel (modeSegs m c ++ rest) = some (m, c, rest) := by
  obtain ⟨hg, hch⟩ := Mode.WF_all hw
  have e := parseGroups_spec m.groups fuel (plainWord m) c rest hf hc hg
  unfold parseMode modeSegs
  rw [List.append_assoc, List.singleton_append, e]
  obtain ⟨gs, pl⟩ := m
  simp only at hch e ⊢
  cases gs with
  | nil => simp [plainWord, canonNat_showNat, parseDigits_showNat]
  | cons g t =>
    rw [sortGroups_sorted _ hch]
    by_cases h0 : pl = 0
    · simp [plainWord, h0]
    · have h1 : 1 ≤ pl := by omega
      simp [plainWord, h0, showNat_isEmpty, canonNat_showNat, parseDigits_showNat, h1]

theorem groups_le_modeSegs (m : Mode) (c : Char) : m.groups.length < (modeSegs m c).length := by
  unfold modeSegs
  rw [List.length_append, List.length_singleton]
  have : ∀ gs : List Group, gs.length ≤ (gs.flatMap groupSegs).length := by
    intro gs
    induction gs with
    | nil => simp
    | cons g t ih => simp only [List.flatMap_cons, List.length_append, List.length_cons, groupSegs]; omega
  have := this m.groups
  omega

theorem parseModes_spec : ∀ (ms : List Mode) (fuel : Nat), ms ≠ [] → (modesSegs ms).length < fuel →
    (∀ m ∈ ms, Mode.WF m = true) → parseModes fuel (modesSegs ms) = some ms
  | [], _, h, _, _ => absurd rfl h
  | _ :: _, 0, _, hf, _ => by simp at hf
  | [m], f + 1, _, hf, hw => by
    have hl := groups_le_modeSegs m '>'
    have e := parseMode_spec m (f + 1) '>' [] (by simp only [modesSegs] at hf; omega) (Or.inr rfl) (hw m (by simp))
    rw [List.append_nil] at e
    simp [modesSegs, parseModes, e]
  | m :: x :: rest, f + 1, _, hf, hw => by
    have hl := groups_le_modeSegs m ','
    simp only [modesSegs, List.length_append] at hf
    have e := parseMode_spec m (f + 1) ',' (modesSegs (x :: rest)) (by omega) (Or.inl rfl) (hw m (by simp))
    have ih := parseModes_spec (x :: rest) f (by simp) (by omega) (fun y hy => hw y (List.mem_cons_of_mem _ hy))
    have hne : (',' : Char) ≠ '>' := by decide
    simp [modesSegs, parseModes, e, ih, hne]

theorem modesSegs_ne_close : ∀ (ms : List Mode), ms ≠ [] → modesSegs ms ≠ [([], '>')]
  | [], h => absurd rfl h
  | [m], _ => by
    obtain ⟨gs, pl⟩ := m
    cases gs with
    | nil =>
      simp only [modesSegs, modeSegs, List.flatMap_nil, List.nil_append, plainWord, List.isEmpty_nil, if_true,
        ne_eq, List.cons.injEq, Prod.mk.injEq, and_true]
      exact showNat_ne_nil pl
    | cons g t =>
      intro h
      have := congrArg List.length h
      simp [modesSegs, modeSegs, groupSegs] at this
  | m :: x :: rest, _ => by
    intro h
    have h1 := groups_le_modeSegs m ','
    have h2 : 0 < (modesSegs (x :: rest)).length := by
      cases rest with
      | nil => have := groups_le_modeSegs x '>'; simp only [modesSegs]; omega
      | cons y r => have := groups_le_modeSegs x ','; simp only [modesSegs, List.length_append]; omega
    have := congrArg List.length h
    simp only [modesSegs, List.length_append, List.length_singleton] at this
    omega

/-- `BasicState(str(s))` is `s` -/
theorem decodeState_encodeState (s : FState) (h : FState.WF s = true) : decodeState (encodeState s) = some s := by
  unfold decodeState
  rw [segGo_stateSegs h]
  unfold stateSegs
  cases s with
  | nil => simp
  | cons m t =>
    have hne := modesSegs_ne_close (m :: t) (by simp)
    have e := parseModes_spec (m :: t) ((modesSegs (m :: t)).length + 1) (by simp) (by omega) (FState.WF_all h)
    simp [hne, e]

/-! ### split, join, dict assignment -/

theorem splitOn_no (c : Char) : ∀ (t : Text), c ∉ t → splitOn c t = [t]
  | [], _ => rfl
  | x :: xs, h => by
    have hx : x ≠ c := fun e => h (by simp [e])
    have ih := splitOn_no c xs (fun hm => h (List.mem_cons_of_mem _ hm))
    simp [splitOn, hx, ih]

theorem splitOn_append (c : Char) : ∀ (a b : Text), c ∉ a → splitOn c (a ++ c :: b) = a :: splitOn c b
  | [], b, _ => by simp [splitOn]
  | x :: xs, b, h => by
    have hx : x ≠ c := fun e => h (by simp [e])
    have ih := splitOn_append c xs b (fun hm => h (List.mem_cons_of_mem _ hm))
    simp [splitOn, hx, ih]

theorem splitOn_join (c : Char) : ∀ (parts : List Text), parts ≠ [] → (∀ p ∈ parts, c ∉ p) →
    splitOn c (joinWith c parts) = parts
  | [], h, _ => absurd rfl h
  | [p], _, h => by simpa [joinWith] using splitOn_no c p (h p (by simp))
  | p :: q :: rest, _, h => by
    have ih := splitOn_join c (q :: rest) (by simp) (fun x hx => h x (List.mem_cons_of_mem _ hx))
    show splitOn c (p ++ c :: joinWith c (q :: rest)) = _
    rw [splitOn_append c p _ (h p (by simp)), ih]

theorem splitPair_spec (c : Char) (a b : Text) (ha : c ∉ a) (hb : c ∉ b) :
    splitPair c (a ++ c :: b) = some (a, b) := by
  simp [splitPair, splitOn_append c a b ha, splitOn_no c b hb]

theorem assign_fresh {κ ν} [DecidableEq κ] (k : κ) (v : ν) :
    ∀ (l : List (κ × ν)), k ∉ l.map Prod.fst → assign k v l = l ++ [(k, v)]
  | [], _ => rfl
  | (k', v') :: t, h => by
    simp only [List.map_cons, List.mem_cons, not_or] at h
    have hne : k' ≠ k := fun e => h.1 e.symm
    simp [assign, hne, assign_fresh k v t h.2]

theorem assignAll_nodup {κ ν} [DecidableEq κ] :
    ∀ (l acc : List (κ × ν)), ((acc ++ l).map Prod.fst).Nodup → assignAll acc l = acc ++ l
  | [], acc, _ => by simp [assignAll]
  | (k, v) :: t, acc, h => by
    have hk : k ∉ acc.map Prod.fst := by
      simp only [List.map_append, List.map_cons] at h
      have := (List.nodup_append.1 h).2.2
      intro hm
      exact this k hm k (by simp) rfl
    rw [assignAll, assign_fresh k v acc hk]
    have h' : (((acc ++ [(k, v)]) ++ t).map Prod.fst).Nodup := by simpa using h
    rw [assignAll_nodup t (acc ++ [(k, v)]) h']
    simp

theorem unbrace_spec (inner : Text) : unbrace ('{' :: inner ++ ['}']) = some inner := by
  simp [unbrace]

/-- what one entry must satisfy: both texts decode, and neither contains `;` or `=` -/
def ItemOk {κ ν} (dk : Text → Option κ) (dv : Text → Option ν) (it : Text × Text) (o : κ × ν) : Prop :=
  dk it.1 = some o.1 ∧ dv it.2 = some o.2 ∧ ';' ∉ it.1 ∧ '=' ∉ it.1 ∧ ';' ∉ it.2 ∧ '=' ∉ it.2

theorem mapM_items {κ ν} (dk : Text → Option κ) (dv : Text → Option ν) :
    ∀ (items : List (Text × Text)) (out : List (κ × ν)), List.Forall₂ (ItemOk dk dv) items out →
      (items.map fun kv => kv.1 ++ '=' :: kv.2).mapM (decodeItem dk dv) = some out
  | [], [], _ => rfl
  | it :: items, o :: out, h => by
    rw [List.forall₂_cons] at h
    obtain ⟨⟨h1, h2, _, h4, _, h6⟩, hr⟩ := h
    have ih := mapM_items dk dv items out hr
    simp only [List.map_cons, List.mapM_cons, decodeItem, splitPair_spec '=' it.1 it.2 h4 h6, h1, h2, ih]
    rfl

theorem forall₂_left {α β} {R : α → β → Prop} : ∀ {l : List α} {m : List β}, List.Forall₂ R l m →
    ∀ a ∈ l, ∃ b, R a b
  | _, _, .nil, a, h => by simp at h
  | _, _, .cons hab hr, a, h => by
    rcases List.mem_cons.1 h with rfl | h
    · exact ⟨_, hab⟩
    · exact forall₂_left hr a h

theorem decodeDict_spec {κ ν} [DecidableEq κ] (dk : Text → Option κ) (dv : Text → Option ν)
    (items : List (Text × Text)) (out : List (κ × ν)) (h : List.Forall₂ (ItemOk dk dv) items out) :
    decodeDict dk dv (encodeDict items) = some (assignAll [] out) := by
  unfold decodeDict encodeDict
  rw [unbrace_spec]
  cases items with
  | nil =>
    cases h
    simp [joinWith, assignAll]
  | cons it rest =>
    have hne : (joinWith ';' ((it :: rest).map fun kv => kv.1 ++ '=' :: kv.2)).isEmpty = false := by
      cases rest <;> simp [joinWith]
    have hparts : ∀ p ∈ (it :: rest).map (fun kv => kv.1 ++ '=' :: kv.2), ';' ∉ p := by
      intro p hp
      obtain ⟨kv, hkv, rfl⟩ := List.mem_map.1 hp
      obtain ⟨o, ho⟩ := forall₂_left h kv hkv
      intro hm
      rcases List.mem_append.1 hm with hm | hm
      · exact ho.2.2.1 hm
      · rcases List.mem_cons.1 hm with hm | hm
        · exact absurd hm (by decide)
        · exact ho.2.2.2.2.1 hm
    dsimp only
    rw [hne, splitOn_join ';' _ (by simp) hparts, mapM_items dk dv _ out h]
    simp

/-! ### character classes keep the separators out -/

theorem not_mem_of_class {p : Char → Bool} {t : Text} (h : ∀ c ∈ t, p c = true) {d : Char} (hd : p d = false) :
    d ∉ t := by
  intro hm
  have := h d hm
  rw [hd] at this
  exact absurd this (by decide)

theorem showNat_class (n : Nat) : ∀ c ∈ showNat n, isDigit c = true := fun _ h => mem_showNat_isDigit h

/-! ### distributions -/

theorem forall₂_map_same {α β γ} {R : β → γ → Prop} (f : α → β) (g : α → γ) :
    ∀ (l : List α), (∀ a ∈ l, R (f a) (g a)) → List.Forall₂ R (l.map f) (l.map g)
  | [], _ => .nil
  | a :: t, h => .cons (h a (by simp)) (forall₂_map_same f g t (fun x hx => h x (List.mem_cons_of_mem _ hx)))

/-- `deserialize_bsdistribution ∘ serialize` on the payload: the states come back, every probability as the
decimal on the 1e-6 grid -/
theorem decodeBSD_encodeBSD (d : List (FState × Dbl)) (hw : ∀ e ∈ d, FState.WF e.1 = true)
    (hn : (d.map Prod.fst).Nodup) (hm : uniform (d.map (·.1.length)) = true) :
    decodeBSD (encodeBSD d) = some (d.map fun e => (e.1, gridVal e.2)) := by
  unfold decodeBSD encodeBSD
  have h := decodeDict_spec decodeState parseNum (d.map fun e => (encodeState e.1, renderNum (gnumOf e.2)))
    (d.map fun e => (e.1, gridVal e.2)) (forall₂_map_same _ _ d (fun e he => by
      have hc := encodeState_chars (hw e he)
      have hr := renderNum_chars (gnumOf e.2)
      exact ⟨decodeState_encodeState _ (hw e he), parseNum_renderNum _, not_mem_of_class hc (by decide),
        not_mem_of_class hc (by decide), not_mem_of_class hr (by decide), not_mem_of_class hr (by decide)⟩))
  rw [h, assignAll_nodup _ [] (by simpa [List.map_map, Function.comp_def] using hn)]
  simp only [List.nil_append, Option.bind_some, List.map_map, Function.comp_def]
  rw [if_pos hm]

/-- `deserialize_bscount ∘ serialize` on the payload -/
theorem decodeBSC_encodeBSC (d : List (FState × Nat)) (hw : ∀ e ∈ d, FState.WF e.1 = true)
    (hn : (d.map Prod.fst).Nodup) : decodeBSC (encodeBSC d) = some d := by
  unfold decodeBSC encodeBSC
  have h := decodeDict_spec decodeState parseNat? (d.map fun e => (encodeState e.1, showNat e.2))
    (d.map fun e => (e.1, e.2)) (forall₂_map_same _ _ d (fun e he => by
      have hc := encodeState_chars (hw e he)
      have hr := showNat_class e.2
      exact ⟨decodeState_encodeState _ (hw e he), parseNat?_showNat _, not_mem_of_class hc (by decide),
        not_mem_of_class hc (by decide), not_mem_of_class hr (by decide), not_mem_of_class hr (by decide)⟩))
  rw [h, assignAll_nodup _ [] (by simpa [List.map_map, Function.comp_def] using hn)]
  simp

/-! ### state vectors -/

theorem splitLastStar_none : ∀ (t : Text), ')' ∉ t → splitLastStar t = none
  | [], _ => rfl
  | c :: cs, h => by
    have hc : c ≠ ')' := fun e => h (by simp [e])
    have ih := splitLastStar_none cs (fun hm => h (List.mem_cons_of_mem _ hm))
    simp [splitLastStar, ih, hc]

theorem splitLastStar_append : ∀ (ab st : Text), ')' ∉ st →
    splitLastStar (ab ++ ')' :: '*' :: st) = some (ab, st)
  | [], st, h => by
    have : splitLastStar ('*' :: st) = none :=
      splitLastStar_none _ (by intro hm; rcases List.mem_cons.1 hm with e | e; exact absurd e (by decide); exact h e)
    show (match splitLastStar ('*' :: st) with
      | some (a, b) => some (')' :: a, b)
      | none => if ')' = ')' ∧ ('*' :: st).head? = some '*' then some ([], ('*' :: st).tail) else none) = _
    rw [this]; simp
  | c :: ab, st, h => by
    have ih := splitLastStar_append ab st h
    simp [splitLastStar, ih]

theorem splitLast_none (c : Char) : ∀ (t : Text), c ∉ t → splitLast c t = none
  | [], _ => rfl
  | x :: xs, h => by
    have hx : x ≠ c := fun e => h (by simp [e])
    have ih := splitLast_none c xs (fun hm => h (List.mem_cons_of_mem _ hm))
    simp [splitLast, ih, hx]

theorem splitLast_append (c : Char) : ∀ (a b : Text), c ∉ b → splitLast c (a ++ c :: b) = some (a, b)
  | [], b, h => by simp [splitLast, splitLast_none c b h]
  | x :: a, b, h => by simp [splitLast, splitLast_append c a b h]

/-- characters of one term / of a state vector -/
def termChar (c : Char) : Bool := numChar c || stChar c || c == '(' || c == ')' || c == '*'
def svChar (c : Char) : Bool := termChar c || c == '+'

theorem encodeTerm_chars (t : Term) (h : FState.WF t.2.2 = true) : ∀ c ∈ encodeTerm t, termChar c = true := by
  intro c hc
  unfold encodeTerm at hc
  simp only [List.mem_cons, List.mem_append] at hc
  unfold termChar
  rcases hc with rfl | (hc | rfl | hc) | rfl | rfl | hc
  · decide
  · simp [renderNum_chars _ c hc]
  · decide
  · simp [renderNum_chars _ c hc]
  · decide
  · decide
  · simp [encodeState_chars h c hc]

theorem decodeTerm_encodeTerm (t : Term) (h : FState.WF t.2.2 = true) :
    decodeTerm (encodeTerm t) = some (roundTerm t) := by
  have hs := encodeState_chars h
  have h1 : ')' ∉ encodeState t.2.2 := not_mem_of_class hs (by decide)
  have h2 : ',' ∉ renderNum (gnumOf t.2.1) := not_mem_of_class (renderNum_chars _) (by decide)
  have e1 : matchTerm (encodeTerm t)
      = some (renderNum (gnumOf t.1), renderNum (gnumOf t.2.1), encodeState t.2.2) := by
    unfold matchTerm encodeTerm
    simp only [splitLastStar_append _ _ h1, splitLast_append ',' _ _ h2]
  unfold decodeTerm
  rw [e1]
  simp only [parseNum_renderNum, decodeState_encodeState _ h]
  rfl

theorem mapM_terms : ∀ (sv : List Term), (∀ t ∈ sv, FState.WF t.2.2 = true) →
    (sv.map encodeTerm).mapM decodeTerm = some (sv.map roundTerm)
  | [], _ => rfl
  | t :: rest, h => by
    have ih := mapM_terms rest (fun x hx => h x (List.mem_cons_of_mem _ hx))
    simp only [List.map_cons, List.mapM_cons, decodeTerm_encodeTerm t (h t (by simp)), ih]
    rfl

/-- `deserialize_statevector ∘ serialize_statevector`: the terms in writing order, every amplitude as the decimal
on the grid -/
theorem decodeSV_encodeSV (sv : List Term) (hne : sv ≠ []) (hw : ∀ t ∈ sv, FState.WF t.2.2 = true)
    (hm : uniform (sv.map (·.2.2.length)) = true) :
    decodeSV (encodeSV sv) = some (sv.map roundTerm) := by
  unfold decodeSV encodeSV
  have hp : ∀ p ∈ sv.map encodeTerm, '+' ∉ p := by
    intro p hp
    obtain ⟨t, ht, rfl⟩ := List.mem_map.1 hp
    exact not_mem_of_class (encodeTerm_chars t (hw t ht)) (by decide)
  rw [splitOn_join '+' _ (by simpa using hne) hp, mapM_terms sv hw]
  simp only [Option.bind_some, List.map_map, Function.comp_def, roundTerm]
  rw [if_pos hm]

theorem joinWith_chars {p : Char → Bool} {c : Char} (hc : p c = true) :
    ∀ (parts : List Text), (∀ q ∈ parts, ∀ x ∈ q, p x = true) → ∀ x ∈ joinWith c parts, p x = true
  | [], _, x, hx => by simp [joinWith] at hx
  | [q], h, x, hx => h q (by simp) x (by simpa [joinWith] using hx)
  | q :: r :: rest, h, x, hx => by
    have ih := joinWith_chars hc (r :: rest) (fun y hy => h y (List.mem_cons_of_mem _ hy))
    have hx' : x ∈ q ++ c :: joinWith c (r :: rest) := hx
    rcases List.mem_append.1 hx' with hx' | hx'
    · exact h q (by simp) x hx'
    · rcases List.mem_cons.1 hx' with rfl | hx'
      · exact hc
      · exact ih x hx'

theorem encodeSV_chars (sv : List Term) (hw : ∀ t ∈ sv, FState.WF t.2.2 = true) :
    ∀ c ∈ encodeSV sv, svChar c = true := by
  unfold encodeSV
  refine joinWith_chars (p := svChar) (by decide) _ ?_
  intro q hq x hx
  obtain ⟨t, ht, rfl⟩ := List.mem_map.1 hq
  simp [svChar, encodeTerm_chars t (hw t ht) x hx]

/-- `deserialize_svdistribution ∘ serialize` on the payload -/
theorem decodeSVD_encodeSVD (d : List (List Term × Dbl)) (hne : ∀ e ∈ d, e.1 ≠ [])
    (hw : ∀ e ∈ d, ∀ t ∈ e.1, FState.WF t.2.2 = true)
    (hm : ∀ e ∈ d, uniform (e.1.map (·.2.2.length)) = true) (hmm : uniform (d.map (svModes ·.1)) = true)
    (hn : (d.map fun e => e.1.map roundTerm).Nodup) :
    decodeSVD (encodeSVD d) = some (d.map fun e => (e.1.map roundTerm, gridVal e.2)) := by
  unfold decodeSVD encodeSVD
  have h := decodeDict_spec decodeSV parseNum (d.map fun e => (encodeSV e.1, renderNum (gnumOf e.2)))
    (d.map fun e => (e.1.map roundTerm, gridVal e.2)) (forall₂_map_same _ _ d (fun e he => by
      have hc := encodeSV_chars e.1 (hw e he)
      have hr := renderNum_chars (gnumOf e.2)
      exact ⟨decodeSV_encodeSV _ (hne e he) (hw e he) (hm e he), parseNum_renderNum _,
        not_mem_of_class hc (by decide),
        not_mem_of_class hc (by decide), not_mem_of_class hr (by decide), not_mem_of_class hr (by decide)⟩))
  rw [h, assignAll_nodup _ [] (by simpa [List.map_map, Function.comp_def] using hn)]
  have hsv : ∀ sv : List Term, svModes (sv.map roundTerm) = svModes sv := by
    intro sv; cases sv <;> simp [svModes, roundTerm]
  simp only [List.nil_append, Option.bind_some, List.map_map, Function.comp_def, hsv]
  rw [if_pos hmm]

/-! ### sample lists: the text layer -/

theorem mapM_states : ∀ (l : List FState), (∀ s ∈ l, FState.WF s = true) →
    (l.map encodeState).mapM decodeState = some l
  | [], _ => rfl
  | s :: rest, h => by
    have ih := mapM_states rest (fun x hx => h x (List.mem_cons_of_mem _ hx))
    simp only [List.map_cons, List.mapM_cons, decodeState_encodeState s (h s (by simp)), ih]
    rfl

theorem mapM_nats : ∀ (l : List Nat), (l.map showNat).mapM parseNat? = some l
  | [] => rfl
  | n :: rest => by
    simp only [List.map_cons, List.mapM_cons, parseNat?_showNat, mapM_nats rest]
    rfl

theorem encodeState_ne_nil (s : FState) : encodeState s ≠ [] := by
  show renderSegs (([], '|') :: _) ≠ []
  simp [renderSegs, List.flatMap_cons]

theorem joinWith_isEmpty (c : Char) : ∀ (parts : List Text), parts ≠ [] → parts.head? ≠ some [] →
    (joinWith c parts).isEmpty = false
  | [], h, _ => absurd rfl h
  | [p], _, h => by
    cases p with
    | nil => simp at h
    | cons _ _ => rfl
  | p :: q :: rest, _, h => by
    cases p with
    | nil => simp at h
    | cons _ _ => rfl

theorem decodeBSSText_spec (d : List FState) (o : List Nat) (hd : d ≠ []) (ho : o ≠ [])
    (hw : ∀ s ∈ d, FState.WF s = true) : decodeBSSText (encodeBSSText (d, o)) = some (d, o) := by
  unfold decodeBSSText encodeBSSText
  have hst : ∀ x ∈ joinWith ';' (d.map encodeState), (fun c => stChar c || c == ';') x = true := by
    refine joinWith_chars (by decide) _ ?_
    intro q hq x hx
    obtain ⟨s, hs, rfl⟩ := List.mem_map.1 hq
    simp [encodeState_chars (hw s hs) x hx]
  have hor : ∀ x ∈ joinWith ';' (o.map showNat), (fun c => isDigit c || c == ';') x = true := by
    refine joinWith_chars (by decide) _ ?_
    intro q hq x hx
    obtain ⟨n, _, rfl⟩ := List.mem_map.1 hq
    simp [mem_showNat_isDigit hx]
  have h1 : '/' ∉ joinWith ';' (d.map encodeState) := not_mem_of_class hst (by decide)
  have h2 : '/' ∉ joinWith ';' (o.map showNat) := not_mem_of_class hor (by decide)
  have hp1 : ∀ p ∈ d.map encodeState, ';' ∉ p := by
    intro p hp
    obtain ⟨s, hs, rfl⟩ := List.mem_map.1 hp
    exact not_mem_of_class (encodeState_chars (hw s hs)) (by decide)
  have hp2 : ∀ p ∈ o.map showNat, ';' ∉ p := by
    intro p hp
    obtain ⟨n, _, rfl⟩ := List.mem_map.1 hp
    exact not_mem_of_class (showNat_class n) (by decide)
  have hemp : (joinWith ';' (d.map encodeState)).isEmpty = false := by
    refine joinWith_isEmpty ';' _ (by simpa using hd) ?_
    cases d with
    | nil => exact absurd rfl hd
    | cons s t => simpa using encodeState_ne_nil s
  simp only [splitOn_append '/' _ _ h1, splitOn_no '/' _ h2, hemp, Bool.false_eq_true, if_false,
    splitOn_join ';' _ (by simpa using hd) hp1, splitOn_join ';' _ (by simpa using ho) hp2,
    mapM_states d hw, mapM_nats o]

theorem bssGo_mem {σ} [DecidableEq σ] : ∀ (l dict : List σ), ∀ x ∈ (PM.C15.bssGo dict l).1, x ∈ dict ∨ x ∈ l
  | [], dict, x, hx => Or.inl (by simpa [PM.C15.bssGo] using hx)
  | s :: rest, dict, x, hx => by
    by_cases hs : s ∈ dict
    · simp only [PM.C15.bssGo, hs, if_true] at hx
      rcases bssGo_mem rest dict x hx with h | h
      · exact Or.inl h
      · exact Or.inr (List.mem_cons_of_mem _ h)
    · simp only [PM.C15.bssGo, hs, if_false] at hx
      rcases bssGo_mem rest (dict ++ [s]) x hx with h | h
      · rcases List.mem_append.1 h with h | h
        · exact Or.inl h
        · exact Or.inr (by simp at h; simp [h])
      · exact Or.inr (List.mem_cons_of_mem _ h)

theorem bssGo_length {σ} [DecidableEq σ] : ∀ (l dict : List σ), (PM.C15.bssGo dict l).2.length = l.length
  | [], _ => rfl
  | s :: rest, dict => by
    by_cases hs : s ∈ dict
    · simp [PM.C15.bssGo, hs, bssGo_length rest dict]
    · simp [PM.C15.bssGo, hs, bssGo_length rest (dict ++ [s])]

/-- the text layer of the sample list is transparent for what `serialize_bssamples` hands it -/
theorem decodeBSSText_encode (l : List FState) (hw : ∀ s ∈ l, FState.WF s = true) :
    decodeBSSText (encodeBSSText (PM.C15.bssEncode l)) = some (PM.C15.bssEncode l) := by
  cases l with
  | nil => rfl
  | cons s rest =>
    obtain ⟨ext, e1, _, e3⟩ := PM.C15.bssGo_spec (s :: rest) []
    have hd : (PM.C15.bssEncode (s :: rest)).1 ≠ [] := by
      unfold PM.C15.bssEncode; rw [e1]; exact e3 (by simp)
    have ho : (PM.C15.bssEncode (s :: rest)).2 ≠ [] := by
      intro h
      have := bssGo_length (s :: rest) ([] : List FState)
      unfold PM.C15.bssEncode at h
      rw [h] at this
      simp at this
    have hwd : ∀ x ∈ (PM.C15.bssEncode (s :: rest)).1, FState.WF x = true := by
      intro x hx
      rcases bssGo_mem (s :: rest) [] x hx with h | h
      · simp at h
      · exact hw x h
    exact decodeBSSText_spec _ _ hd ho hwd

/-! ### the decimal of the text is within half a unit of the last digit kept -/

theorem gridVal_error (v : ℚ) :
    |gridVal v - v| ≤ 1 / (2 * (10 : ℚ) ^ (6 + gridExp v.num.natAbs v.den)) := by
  have hd : 0 < v.den := v.den_pos
  obtain ⟨h1, h2⟩ := roundHalfEven_err (v.num.natAbs * 10 ^ (6 + gridExp v.num.natAbs v.den)) v.den hd
  have hD : (0 : ℚ) < v.den := by exact_mod_cast hd
  have hP : (0 : ℚ) < (10 : ℚ) ^ (6 + gridExp v.num.natAbs v.den) := by positivity
  have c1 : 2 * ((gridNum v.num.natAbs v.den : ℚ) * v.den)
      ≤ 2 * ((v.num.natAbs : ℚ) * (10 : ℚ) ^ (6 + gridExp v.num.natAbs v.den)) + v.den := by
    have := h1; unfold gridNum; exact_mod_cast this
  have c2 : 2 * ((v.num.natAbs : ℚ) * (10 : ℚ) ^ (6 + gridExp v.num.natAbs v.den))
      ≤ 2 * ((gridNum v.num.natAbs v.den : ℚ) * v.den) + v.den := by
    have := h2; unfold gridNum; exact_mod_cast this
  have hv : v = (v.num : ℚ) / v.den := (Rat.num_div_den v).symm
  unfold gridVal gnumOf GNum.toRat
  simp only
  generalize hK : (gridNum v.num.natAbs v.den : ℚ) = K at c1 c2 ⊢
  generalize hPP : (10 : ℚ) ^ (6 + gridExp v.num.natAbs v.den) = P at c1 c2 hP ⊢
  by_cases hneg : v < 0
  · have hnum : (v.num : ℚ) = -(v.num.natAbs : ℚ) := by
      have : v.num < 0 := Rat.num_neg.2 hneg
      have h3 : (v.num.natAbs : ℤ) = -v.num := by omega
      have : (v.num : ℚ) = -((v.num.natAbs : ℤ) : ℚ) := by rw [h3]; push_cast; ring
      simpa using this
    simp only [hneg, decide_true, if_true]
    rw [abs_le]
    have e : -1 * K / P - v = (v.num.natAbs * P - K * v.den) / (P * v.den) := by
      conv_lhs => rw [hv, hnum]
      field_simp
      ring
    rw [e, le_div_iff₀ (by positivity), div_le_iff₀ (by positivity)]
    constructor
    · have : -(1 / (2 * P)) * (P * ↑v.den) = -(v.den : ℚ) / 2 := by field_simp
      rw [this]; linarith
    · have : 1 / (2 * P) * (P * ↑v.den) = (v.den : ℚ) / 2 := by field_simp
      rw [this]; linarith
  · have hnum : (v.num : ℚ) = (v.num.natAbs : ℚ) := by
      have : 0 ≤ v.num := Rat.num_nonneg.2 (not_lt.1 hneg)
      have h3 : (v.num.natAbs : ℤ) = v.num := by omega
      have : (v.num : ℚ) = ((v.num.natAbs : ℤ) : ℚ) := by rw [h3]
      simpa using this
    simp only [hneg, decide_false, Bool.false_eq_true, if_false]
    rw [abs_le]
    have e : 1 * K / P - v = (K * v.den - v.num.natAbs * P) / (P * v.den) := by
      conv_lhs => rw [hv, hnum]
      field_simp
    rw [e, le_div_iff₀ (by positivity), div_le_iff₀ (by positivity)]
    constructor
    · have : -(1 / (2 * P)) * (P * ↑v.den) = -(v.den : ℚ) / 2 := by field_simp
      rw [this]; linarith
    · have : 1 / (2 * P) * (P * ↑v.den) = (v.den : ℚ) / 2 := by field_simp
      rw [this]; linarith

end PM.C15.Txt
