/-
  C09 (extension, round 5) — lemmas about the `Sampler` job glue of `Model/C09Job.lean`.
-/
import PercevalModel.Model.C09Job

namespace PM.C09

theorem primitiveOf_mem (avail : List Cmd) (m p : Cmd) (h : primitiveOf avail m = some p) :
    p ∈ avail ∧ (m ∈ avail → p = m) := by
  unfold primitiveOf at h
  by_cases hm : avail.contains m = true
  · simp only [hm, ↓reduceIte, Option.some.injEq] at h
    subst h
    exact ⟨by simpa using hm, fun _ => rfl⟩
  · simp only [hm] at h
    have := List.find?_some h
    refine ⟨by simpa using this, fun hin => ?_⟩
    exact absurd (by simpa using hin) hm

theorem primitiveOf_none (avail : List Cmd) (m : Cmd) : primitiveOf avail m = none ↔ avail = [] := by
  constructor
  · intro h
    unfold primitiveOf at h
    by_cases hm : avail.contains m = true
    · rw [if_pos hm] at h; cases h
    · rw [if_neg hm] at h
      rw [List.find?_eq_none] at h
      cases avail with
      | nil => rfl
      | cons a t =>
        exfalso
        have ha : a ∈ a :: t := List.mem_cons_self
        cases m <;> cases a <;> simp_all [fallbackOrder]
  · intro h; subst h; cases m <;> rfl

/-- the count deduced from the converter's keywords never exceeds a limit that is given -/
theorem deduceCount_le (sh ms : Option Nat) (n : Nat) (h : deduceCount none sh ms = .ok n) :
    (∀ s, sh = some s → n ≤ s) ∧ (∀ m, ms = some m → n ≤ m) := by
  unfold deduceCount at h
  cases sh with
  | none =>
    cases ms with
    | none => simp [pyOr] at h
    | some m =>
      cases m <;> simp [pyOr] at h <;> subst h <;> simp
  | some s =>
    cases ms with
    | none =>
      cases s <;> simp [pyOr] at h
      subst h; simp
    | some m =>
      simp at h
      subst h
      exact ⟨fun s' hs => by cases hs; exact Nat.min_le_right _ _, fun m' hm => by cases hm; exact Nat.min_le_left _ _⟩

theorem popSurplus_mapSh (d : Delta) (args : List (Option Nat)) : (popSurplus d args).2.mapSh = d.mapSh := by
  unfold popSurplus; split <;> split <;> rfl

theorem popSurplus_cmdMs (d : Delta) (args : List (Option Nat)) : (popSurplus d args).2.cmdMs = d.cmdMs := by
  unfold popSurplus; split <;> split <;> rfl

theorem popSurplus_takesMs (d : Delta) (args : List (Option Nat)) : (popSurplus d args).2.takesMs = d.takesMs := by
  unfold popSurplus; split <;> split <;> rfl

theorem bindPositional_mapSh (d d' : Delta) (args : List (Option Nat)) (kw : Kw)
    (h : bindPositional d args kw = .ok d') : d'.mapSh = d.mapSh ∧ d'.mapMs = d.mapMs := by
  unfold bindPositional at h
  split at h
  · cases h; exact ⟨rfl, rfl⟩
  · split at h
    · cases h
    · split at h
      · cases h
      · split at h
        · cases h
        · cases h; exact ⟨rfl, rfl⟩

theorem fillCmdMs_mapSh (r : Delta × Kw) : (fillCmdMs r).1.mapSh = r.1.mapSh := by
  unfold fillCmdMs; split <;> rfl

theorem fillMapMs_mapSh (r : Delta × Kw) : (fillMapMs r).1.mapSh = r.1.mapSh := by
  unfold fillMapMs; split <;> rfl

theorem fillMapSh_mapSh (r : Delta × Kw) :
    (∀ s, r.1.mapSh = some (some s) → (fillMapSh r).1.mapSh = some (some s)) ∧
    (r.1.mapSh = none → (fillMapSh r).1.mapSh = none) := by
  unfold fillMapSh
  constructor
  · intro s hs
    split
    · rename_i h1 _; rw [hs] at h1; cases h1
    · exact hs
  · intro hs
    split
    · rename_i h1 _; rw [hs] at h1; cases h1
    · exact hs

theorem fillKw_mapSh (d : Delta) (kw : Kw) :
    (∀ s, d.mapSh = some (some s) → (fillKw d kw).1.mapSh = some (some s)) ∧
    (d.mapSh = none → (fillKw d kw).1.mapSh = none) := by
  unfold fillKw
  have h := fillMapSh_mapSh (fillMapMs (fillCmdMs (d, kw)))
  rw [fillMapMs_mapSh, fillCmdMs_mapSh] at h
  exact h

/-- `_handle_params` never touches a `max_shots` entry of the mapping that already holds a number, and never
creates one -/
theorem handleParams_mapSh (d d' : Delta) (args : List (Option Nat)) (kw : Kw) (h : handleParams d args kw = .ok d') :
    (∀ s, d.mapSh = some (some s) → d'.mapSh = some (some s)) ∧ (d.mapSh = none → d'.mapSh = none) := by
  unfold handleParams at h
  split at h
  · cases h
  · rename_i d1 hb
    have hb' := (bindPositional_mapSh _ _ _ _ hb).1
    rw [popSurplus_mapSh] at hb'
    simp only at h
    split at h
    · cases h
    · cases h
      have := fillKw_mapSh d1 kw
      rw [hb'] at this
      exact this

theorem convKwargs_none (d : Delta) : convKwargs d none none = (d.mapMs, d.mapSh) := by
  unfold convKwargs
  cases d.mapMs <;> cases d.mapSh <;> rfl

theorem jobPlan_keeps_max_shots (avail : List Cmd) (method : Cmd) (c : SCfg)
    (args : List (Option Nat)) (kw : Kw) (pl : Plan) (h : jobPlan avail method c [] args kw = .ok pl) :
    (pl.prim = .samples → ∃ ms, pl.call = some (.samples ms c.maxShots)) ∧
    (pl.prim = .probs → pl.call = some (.probs c.maxShots)) ∧
    (∀ s, c.maxShots = some s → method ≠ .probs → pl.prim = .probs →
      ∀ kv ∈ pl.conv, ∀ n, convertedCount kv = .ok n → n ≤ s) := by
  unfold jobPlan at h
  split at h
  · cases h
  · rename_i prim hp
    split at h
    · cases h
    · rename_i hsc
      split at h
      · cases h
      · rename_i d hd
        simp only [List.isEmpty_nil, ↓reduceIte] at h
        split at h
        · cases h
        · rename_i call hc
          cases h
          refine ⟨?_, ?_, ?_⟩
          · intro hs
            simp only at hs
            subst hs
            unfold wrapperCall at hc
            simp only at hc
            split at hc
            · cases hc
            · cases hc; exact ⟨_, rfl⟩
          · intro hs
            simp only at hs
            subst hs
            unfold wrapperCall at hc
            cases hc; rfl
          · intro s hS hm hs kv hkv n hn
            simp only at hs
            subst hs
            have hne : (Cmd.probs ≠ method) := fun e => hm e.symm
            simp only [hne, ne_eq, not_false_eq_true, decide_true, ↓reduceIte, List.mem_singleton] at hkv
            subst hkv
            rw [convKwargs_none] at hn
            have hcd : (createDelta method .probs c.maxShots).mapSh = some (some s) := by
              cases method <;> simp_all [createDelta, Cmd.isProbs]
            have := (handleParams_mapSh _ _ _ _ hd).1 s hcd
            unfold convertedCount at hn
            simp only [this, Option.join] at hn
            exact (deduceCount_le _ _ _ hn).1 s rfl

theorem fillKw_noop (d : Delta) (kw : Kw) (h1 : d.cmdMs ≠ some none) (h2 : d.mapMs ≠ some none)
    (h3 : d.mapSh ≠ some none) : fillKw d kw = (d, kw) := by
  have a : fillCmdMs (d, kw) = (d, kw) := by
    unfold fillCmdMs; split
    · rename_i hh _; exact absurd hh h1
    · rfl
  have b : fillMapMs (d, kw) = (d, kw) := by
    unfold fillMapMs; split
    · rename_i hh _; exact absurd hh h2
    · rfl
  have c : fillMapSh (d, kw) = (d, kw) := by
    unfold fillMapSh; split
    · rename_i hh _; exact absurd hh h3
    · rfl
  unfold fillKw; rw [a, b, c]

theorem popSurplus_nil (d : Delta) : popSurplus d [] = ([], d) := by
  unfold popSurplus
  simp

theorem jobPlan_probs_from_samples (avail : List Cmd) (c : SCfg) (kw : Kw) (pl : Plan)
    (hp : primitiveOf avail .probs = some .samples)
    (h : jobPlan avail .probs c [] [] kw = .ok pl) :
    pl.call = some (.samples probsSimuCount c.maxShots) ∧ pl.conv = [(none, none)] := by
  unfold jobPlan at h
  rw [hp] at h
  have hd : handleParams (createDelta .probs .samples c.maxShots) [] kw =
      if kw.ms.isSome || kw.sh.isSome || kw.other then .error "RuntimeError"
      else .ok ⟨true, some (some probsSimuCount), none, none⟩ := by
    unfold handleParams
    rw [popSurplus_nil]
    simp only [bindPositional]
    rw [fillKw_noop _ _ (by simp [createDelta, Cmd.isProbs]) (by simp [createDelta, Cmd.isProbs])
      (by simp [createDelta, Cmd.isProbs])]
    rfl
  simp only [reduceCtorEq, ↓reduceIte] at h
  rw [hd] at h
  split at h
  · cases h
  · rename_i d hd'
    split at hd'
    · cases hd'
    · cases hd'
      simp only [List.isEmpty_nil, ↓reduceIte, wrapperCall, Option.join, ne_eq, reduceCtorEq, not_false_eq_true,
        decide_true, convKwargs, Option.map_none] at h
      cases h
      exact ⟨rfl, rfl⟩
end PM.C09
