/-
  C06 — closed multinomial formula for the joint law of (photons with the common tag, photons with a fresh tag)
  of `N` requested photons: the `N`-th power of the six-term one-photon generating function expanded with the
  multinomial theorem (`Finset.sum_pow_eq_sum_piAntidiag`), coefficients extracted with `law_of_gf2`.
-/
import PercevalModel.Lemmas.C06SampF
import Mathlib.Data.Nat.Choose.Multinomial
set_option linter.unusedSimpArgs false
namespace PM.C06

/-- the six outcomes (common-tag photons, fresh-tag photons) of one requested photon -/
def six : Finset (ℕ × ℕ) := {(0, 0), (1, 0), (0, 1), (2, 0), (1, 1), (0, 2)}

/-- their probabilities (`tag_class_one`): `p0`; `r(p1to1 + p2to1)` (+ `p2to1` "indistinguishable");
`(1−r)(p1to1 + p2to1)` (+ `p2to1` "distinguishable"); `r·p2to2` ("indistinguishable"); `r·p2to2` or
`(1−r)·p2to2`; `(1−r)·p2to2` ("distinguishable") -/
def sixP (P : Params) : ℕ × ℕ → ℚ
  | (0, 0) => p0 P
  | (1, 0) => P.r * (p11 P + p21 P) + (if P.dm then 0 else p21 P)
  | (0, 1) => (1 - P.r) * (p11 P + p21 P) + (if P.dm then p21 P else 0)
  | (2, 0) => if P.dm then 0 else P.r * p22 P
  | (1, 1) => if P.dm then P.r * p22 P else (1 - P.r) * p22 P
  | (0, 2) => if P.dm then (1 - P.r) * p22 P else 0
  | _ => 0

theorem tagGF_six (P : Params) (a b : ℚ) :
    tagGF P a b = ∑ c ∈ six, sixP P c * (a ^ c.1 * b ^ c.2) := by
  simp only [six]
  rw [Finset.sum_insert (by decide), Finset.sum_insert (by decide), Finset.sum_insert (by decide),
    Finset.sum_insert (by decide), Finset.sum_insert (by decide), Finset.sum_singleton]
  simp only [sixP, tagGF, sigS, p0, p11, p21, p22, p1]
  split <;> ring

/-- how many of the `N` requested photons give each of the six outcomes ↦ the total numbers of photons of
the two classes -/
def sixTotals (k : ℕ × ℕ → ℕ) : ℕ × ℕ := (∑ c ∈ six, k c * c.1, ∑ c ∈ six, k c * c.2)

/-- the multinomial probability of the occupation numbers `k` -/
def sixWeight (P : Params) (k : ℕ × ℕ → ℕ) : ℚ := (Nat.multinomial six k : ℚ) * ∏ c ∈ six, sixP P c ^ k c

/-- the reference law as a list distribution -/
noncomputable def sixRef (P : Params) (N : ℕ) : Dist (ℕ × ℕ) :=
  (Finset.piAntidiag six N).toList.map fun k => (sixTotals k, sixWeight P k)

theorem E_sixRef (P : Params) (N : ℕ) (g : ℕ × ℕ → ℚ) :
    E g (sixRef P N) = ∑ k ∈ Finset.piAntidiag six N, sixWeight P k * g (sixTotals k) := by
  unfold sixRef E
  rw [List.map_map, ← Finset.sum_map_toList]
  rfl

theorem sixRef_gf (P : Params) (N : ℕ) (a b : ℚ) :
    E (fun x => a ^ x.1 * b ^ x.2) (sixRef P N) = tagGF P a b ^ N := by
  rw [E_sixRef, tagGF_six, Finset.sum_pow_eq_sum_piAntidiag]
  refine Finset.sum_congr rfl fun k _ => ?_
  unfold sixWeight sixTotals
  simp only [mul_pow, Finset.prod_mul_distrib, ← pow_mul, Finset.prod_pow_eq_pow_sum]
  simp only [mul_comm (k _)]
  ring

end PM.C06
