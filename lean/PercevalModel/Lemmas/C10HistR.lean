/-
  C10 (extension 5) — helper lemmas for `Model/C10HistR.lean`: the herald counter `_n_heralds` against the herald
  ports of `_out_ports` along a history, and `RightWF` of `Exp.side` from the bookkeeping invariant.
-/
import PercevalModel.Model.C10HistR
import PercevalModel.Lemmas.C10Hist

namespace PM.C10

theorem rightWFb_iff (r : Side) : rightWFb r = true ↔ RightWF r := by
  unfold rightWFb RightWF
  cases hr : r.comp with
  | true => simp
  | false =>
    simp only [Bool.false_or, Bool.and_eq_true, decide_eq_true_eq, List.all_eq_true, forall_const]
    constructor
    · rintro ⟨⟨h1, h2⟩, h3⟩; exact ⟨h1, h2, h3⟩
    · rintro ⟨h1, h2, h3⟩; exact ⟨⟨h1, h2⟩, h3⟩

/-- the counter against the list: `_n_heralds` is the number of herald ports on the output side -/
def HerCount (e : Exp) : Prop := e.nher = (heraldsOf e.outp).length

/-! ### `remove_port` of a port that is not a herald keeps `heralds` -/

theorem heraldsOf_removeFirst {ports out : List Port} {m : Nat}
    (h : removeFirst ports m = some out)
    (hk : ((portAt ports m).map (·.herald)).getD false = false) : heraldsOf out = heraldsOf ports := by
  induction ports generalizing out with
  | nil => simp [removeFirst] at h
  | cons p ps ih =>
    by_cases hp : (decide (p.start ≤ m) && decide (m < p.start + p.size)) = true
    · have hout : out = ps := by
        unfold removeFirst at h
        simp only [List.findIdx?_cons, hp, if_true] at h
        simpa using h.symm
      have hh : p.herald = false := by
        simpa [portAt, List.find?_cons, hp] using hk
      subst hout
      simp [heraldsOf, List.filter_cons, hh]
    · have hp' : (decide (p.start ≤ m) && decide (m < p.start + p.size)) = false := by simpa using hp
      have hk' : ((portAt ps m).map (·.herald)).getD false = false := by
        simpa [portAt, List.find?_cons, hp'] using hk
      cases hr : removeFirst ps m with
      | none =>
        unfold removeFirst at h hr
        simp only [List.findIdx?_cons, hp'] at h
        split at hr
        · rename_i hn; simp [hn] at h
        · cases hr
      | some out' =>
        have hout : out = p :: out' := by
          unfold removeFirst at h hr
          simp only [List.findIdx?_cons, hp'] at h
          split at hr
          · cases hr
          · rename_i i hi
            cases hr
            simp [hi] at h
            exact h.symm
        subst hout
        have := ih hr hk'
        simp only [heraldsOf, List.filter_cons] at this ⊢
        split_ifs <;> simp [this]

theorem removePort_count (e e' : Exp) (m : Nat) (loc : Loc) (hc : HerCount e)
    (hk : (HOp.rmport m loc).keepsHeraldOut e = true)
    (h : removePort e m loc = .ok e') : HerCount e' := by
  unfold removePort at h
  split at h
  · cases h
  · split at h
    · cases h
    · rename_i outp houtp
      cases h
      show e.nher = (heraldsOf outp).length
      rw [hc]
      by_cases hl : loc.hasOut = true
      · rw [if_pos hl] at houtp
        have hk' : ((portAt e.outp m).map (·.herald)).getD false = false := by
          simpa [HOp.keepsHeraldOut, hl] using hk
        rw [heraldsOf_removeFirst houtp hk']
      · rw [if_neg hl] at houtp
        cases houtp; rfl

theorem addHerald_count (e e' : Exp) (mode expected : Nat) (name : Option String) (hc : HerCount e)
    (h : addHerald e mode expected name = .ok e') : HerCount e' := by
  unfold addHerald at h
  split_ifs at h
  cases h
  show e.nher + 1 = (heraldsOf (e.outp ++ [(⟨mode, 1, name.getD "herald#", true, expected, name⟩ : Port)])).length
  rw [heraldsOf_append, heraldsOf_single_herald _ rfl, hc]
  simp

theorem addPort_count (e e' : Exp) (mode size : Nat) (name : String) (loc : Loc) (hc : HerCount e)
    (h : addPort e mode size name loc = .ok e') : HerCount e' := by
  unfold addPort at h
  split_ifs at h
  cases h
  show e.nher = (heraldsOf (appIf loc.hasOut e.outp ⟨mode, size, name, false, 0, none⟩)).length
  rw [heraldsOf_appIf _ _ _ rfl, hc]

theorem defaultM_count (e e' : Exp) (value : Except HErr Int) (hc : HerCount e)
    (h : defaultM true e value = .ok e') : HerCount e' ∧ e'.nher = e.nher := by
  unfold defaultM at h
  cases value with
  | error x =>
    simp only at h
    split_ifs at h
    cases h; exact ⟨hc, rfl⟩
  | ok v =>
    simp only at h
    split_ifs at h
    · cases h; exact ⟨hc, rfl⟩
    · cases h; exact ⟨hc, rfl⟩

theorem addDet_count (e e' : Exp) (mode : Nat) (name : String) (hc : HerCount e)
    (h : addDet true e mode name = .ok e') : HerCount e' := by
  unfold addDet at h
  split at h
  · cases h
  · rename_i e1 h1
    obtain ⟨hc1, -⟩ := defaultM_count e e1 _ hc h1
    split at h
    · cases h
    · cases h
    · split_ifs at h
      cases h
      exact hc1

/-! ### `RightWF` of `Exp.side` -/

/-- herald ports of non-overlapping port lists sit on distinct modes -/
theorem heraldStarts_nodup {ports : List Port} (hd : PortsDisjoint ports)
    (hs : ∀ p ∈ ports, p.herald = true → p.size = 1) : ((heraldsOf ports).map (·.1)).Nodup := by
  have h1 : (ports.filter (·.herald)).Pairwise (fun p q => p.start ≠ q.start) := by
    have hsub : (ports.filter (·.herald)).Pairwise (fun p q => ∀ m, ¬ (covers p m ∧ covers q m)) :=
      List.Pairwise.sublist List.filter_sublist hd
    refine List.Pairwise.imp_of_mem ?_ hsub
    intro p q hp hq hpq heq
    obtain ⟨hp1, hp2⟩ := List.mem_filter.1 hp
    obtain ⟨hq1, hq2⟩ := List.mem_filter.1 hq
    have sp := hs p hp1 hp2
    have sq := hs q hq1 hq2
    exact hpq p.start ⟨⟨le_refl _, by omega⟩, ⟨by omega, by omega⟩⟩
  have hm : (heraldsOf ports).map (·.1) = (ports.filter (·.herald)).map (·.start) := by
    simp [heraldsOf, List.map_map, Function.comp_def]
  rw [hm]
  exact List.pairwise_map.2 h1

/-- a duplicate-free list of naturals below `n` has at most `n` entries -/
theorem length_le_of_nodup_lt {l : List Nat} {n : Nat} (hnd : l.Nodup) (hlt : ∀ x ∈ l, x < n) : l.length ≤ n := by
  have := (List.subperm_of_subset hnd (fun x hx => List.mem_range.2 (hlt x hx))).length_le
  simpa using this

/-- **the counting argument**: with the bookkeeping invariant and the herald counter in step with the herald ports,
`_n_moi` is not negative and the processor is a well-formed right-hand side -/
theorem rightWF_of_inv {e : Exp} (hi : ExpInv e) (hc : HerCount e) : 0 ≤ e.nmoi ∧ RightWF e.side := by
  have hnd : ((heraldsOf e.outp).map (·.1)).Nodup :=
    heraldStarts_nodup hi.disjO (fun p hp hh => (hi.reserved p hp hh).1)
  have hlt : ∀ x ∈ (heraldsOf e.outp).map (·.1), x < e.mt.length := by
    intro x hx
    obtain ⟨y, hy, rfl⟩ := List.mem_map.1 hx
    exact hi.inside y hy
  have hle := length_le_of_nodup_lt hnd hlt
  rw [List.length_map] at hle
  have hlen := hi.len
  have hcs := hi.cs_eq
  unfold HerCount at hc
  have hnn : 0 ≤ e.nmoi := by omega
  refine ⟨hnn, fun _ => ⟨hnd, ?_, ?_⟩⟩
  · intro x hx
    show x < e.cs
    rw [hcs]; exact hlt x hx
  · show e.nmoi.toNat + (heraldsOf e.outp).length = e.cs
    rw [hcs]; omega

end PM.C10
