/-
  C08 — mixed inputs through the detector path (`Model/C08Mix.lean`):
  * the loop of `_probs_svd_fast` builds the weighted sum of the members' distributions: every linear functional of the
    result is the weighted sum of the members' (`mixRaw_sum`), in particular the recorded weights and the mass;
  * `phys_perf` of `simulate_detectors` is `1 -` a linear functional of its input (`simulateRaw_phys_linear`), at every
    `min_p`, in both non-trivial branches;
  * `_preprocess_svd` at exact parameters (`min_p ≤ 0`, precision 0, positive weights): threshold 0, the members kept are
    those passing the photon filter.
-/
import PercevalModel.Model.C08Mix
import PercevalModel.Lemmas.C08Thr
import PercevalModel.Lemmas.C08Post

set_option linter.unusedSectionVars false

namespace PM.C08

section mixSum
variable {K : Type} [Field K] [LinearOrder K]

theorem sum_bump_lin (d : Dist (List ℕ) K) (k : List ℕ) (v : K) (g : List ℕ → K) :
    ((bump d k v).map fun e => e.2 * g e.1).sum = (d.map fun e => e.2 * g e.1).sum + v * g k := by
  induction d with
  | nil => simp [bump]
  | cons e d ih =>
    obtain ⟨k', v'⟩ := e
    simp only [bump]
    split
    · next h => subst h; simp only [List.map_cons, List.sum_cons]; ring
    · simp only [List.map_cons, List.sum_cons, ih]; ring

theorem mixAdd_sum (res : Dist (List ℕ) K) (p : K) (d : Dist (List ℕ) K) (g : List ℕ → K) :
    ((mixAdd res p d).map fun e => e.2 * g e.1).sum
      = (res.map fun e => e.2 * g e.1).sum + p * (d.map fun e => e.2 * g e.1).sum := by
  unfold mixAdd
  induction d generalizing res with
  | nil => simp
  | cons e d ih =>
    simp only [List.foldl_cons, List.map_cons, List.sum_cons]
    rw [ih, sum_bump_lin]; ring

/-- **every linear functional of the mixture is the weighted sum over the members** -/
theorem mixRaw_sum (h : List (ℕ × ℕ)) (mask : Bool) (ms : List (Member K)) (g : List ℕ → K) :
    ((mixRaw h mask ms).1.map fun e => e.2 * g e.1).sum
      = (ms.map fun m => m.p * ((memberRaw h mask m).map fun e => e.2 * g e.1).sum).sum := by
  unfold mixRaw
  have : ∀ a : Dist (List ℕ) K × K,
      ((ms.foldl (fun a m => (mixAdd a.1 m.p (memberRaw h mask m), a.2 + mass (memberRaw h mask m) * m.p)) a).1.map
          fun e => e.2 * g e.1).sum
        = (a.1.map fun e => e.2 * g e.1).sum
          + (ms.map fun m => m.p * ((memberRaw h mask m).map fun e => e.2 * g e.1).sum).sum := by
    induction ms with
    | nil => intro a; simp
    | cons m ms ih =>
      intro a
      simp only [List.foldl_cons, List.map_cons, List.sum_cons]
      rw [ih, mixAdd_sum]; ring
  rw [this]; simp

theorem sum_mul_one_eq_mass (d : Dist (List ℕ) K) : (d.map fun e => e.2 * (1 : K)).sum = mass d := by
  induction d with
  | nil => rfl
  | cons e d ih => rw [List.map_cons, List.sum_cons, ih, mass_cons, mul_one]

/-- the mass of the mixture -/
theorem mixRaw_mass (h : List (ℕ × ℕ)) (mask : Bool) (ms : List (Member K)) :
    mass (mixRaw h mask ms).1 = (ms.map fun m => m.p * mass (memberRaw h mask m)).sum := by
  have e := mixRaw_sum h mask ms (fun _ => (1 : K))
  simp only [sum_mul_one_eq_mass] at e
  exact e

/-- `self._logical_perf` accumulated by the loop is the mass of the mixture -/
theorem mixRaw_snd (h : List (ℕ × ℕ)) (mask : Bool) (ms : List (Member K)) :
    (mixRaw h mask ms).2 = mass (mixRaw h mask ms).1 := by
  rw [mixRaw_mass]
  unfold mixRaw
  have : ∀ a : Dist (List ℕ) K × K,
      (ms.foldl (fun a m => (mixAdd a.1 m.p (memberRaw h mask m), a.2 + mass (memberRaw h mask m) * m.p)) a).2
        = a.2 + (ms.map fun m => m.p * mass (memberRaw h mask m)).sum := by
    induction ms with
    | nil => intro a; simp
    | cons m ms ih => intro a; simp only [List.foldl_cons, List.map_cons, List.sum_cons]; rw [ih]; ring
  rw [this]; simp

/-- the weight the mixture records at `t` is the weighted sum of the members' weights -/
theorem mixRaw_wt (h : List (ℕ × ℕ)) (mask : Bool) (ms : List (Member K)) (t : List ℕ) :
    wt (mixRaw h mask ms).1 t = (ms.map fun m => m.p * wt (memberRaw h mask m) t).sum := by
  have e := mixRaw_sum h mask ms (fun s => if s = t then (1 : K) else 0)
  simp only [sum_map_ite_key, mul_one] at e
  exact e

theorem mixAdd_nodup (res : Dist (List ℕ) K) (p : K) (d : Dist (List ℕ) K) (hr : (keys res).Nodup) :
    (keys (mixAdd res p d)).Nodup := by
  unfold mixAdd
  induction d generalizing res with
  | nil => exact hr
  | cons e d ih => simp only [List.foldl_cons]; exact ih _ (nodup_bump hr _ _)

theorem mixRaw_nodup (h : List (ℕ × ℕ)) (mask : Bool) (ms : List (Member K)) :
    (keys (mixRaw h mask ms).1).Nodup := by
  unfold mixRaw
  have : ∀ a : Dist (List ℕ) K × K, (keys a.1).Nodup →
      (keys (ms.foldl (fun a m => (mixAdd a.1 m.p (memberRaw h mask m),
        a.2 + mass (memberRaw h mask m) * m.p)) a).1).Nodup := by
    induction ms with
    | nil => intro a ha; exact ha
    | cons m ms ih => intro a ha; simp only [List.foldl_cons]; exact ih _ (mixAdd_nodup _ _ _ ha)
  exact this _ (by simp [keys])

theorem mixAdd_keysLen (res : Dist (List ℕ) K) (p : K) (d : Dist (List ℕ) K) (n : ℕ) (hr : KeysLen res n)
    (hd : KeysLen d n) : KeysLen (mixAdd res p d) n := by
  unfold mixAdd
  induction d generalizing res with
  | nil => exact hr
  | cons e d ih =>
    simp only [List.foldl_cons]
    exact ih _ (hr.bump (hd e (by simp)) _) (fun x hx => hd x (by simp [hx]))

theorem mixRaw_keysLen (h : List (ℕ × ℕ)) (mask : Bool) (ms : List (Member K)) (n : ℕ)
    (hm : ∀ m ∈ ms, KeysLen (memberRaw h mask m) n) : KeysLen (mixRaw h mask ms).1 n := by
  unfold mixRaw
  have : ∀ a : Dist (List ℕ) K × K, KeysLen a.1 n →
      KeysLen (ms.foldl (fun a m => (mixAdd a.1 m.p (memberRaw h mask m),
        a.2 + mass (memberRaw h mask m) * m.p)) a).1 n := by
    induction ms with
    | nil => intro a ha; exact ha
    | cons m ms ih =>
      intro a ha
      simp only [List.foldl_cons]
      exact ih (fun x hx => hm x (by simp [hx])) _ (mixAdd_keysLen _ _ _ n ha (hm m (by simp)))
  exact this _ (by intro e he; simp at he)

variable [IsStrictOrderedRing K]

theorem mixAdd_nonneg (res : Dist (List ℕ) K) {p : K} (hp : 0 ≤ p) (d : Dist (List ℕ) K) (hr : Nonneg res)
    (hd : Nonneg d) : Nonneg (mixAdd res p d) := by
  unfold mixAdd
  induction d generalizing res with
  | nil => exact hr
  | cons e d ih =>
    simp only [List.foldl_cons]
    exact ih _ (hr.bump _ (mul_nonneg (hd e (by simp)) hp)) (fun x hx => hd x (by simp [hx]))

theorem mixRaw_nonneg (h : List (ℕ × ℕ)) (mask : Bool) (ms : List (Member K)) (hp : ∀ m ∈ ms, 0 ≤ m.p)
    (hm : ∀ m ∈ ms, Nonneg (memberRaw h mask m)) : Nonneg (mixRaw h mask ms).1 := by
  unfold mixRaw
  have : ∀ a : Dist (List ℕ) K × K, Nonneg a.1 →
      Nonneg (ms.foldl (fun a m => (mixAdd a.1 m.p (memberRaw h mask m),
        a.2 + mass (memberRaw h mask m) * m.p)) a).1 := by
    induction ms with
    | nil => intro a ha; exact ha
    | cons m ms ih =>
      intro a ha
      simp only [List.foldl_cons]
      exact ih (fun x hx => hp x (by simp [hx])) (fun x hx => hm x (by simp [hx])) _
        (mixAdd_nonneg _ (hp m (by simp)) _ ha (hm m (by simp)))
  exact this _ (by intro e he; simp at he)

/-- a linear functional of a normalised distribution -/
theorem sum_normalize (d : Dist (List ℕ) K) (hm : mass d ≠ 0) (g : List ℕ → K) :
    ((normalize d).map fun e => e.2 * g e.1).sum = (d.map fun e => e.2 * g e.1).sum / mass d := by
  unfold normalize
  rw [if_neg hm]
  have : ∀ (c : K) (l : Dist (List ℕ) K),
      ((l.map fun e => (e.1, e.2 / c)).map fun e => e.2 * g e.1).sum = (l.map fun e => e.2 * g e.1).sum / c := by
    intro c l
    induction l with
    | nil => simp
    | cons e l ih => rw [List.map_cons, List.map_cons, List.sum_cons, List.map_cons, List.sum_cons, ih]; ring
  exact this _ d

theorem normalize_nonneg (d : Dist (List ℕ) K) (h : Nonneg d) (hm : 0 < mass d) : Nonneg (normalize d) := by
  intro e he
  unfold normalize at he
  rw [if_neg (ne_of_gt hm)] at he
  obtain ⟨x, hx, rfl⟩ := List.mem_map.mp he
  exact div_nonneg (h x hx) hm.le

end mixSum

/-! ### `phys_perf` is one minus a linear functional of the input distribution -/
section physLinear
variable {K : Type} [Field K] [LinearOrder K] [IsStrictOrderedRing K]

/-- the share of the input state `s` that `simulate_detectors` subtracts from `phys_perf` -/
def lossOf (minP : K) (ds : List (AnyDet K)) (mp : Option ℕ) (s : List ℕ) : K :=
  if detectionType ds = .Threshold then (if belowFilter mp (s.map (min · 1)) then 1 else 0)
  else belowMass mp (stateDist minP ds s)

theorem genFold_snd (minP : K) (mp : Option ℕ) (sdf : List ℕ × K → Dist (List ℕ) K) (dist : Dist (List ℕ) K)
    (a : Acc K) :
    (genFold minP mp sdf dist a).2 = a.2 - (dist.map fun e => e.2 * belowMass mp (sdf e)).sum := by
  unfold genFold
  induction dist generalizing a with
  | nil => simp
  | cons e dist ih =>
    simp only [List.foldl_cons, List.map_cons, List.sum_cons]
    rw [ih, simState_snd]; ring

theorem simThreshold_snd (mp : Option ℕ) (dist : Dist (List ℕ) K) :
    (simThreshold mp dist).2
      = 1 - (dist.map fun e => e.2 * (if belowFilter mp (e.1.map (min · 1)) then (1 : K) else 0)).sum := by
  unfold simThreshold
  have : ∀ a : Acc K, (dist.foldl (fun a e =>
      if belowFilter mp (e.1.map (min · 1)) then (a.1, a.2 - e.2)
      else (bump a.1 (e.1.map (min · 1)) e.2, a.2)) a).2
      = a.2 - (dist.map fun e => e.2 * (if belowFilter mp (e.1.map (min · 1)) then (1 : K) else 0)).sum := by
    induction dist with
    | nil => intro a; simp
    | cons e dist ih =>
      intro a
      simp only [List.foldl_cons, List.map_cons, List.sum_cons]
      rw [ih]
      split <;> simp <;> ring
  rw [this]

/-- **`phys_perf` = 1 − ∑ p·loss(s)**, in both non-trivial branches, at every `min_p` -/
theorem simulateRaw_phys_linear (minP : K) (dist : Dist (List ℕ) K) (ds : List (AnyDet K)) (mp : Option ℕ)
    (hbr : ¬ (dist.isEmpty ∨ detectionType ds = .PNR)) :
    (simulateRaw minP dist ds mp).2 = 1 - (dist.map fun e => e.2 * lossOf minP ds mp e.1).sum := by
  simp only [simulateRaw, if_neg hbr]
  by_cases h : detectionType ds = .Threshold
  · simp only [lossOf, h, if_true]; exact simThreshold_snd mp dist
  · simp only [lossOf, h, if_false]
    rw [simGeneral_eq_genFold, genFold_snd]

end physLinear

/-! ### `_preprocess_svd` at exact parameters -/
section preprocess
variable {K : Type} [Field K] [LinearOrder K] [IsStrictOrderedRing K]

theorem preThreshold_exact {minP : K} (hmin : minP ≤ 0) (F : ℕ) (ms : List (Member K)) :
    preThreshold minP 0 F ms = 0 := by
  unfold preThreshold
  rw [mul_zero, max_eq_right hmin]

theorem preKept_exact {minP : K} (hmin : minP ≤ 0) (F : ℕ) (ms : List (Member K)) (hp : ∀ m ∈ ms, 0 < m.p) :
    preKept minP 0 F ms = ms.filter fun m => decide (F ≤ m.n) := by
  unfold preKept
  rw [preThreshold_exact hmin]
  apply List.filter_congr
  intro m hm
  simp [hp m hm]

/-- `phys_perf` of `_preprocess_svd`: one minus the weight of the members below the photon filter -/
theorem prePhys_eq (F : ℕ) (ms : List (Member K)) :
    prePhys F ms = 1 - ((ms.filter fun m => decide (¬ F ≤ m.n)).map (·.p)).sum := by
  unfold prePhys
  have : ∀ a : K, ms.foldl (fun a m => if F ≤ m.n then a else a - m.p) a
      = a - ((ms.filter fun m => decide (¬ F ≤ m.n)).map (·.p)).sum := by
    induction ms with
    | nil => intro a; simp
    | cons m ms ih =>
      intro a
      simp only [List.foldl_cons, List.filter_cons]
      rw [ih]
      by_cases h : F ≤ m.n
      · simp [h]
      · simp [h]; ring
  exact this 1

theorem sum_filter_split (ms : List (Member K)) (c : Member K → Bool) :
    ((ms.filter c).map (·.p)).sum + ((ms.filter fun m => !c m).map (·.p)).sum = (ms.map (·.p)).sum := by
  induction ms with
  | nil => simp
  | cons m ms ih =>
    simp only [List.filter_cons, List.map_cons, List.sum_cons]
    by_cases h : c m <;> simp [h] <;> linarith [ih]

end preprocess

end PM.C08
