/-
  C01 — lemmas about the `port_range` model (`Model/C01Range.lean`).
-/
import PercevalModel.Model.C01Range
import PercevalModel.Lemmas.C01

open Matrix

namespace PM.C01

@[simp] theorem length_rangeFrom (p : ℤ) (k : ℕ) : (rangeFrom p k).length = k := by
  induction k generalizing p with
  | zero => rfl
  | succ k ih => simp [rangeFrom, ih]

theorem mem_rangeFrom {p x : ℤ} {k : ℕ} : x ∈ rangeFrom p k ↔ p ≤ x ∧ x < p + k := by
  induction k generalizing p with
  | zero => simp [rangeFrom]
  | succ k ih =>
    simp only [rangeFrom, List.mem_cons, ih]
    push_cast
    omega

theorem consecutive_rangeFrom (p : ℤ) (k : ℕ) : consecutive (rangeFrom p k) = true := by
  induction k generalizing p with
  | zero => rfl
  | succ k ih =>
    cases k with
    | zero => rfl
    | succ k =>
      have := ih (p + 1)
      simp only [rangeFrom] at this ⊢
      simp [consecutive, this]

theorem headD_rangeFrom (p : ℤ) (k : ℕ) : (rangeFrom p (k + 1)).headD 0 = p := rfl

theorem getLastD_rangeFrom (p : ℤ) (k : ℕ) : (rangeFrom p (k + 1)).getLastD 0 = p + k := by
  induction k generalizing p with
  | zero => simp [rangeFrom]
  | succ k ih =>
    have := ih (p + 1)
    simp only [rangeFrom] at this ⊢
    simp only [List.getLastD_cons] at this ⊢
    rw [this]; push_cast; omega

/-- a tuple that passes the loop of assertions is `range(first, first + len)` -/
theorem eq_rangeFrom_of_consecutive : ∀ (r : List ℤ), consecutive r = true →
    r = rangeFrom (r.headD 0) r.length
  | [], _ => rfl
  | [_], _ => rfl
  | a :: b :: r, h => by
    simp only [consecutive, Bool.and_eq_true, beq_iff_eq] at h
    have ih := eq_rangeFrom_of_consecutive (b :: r) h.2
    simp only [List.headD_cons, List.length_cons] at ih ⊢
    rw [rangeFrom, ← h.1]
    exact congrArg (a :: ·) ih

theorem min?_rangeFrom (p : ℤ) (k : ℕ) : (rangeFrom p (k + 1)).min? = some p := by
  rw [List.min?_eq_some_iff]
  refine ⟨by simp [rangeFrom], fun b hb => (mem_rangeFrom.1 hb).1⟩

theorem max?_rangeFrom (p : ℤ) (k : ℕ) : (rangeFrom p (k + 1)).max? = some (p + k) := by
  rw [List.max?_eq_some_iff]
  refine ⟨mem_rangeFrom.2 (by push_cast; omega), fun b hb => ?_⟩
  have := (mem_rangeFrom.1 hb).2
  push_cast at this
  omega

/-- the verdict of the assertion chain on `range(p, p + n)` -/
def verdict (m k : ℕ) (p : ℤ) : ℕ → AddOut
  | 0 => .valueError
  | n' + 1 => if 0 ≤ p ∧ p + n' < (m : ℤ) then (if n' + 1 = k then .ok else .assertion) else .assertion

/-- the value of the assertion chain on a consecutive tuple -/
theorem checkRange_of_norm {m k : ℕ} {a : PortArg} {p : ℤ} {n : ℕ} (h : a.norm k = rangeFrom p n) :
    checkRange m k a = verdict m k p n := by
  unfold checkRange
  simp only [h, consecutive_rangeFrom, if_true]
  cases n with
  | zero => rfl
  | succ n' => simp only [min?_rangeFrom, max?_rangeFrom, length_rangeFrom, verdict]

theorem checkRange_not_consecutive {m k : ℕ} {a : PortArg} (h : consecutive (a.norm k) = false) :
    checkRange m k a = .assertion := by
  unfold checkRange; simp [h]

/-! ### the block assignment is `embed` -/

section lit
variable {R : Type}

theorem sliceEmbed_eq_embed [Zero R] [One R] {m off k : ℕ} (hk : off + k ≤ m)
    (U : Matrix (Fin k) (Fin k) R) : sliceEmbed m off (off + k) U = embed m off U := by
  ext i j
  unfold sliceEmbed embed place unshift
  by_cases hi : off ≤ i.val ∧ i.val < off + k <;> by_cases hj : off ≤ j.val ∧ j.val < off + k
  · have h1 : i.val - off < k ∧ j.val - off < k := by omega
    simp [hi, hj, h1]
  · have : ¬ (off ≤ i.val ∧ i.val < off + k ∧ off ≤ j.val ∧ j.val < off + k) := by omega
    have hne : i ≠ j := by rintro rfl; exact hj hi
    simp [hi, hj, this, Matrix.one_apply, hne]
  · have : ¬ (off ≤ i.val ∧ i.val < off + k ∧ off ≤ j.val ∧ j.val < off + k) := by omega
    have hne : i ≠ j := by rintro rfl; exact hi hj
    simp [hi, hj, this, Matrix.one_apply, hne]
  · have : ¬ (off ≤ i.val ∧ i.val < off + k ∧ off ≤ j.val ∧ j.val < off + k) := by omega
    simp [hi, hj, this, Matrix.one_apply]

theorem asIs_eq_embed [Zero R] [One R] {m : ℕ} (U : Matrix (Fin m) (Fin m) R) : asIs m U = embed m 0 U := by
  rw [embed_full]
  ext i j
  simp [asIs]

/-- on a range `range(off, off + k)` inside the circuit the literal code builds `embed m off U` -/
theorem litCU_rangeFrom [Zero R] [One R] {m off k : ℕ} (hk : off + (k + 1) ≤ m)
    (U : Matrix (Fin (k + 1)) (Fin (k + 1)) R) :
    litCU m (rangeFrom off (k + 1)) U = embed m off U := by
  unfold litCU
  rw [length_rangeFrom, headD_rangeFrom, getLastD_rangeFrom]
  by_cases hm : k + 1 = m
  · subst hm
    have : off = 0 := by omega
    subst this
    simp only [ne_eq, not_true_eq_false, if_false]
    exact asIs_eq_embed U
  · have e1 : ((off : ℤ)).toNat = off := by simp
    have e2 : ((off : ℤ) + (k : ℤ) + 1).toNat = off + (k + 1) := by omega
    simp only [ne_eq, hm, not_false_eq_true, if_true, e1, e2]
    exact sliceEmbed_eq_embed hk U

end lit

/-! ### range trees -/
section rtree
variable {R : Type}

theorem map_add_rangeFrom (d q : ℤ) (n : ℕ) : (rangeFrom q n).map (· + d) = rangeFrom (q + d) n := by
  induction n generalizing q with
  | zero => rfl
  | succ n ih => simp only [rangeFrom, List.map_cons, ih]; congr 2; omega

theorem headD_rangeFrom_pos (p : ℤ) {n : ℕ} (h : 0 < n) : (rangeFrom p n).headD 0 = p := by
  cases n with
  | zero => omega
  | succ n => rfl

theorem RComp.abs_size (c : RComp R) : c.abs.size = c.size := by
  cases c <;> simp [RComp.abs, RComp.size, Comp.size]

/-- what an accepted stored range looks like -/
theorem range_of_ok {m k : ℕ} {r : List ℤ} (h : checkRange m k (.seq r) = .ok) :
    ∃ off : ℕ, 0 < k ∧ off + k ≤ m ∧ r = rangeFrom off k ∧ (r.headD 0).toNat = off ∧ r.headD 0 = off := by
  unfold checkRange at h
  by_cases hc : consecutive r = true
  · have e := eq_rangeFrom_of_consecutive _ hc
    simp only [PortArg.norm, hc, if_true] at h
    cases r with
    | nil => simp at h
    | cons x t =>
      rw [e] at h
      simp only [List.length_cons, min?_rangeFrom, max?_rangeFrom, length_rangeFrom, List.headD_cons] at h e
      split at h
      · rename_i hb
        split at h
        · rename_i hk
          refine ⟨x.toNat, by omega, by omega, ?_, by simp, by simp; omega⟩
          have : ((x.toNat : ℕ) : ℤ) = x := by omega
          rw [this, ← hk]; exact e
        · simp at h
      · simp at h
  · simp [PortArg.norm, hc] at h

theorem RItems.abs_append : (a b : RItems R) → (a.append b).abs = a.abs.append b.abs
  | .nil, b => by simp [RItems.append, RItems.abs, Items.append]
  | .cons r c rest, b => by simp [RItems.append, RItems.abs, Items.append, RItems.abs_append rest b]

theorem RItems.WF_append (m : ℕ) : (a b : RItems R) → ((a.append b).WF m ↔ a.WF m ∧ b.WF m)
  | .nil, b => by simp [RItems.append, RItems.WF]
  | .cons r c rest, b => by simp [RItems.append, RItems.WF, RItems.WF_append m rest b, and_assoc]

end rtree

end PM.C01
