/-
  C08 — `copy()` as a model operation (`Model/C08Copy.lean`): the heap invariant and its preservation.

  Invariant: every object is bound to an allocated dictionary, its private part is sound (`A`), the dictionary it sees
  is sound for ITS marker (`B`), and two objects bound to the same dictionary carry the same marker (sharing arises
  only through `copy()`, which copies the marker, and ends for an object at the moment its marker changes, because
  `_sync_cache()` rebinds `_cache` in the same statement).
-/
import PercevalModel.Model.C08Copy
import PercevalModel.Lemmas.C08Hist

set_option linter.unusedSectionVars false

namespace PM.C08

section copy
variable {K : Type} [Field K] [LinearOrder K] {M Out : Type}

structure Heap.Inv (A : M → Prop) (B : DCache K → Option K → Prop) (h : Heap M K) : Prop where
  cell_lt : ∀ i, i < h.nObjs → (h.objs i).2.1 < h.nCells
  priv : ∀ i, i < h.nObjs → A (h.objs i).1
  cache : ∀ i, i < h.nObjs → B (h.cells (h.objs i).2.1) (h.objs i).2.2
  share : ∀ i j, i < h.nObjs → j < h.nObjs → (h.objs i).2.1 = (h.objs j).2.1 → (h.objs i).2.2 = (h.objs j).2.2

/-- object `i` rebinds its `_cache` to a newly allocated dictionary `c` (sound for the marker `mk` it then has) -/
theorem Heap.Inv.rebind {A : M → Prop} {B : DCache K → Option K → Prop} {h : Heap M K} (hi : Heap.Inv A B h)
    (i : ℕ) (m : M) (c : DCache K) (mk : Option K) (hA : A m) (hB : B c mk) :
    Heap.Inv A B ⟨Function.update h.cells h.nCells c, h.nCells + 1,
      Function.update h.objs i (m, h.nCells, mk), h.nObjs⟩ := by
  refine ⟨?_, ?_, ?_, ?_⟩
  · intro j hj
    by_cases hji : j = i
    · simp [hji]
    · simp only [Function.update_apply, hji, if_false]
      exact Nat.lt_succ_of_lt (hi.cell_lt j hj)
  · intro j hj
    by_cases hji : j = i
    · simpa [hji] using hA
    · simpa [hji] using hi.priv j hj
  · intro j hj
    by_cases hji : j = i
    · simpa [hji] using hB
    · have hne : (h.objs j).2.1 ≠ h.nCells := Nat.ne_of_lt (hi.cell_lt j hj)
      simpa [hji, hne] using hi.cache j hj
  · intro j l hj hl
    by_cases hji : j = i <;> by_cases hli : l = i
    · simp [hji, hli]
    · have hne : h.nCells ≠ (h.objs l).2.1 := (Nat.ne_of_lt (hi.cell_lt l hl)).symm
      simp [hji, hli, hne]
    · have hne : (h.objs j).2.1 ≠ h.nCells := Nat.ne_of_lt (hi.cell_lt j hj)
      simp [hji, hli, hne]
    · simpa [hji, hli] using hi.share j l hj hl

/-- object `i` writes `c` into the dictionary it is bound to (its marker unchanged): every sharer sees it -/
theorem Heap.Inv.write {A : M → Prop} {B : DCache K → Option K → Prop} {h : Heap M K} (hi : Heap.Inv A B h)
    (i : ℕ) (hlt : i < h.nObjs) (m : M) (c : DCache K) (hA : A m) (hB : B c (h.objs i).2.2) :
    Heap.Inv A B ⟨Function.update h.cells (h.objs i).2.1 c, h.nCells,
      Function.update h.objs i (m, (h.objs i).2.1, (h.objs i).2.2), h.nObjs⟩ := by
  have hcell : ∀ j, (Function.update h.objs i (m, (h.objs i).2.1, (h.objs i).2.2) j).2 = (h.objs j).2 := by
    intro j
    by_cases hji : j = i
    · simp [hji]
    · simp [hji]
  refine ⟨?_, ?_, ?_, ?_⟩
  · intro j hj
    simp only [hcell j]
    exact hi.cell_lt j hj
  · intro j hj
    by_cases hji : j = i
    · simpa [hji] using hA
    · simpa [hji] using hi.priv j hj
  · intro j hj
    simp only [hcell j]
    by_cases hc : (h.objs j).2.1 = (h.objs i).2.1
    · have := hi.share j i hj hlt hc
      simpa [hc, this] using hB
    · simpa [hc] using hi.cache j hj
  · intro j l hj hl
    simp only [hcell j, hcell l]
    exact hi.share j l hj hl

/-- `copy()` of object `i`: a new object bound to the same dictionary with the same marker -/
theorem Heap.Inv.copy {A : M → Prop} {B : DCache K → Option K → Prop} {h : Heap M K} (hi : Heap.Inv A B h)
    (i : ℕ) (hlt : i < h.nObjs) (m0 : M) (hA : A m0) :
    Heap.Inv A B ⟨h.cells, h.nCells, Function.update h.objs h.nObjs (m0, (h.objs i).2), h.nObjs + 1⟩ := by
  have hrep : ∀ j, j < h.nObjs + 1 → ∃ j', j' < h.nObjs ∧
      (Function.update h.objs h.nObjs (m0, (h.objs i).2) j).2 = (h.objs j').2 ∧
      A (Function.update h.objs h.nObjs (m0, (h.objs i).2) j).1 := by
    intro j hj
    by_cases hjn : j = h.nObjs
    · exact ⟨i, hlt, by simp [hjn], by simpa [hjn] using hA⟩
    · have hj' : j < h.nObjs := lt_of_le_of_ne (Nat.lt_succ_iff.mp hj) hjn
      exact ⟨j, hj', by simp [hjn], by simpa [hjn] using hi.priv j hj'⟩
  refine ⟨?_, ?_, ?_, ?_⟩
  · intro j hj
    obtain ⟨j', hj', he, _⟩ := hrep j hj
    simp only [he]
    exact hi.cell_lt j' hj'
  · intro j hj
    exact (hrep j hj).choose_spec.2.2
  · intro j hj
    obtain ⟨j', hj', he, _⟩ := hrep j hj
    simp only [he]
    exact hi.cache j' hj'
  · intro j l hj hl
    obtain ⟨j', hj', he, _⟩ := hrep j hj
    obtain ⟨l', hl', hel, _⟩ := hrep l hl
    simp only [he, hel]
    exact hi.share j' l' hj' hl'

/-- one operation keeps the invariant, keeps the object count of the specification, and answers what the
specification answers -/
theorem heapStep_refines (det : View M K → K × ℕ → View M K × Out) (early : ℕ → Bool) (m0 : M)
    (A : M → Prop) (B : DCache K → Option K → Prop) (fresh : K × ℕ → Out)
    (hdet : ∀ m c mk op, A m → B c mk →
      A (det (m, c, mk) op).1.1 ∧ B (det (m, c, mk) op).1.2.1 (det (m, c, mk) op).1.2.2 ∧
        (det (m, c, mk) op).2 = fresh op)
    (hmark : ∀ m c mk op, (early op.2 = true ∨ mk = some op.1) → (det (m, c, mk) op).1.2.2 = mk)
    (hm0 : A m0) (hnil : ∀ mk, B [] mk)
    (h : Heap M K) (k : ℕ) (op : HeapOp K) (hik : Heap.Inv A B h ∧ h.nObjs = k) :
    (Heap.Inv A B (heapStep det early m0 h op).1 ∧
        (heapStep det early m0 h op).1.nObjs = (heapSpec fresh k op).1) ∧
      (heapStep det early m0 h op).2 = (heapSpec fresh k op).2 := by
  obtain ⟨hi, rfl⟩ := hik
  cases op with
  | detect i p n =>
    by_cases hlt : i < h.nObjs
    · obtain ⟨hA, hB, hout⟩ := hdet (h.objs i).1 (h.cells (h.objs i).2.1) (h.objs i).2.2 (p, n)
        (hi.priv i hlt) (hi.cache i hlt)
      by_cases hc : early n = true ∨ (h.objs i).2.2 = some p
      · have hmk := hmark (h.objs i).1 (h.cells (h.objs i).2.1) (h.objs i).2.2 (p, n) hc
        simp only [heapStep, heapSpec, hlt, if_true, hc]
        refine ⟨⟨?_, by first | rfl | trivial⟩, by rw [hout]⟩
        rw [hmk]
        rw [hmk] at hB
        exact hi.write i hlt _ _ hA hB
      · simp only [heapStep, heapSpec, hlt, if_true, hc, if_false]
        exact ⟨⟨hi.rebind i _ _ _ hA hB, by first | rfl | trivial⟩, by rw [hout]⟩
    · simp only [heapStep, heapSpec, hlt, if_false]
      exact ⟨⟨hi, by first | rfl | trivial⟩, by first | rfl | trivial⟩
  | copy i =>
    by_cases hlt : i < h.nObjs
    · simp only [heapStep, heapSpec, hlt, if_true]
      exact ⟨⟨hi.copy i hlt m0 hm0, by first | rfl | trivial⟩, by first | rfl | trivial⟩
    · simp only [heapStep, heapSpec, hlt, if_false]
      exact ⟨⟨hi, by first | rfl | trivial⟩, by first | rfl | trivial⟩
  | clear i =>
    by_cases hlt : i < h.nObjs
    · simp only [heapStep, heapSpec, hlt, if_true]
      exact ⟨⟨hi.rebind i _ _ _ (hi.priv i hlt) (hnil _), by first | rfl | trivial⟩, by first | rfl | trivial⟩
    · simp only [heapStep, heapSpec, hlt, if_false]
      exact ⟨⟨hi, by first | rfl | trivial⟩, by first | rfl | trivial⟩

theorem Heap.inv_init (A : M → Prop) (B : DCache K → Option K → Prop) (m0 : M) (hm0 : A m0) (hnil : ∀ mk, B [] mk) :
    Heap.Inv A B (Heap.init m0 : Heap M K) :=
  ⟨fun _ _ => Nat.lt_one_iff.mpr rfl, fun _ _ => hm0, fun _ _ => hnil _, fun _ _ _ _ _ => rfl⟩

/-- any history of `detect` / `copy` / `clear_cache` on the family of copies answers as the specification -/
theorem heap_run_eq_spec (det : View M K → K × ℕ → View M K × Out) (early : ℕ → Bool) (m0 : M)
    (A : M → Prop) (B : DCache K → Option K → Prop) (fresh : K × ℕ → Out)
    (hdet : ∀ m c mk op, A m → B c mk →
      A (det (m, c, mk) op).1.1 ∧ B (det (m, c, mk) op).1.2.1 (det (m, c, mk) op).1.2.2 ∧
        (det (m, c, mk) op).2 = fresh op)
    (hmark : ∀ m c mk op, (early op.2 = true ∨ mk = some op.1) → (det (m, c, mk) op).1.2.2 = mk)
    (hm0 : A m0) (hnil : ∀ mk, B [] mk) (ops : List (HeapOp K)) :
    (SM.run (heapStep det early m0) (Heap.init m0) ops).2 = (SM.run (heapSpec fresh) 1 ops).2 :=
  And.right <| SM.refine_run (heapStep det early m0) (heapSpec fresh) (fun h k => Heap.Inv A B h ∧ h.nObjs = k)
    (fun h k op hr => heapStep_refines det early m0 A B fresh hdet hmark hm0 hnil h k op hr)
    (Heap.init m0) 1 ⟨Heap.inv_init A B m0 hm0 hnil, rfl⟩ ops

/-! ### the two detector classes -/

/-- soundness of a dictionary for a marker, `Detector` -/
def DetCellOk (d : Det) (c : DCache K) (mk : Option K) : Prop :=
  (∀ p, mk = some p → ∀ t : Memo K, MemoOk d t → Inst.Valid d p ⟨t, c⟩) ∧ (mk = none → c = [])

theorem Inst.Valid.swap_memo {d : Det} {p : K} {m : Memo K} {c : DCache K} (h : Inst.Valid d p ⟨m, c⟩)
    (t : Memo K) (ht : MemoOk d t) : Inst.Valid d p ⟨t, c⟩ := by
  cases d with
  | pnr => trivial
  | wired w mx => exact ⟨ht, h.2⟩

theorem detView_step (d : Det) (m : Memo K) (c : DCache K) (mk : Option K) (op : K × ℕ)
    (hA : MemoOk d m) (hB : DetCellOk d c mk) :
    MemoOk d (detView d (m, c, mk) op).1.1 ∧
      DetCellOk d (detView d (m, c, mk) op).1.2.1 (detView d (m, c, mk) op).1.2.2 ∧
      (detView d (m, c, mk) op).2 = (op.2, d.detect op.1 op.2) := by
  have hv : InstH.Valid d (⟨⟨m, c⟩, mk⟩ : InstH K) := ⟨hA, fun p hp => hB.1 p hp m hA, hB.2⟩
  obtain ⟨⟨h1, h2, h3⟩, hout⟩ := detectInstH_fixed_step d ⟨⟨m, c⟩, mk⟩ op hv
  refine ⟨h1, ⟨?_, h3⟩, hout⟩
  intro p hp t ht
  exact (h2 p hp).swap_memo t ht

theorem detView_mark (d : Det) (m : Memo K) (c : DCache K) (mk : Option K) (op : K × ℕ)
    (h : detEarly d op.2 = true ∨ mk = some op.1) : (detView d (m, c, mk) op).1.2.2 = mk := by
  unfold detView detectInstH
  simp only []
  split
  · rfl
  · next hne =>
    rcases h with h | h
    · exact absurd (of_decide_eq_true h) hne
    · unfold InstH.sync
      simp [h]

theorem bsView_step (L : ℕ) (r : K) (m : Unit) (c : DCache K) (mk : Option K) (op : K × ℕ)
    (_hA : True) (hB : BsH.Valid L r ⟨c, mk⟩) :
    True ∧ BsH.Valid L r ⟨(bsView L r (m, c, mk) op).1.2.1, (bsView L r (m, c, mk) op).1.2.2⟩ ∧
      (bsView L r (m, c, mk) op).2 = (op.2, bsDetectP op.1 L r op.2) := by
  obtain ⟨h1, hout⟩ := bsInstH_fixed_step L r ⟨c, mk⟩ (some op) hB
  refine ⟨trivial, h1, ?_⟩
  unfold bsView
  simp only [hout, bsFresh, Option.getD_some]

theorem bsView_mark (L : ℕ) (r : K) (m : Unit) (c : DCache K) (mk : Option K) (op : K × ℕ)
    (h : bsEarly op.2 = true ∨ mk = some op.1) : (bsView L r (m, c, mk) op).1.2.2 = mk := by
  unfold bsView bsInstH
  simp only []
  split
  · rfl
  · next hne =>
    rcases h with h | h
    · exact absurd (of_decide_eq_true h) hne
    · unfold BsH.sync
      simp [h]

end copy

end PM.C08
