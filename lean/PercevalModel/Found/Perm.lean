/-
  F1b — permutation matrices.  `PERM.__init__` sets `u[perm[i], i] = 1`: input mode `i` is sent
  to output mode `perm[i]`.
-/
import PercevalModel.Found.LinAlg

open Matrix

namespace PM

variable {R : Type*}

/-- `u[f j, j] = 1` for a map on modes -/
def permMatF [Zero R] [One R] {n : ℕ} (f : Fin n → Fin n) : Matrix (Fin n) (Fin n) R :=
  fun i j => if f j = i then 1 else 0

theorem permMatF_id [Zero R] [One R] {n : ℕ} : permMatF (R := R) (id : Fin n → Fin n) = 1 := by
  ext i j; simp [permMatF, Matrix.one_apply, eq_comm]

theorem permMatF_mul [CommRing R] {n : ℕ} (f g : Fin n → Fin n) :
    permMatF (R := R) f * permMatF g = permMatF (f ∘ g) := by
  ext i j
  simp only [Matrix.mul_apply, permMatF, Function.comp]
  rw [Finset.sum_eq_single (g j)]
  · simp
  · intro l _ hl; simp [Ne.symm hl]
  · simp

theorem permMatF_conjTranspose [CommRing R] [StarRing R] {n : ℕ} (f g : Fin n → Fin n)
    (hfg : ∀ x, f (g x) = x) (hgf : ∀ x, g (f x) = x) :
    (permMatF (R := R) f)ᴴ = permMatF g := by
  ext i j
  simp only [conjTranspose_apply, permMatF]
  have : f i = j ↔ g j = i := ⟨fun h => by rw [← h, hgf], fun h => by rw [← h, hfg]⟩
  by_cases h : f i = j
  · simp [h, this.1 h]
  · have h2 : ¬ g j = i := fun h' => h (this.2 h')
    simp [h, h2]

theorem permMatF_isUnitary [CommRing R] [StarRing R] {n : ℕ} (f g : Fin n → Fin n)
    (hfg : ∀ x, f (g x) = x) (hgf : ∀ x, g (f x) = x) : IsUnitary (permMatF (R := R) f) := by
  rw [IsUnitary, permMatF_conjTranspose f g hfg hgf, permMatF_mul, permMatF_mul]
  have h1 : f ∘ g = id := funext hfg
  have h2 : g ∘ f = id := funext hgf
  rw [h1, h2]; exact ⟨permMatF_id, permMatF_id⟩

/-- the column of input mode `j` is the basis vector of output mode `f j`:
light entering mode `j` leaves on mode `f j` -/
theorem permMatF_mulVec_single [CommRing R] {n : ℕ} (f : Fin n → Fin n) (j : Fin n) :
    (permMatF (R := R) f).mulVec (Pi.single j 1) = Pi.single (f j) 1 := by
  ext i
  simp only [Matrix.mulVec, dotProduct, permMatF, Pi.single_apply]
  rw [Finset.sum_eq_single j]
  · simp [eq_comm]
  · intro l _ hl; simp [hl]
  · simp

/-- list form used by the code: `perm : list[int]`, out-of-range lookups give no entry -/
def permMatL [Zero R] [One R] (n : ℕ) (σ : List ℕ) : Matrix (Fin n) (Fin n) R :=
  fun i j => if σ.getD j.val n = i.val then 1 else 0

/-- a list is a permutation of `0..n-1` -/
def IsPermList (n : ℕ) (σ : List ℕ) : Prop := σ.length = n ∧ σ.Nodup ∧ ∀ x ∈ σ, x < n

instance (n : ℕ) (σ : List ℕ) : Decidable (IsPermList n σ) := by unfold IsPermList; infer_instance

/-- the list permutation as a map on `Fin n` (identity where the list is malformed) -/
def permFn (n : ℕ) (σ : List ℕ) (j : Fin n) : Fin n :=
  if h : σ.getD j.val n < n then ⟨σ.getD j.val n, h⟩ else j

theorem permMatL_eq_permMatF [Zero R] [One R] {n : ℕ} {σ : List ℕ} (h : IsPermList n σ) :
    permMatL (R := R) n σ = permMatF (permFn n σ) := by
  ext i j
  have hj : j.val < σ.length := by rw [h.1]; exact j.isLt
  have hlt : σ.getD j.val n < n := by
    rw [List.getD_eq_getElem?_getD, List.getElem?_eq_getElem hj]
    exact h.2.2 _ (List.getElem_mem hj)
  simp only [permMatL, permMatF, permFn, hlt, ↓reduceDIte]
  by_cases e : σ.getD j.val n = i.val
  · have : (⟨σ.getD j.val n, hlt⟩ : Fin n) = i := Fin.ext e
    rw [if_pos e, if_pos this]
  · have : (⟨σ.getD j.val n, hlt⟩ : Fin n) ≠ i := fun h' => e (congrArg Fin.val h')
    rw [if_neg e, if_neg this]

end PM
