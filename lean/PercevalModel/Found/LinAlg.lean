/-
  F1 — block placement of matrices.
  `place g B` puts the block `B` (indexed by `κ`) on the rows/columns of `ν` selected by the
  partial map `g : ν → Option κ`, identity elsewhere.  `embed N o B` is the contiguous special
  case, mirroring `nU = eye(m); nU[r0:r1, r0:r1] = cU` of `_compute_circuit_unitary`.
-/
import Mathlib.Data.Matrix.Mul
import Mathlib.LinearAlgebra.Matrix.ConjTranspose
import Mathlib.Algebra.BigOperators.Group.Finset.Basic
import Mathlib.Algebra.BigOperators.Fin
import Mathlib.Tactic.Ring

open Matrix

namespace PM

variable {R : Type*} {κ ν : Type*}

/-- `B` on the rows/columns that `g` maps into `κ`, identity elsewhere. -/
def place [Zero R] [One R] [DecidableEq ν] (g : ν → Option κ) (B : Matrix κ κ R) :
    Matrix ν ν R := fun i j =>
  match g i, g j with
  | some a, some b => B a b
  | none, none => if i = j then 1 else 0
  | _, _ => 0

section lemmas
variable [DecidableEq ν] [DecidableEq κ]

theorem place_one [Zero R] [One R] {f : κ → ν} {g : ν → Option κ}
    (h : Function.IsPartialInv f g) : place g (1 : Matrix κ κ R) = 1 := by
  ext i j
  unfold place
  cases hi : g i <;> cases hj : g j <;> simp only [Matrix.one_apply]
  · rename_i b
    have := (h b j).1 hj
    by_cases hij : i = j
    · subst hij; simp [hi] at hj
    · simp [hij]
  · rename_i a
    by_cases hij : i = j
    · subst hij; simp [hi] at hj
    · simp [hij]
  · rename_i a b
    have ha := (h a i).1 hi
    have hb := (h b j).1 hj
    by_cases hab : a = b
    · subst hab; simp [← ha, ← hb]
    · have : i ≠ j := by
        intro hij; subst hij; rw [hi] at hj; exact hab (Option.some.inj hj)
      simp [hab, this]

theorem place_mul [Fintype ν] [Fintype κ] [CommRing R] {f : κ → ν} {g : ν → Option κ}
    (h : Function.IsPartialInv f g) (B C : Matrix κ κ R) :
    place g B * place g C = place g (B * C) := by
  have hinj : Function.Injective f := h.injective
  have hgf : ∀ a, g (f a) = some a := fun a => (h a (f a)).2 rfl
  ext i j
  rw [Matrix.mul_apply]
  cases hi : g i with
  | none =>
    cases hj : g j with
    | none =>
      have : place g (B * C) i j = if i = j then 1 else 0 := by simp [place, hi, hj]
      rw [this, Finset.sum_eq_single i]
      · simp [place, hi, hj]
      · intro l _ hl
        cases hl' : g l <;> simp [place, hi, hl', Ne.symm hl]
      · simp
    | some b =>
      have : place g (B * C) i j = 0 := by simp [place, hi, hj]
      rw [this]
      apply Finset.sum_eq_zero
      intro l _
      cases hl' : g l <;> simp [place, hi, hj, hl']
  | some a =>
    cases hj : g j with
    | none =>
      have : place g (B * C) i j = 0 := by simp [place, hi, hj]
      rw [this]
      apply Finset.sum_eq_zero
      intro l _
      cases hl' : g l <;> simp [place, hi, hj, hl']
    | some b =>
      have : place g (B * C) i j = ∑ c, B a c * C c b := by
        simp [place, hi, hj, Matrix.mul_apply]
      rw [this]
      symm
      apply Fintype.sum_of_injective f hinj
      · intro l hl
        cases hl' : g l with
        | none => simp [place, hi, hl']
        | some c => exact absurd ⟨c, (h c l).1 hl'⟩ hl
      · intro c
        simp [place, hi, hj, hgf]

theorem place_conjTranspose [Zero R] [One R] [Star R] (h0 : star (0 : R) = 0)
    (h1 : star (1 : R) = 1) (g : ν → Option κ) (B : Matrix κ κ R) :
    (place g B)ᴴ = place g Bᴴ := by
  ext i j
  simp only [conjTranspose_apply, place]
  cases hi : g i <;> cases hj : g j <;> simp [h0, h1, eq_comm]
  split_ifs <;> simp [h0, h1]

theorem place_place {μ : Type*} [DecidableEq μ] [Zero R] [One R]
    {f' : μ → κ} {g' : κ → Option μ} (h' : Function.IsPartialInv f' g')
    {f : κ → ν} {g : ν → Option κ} (h : Function.IsPartialInv f g) (B : Matrix μ μ R) :
    place g (place g' B) = place (fun i => (g i).bind g') B := by
  ext i j
  simp only [place]
  cases hi : g i <;> cases hj : g j <;> simp
  · rename_i b
    cases hb : g' b <;> simp
    intro hij; subst hij; simp [hi] at hj
  · rename_i a
    cases ha : g' a <;> simp
    intro hij; subst hij; simp [hi] at hj
  · rename_i a b
    have ha := (h a i).1 hi
    have hb := (h b j).1 hj
    cases ha' : g' a <;> cases hb' : g' b <;> simp
    have : a = b ↔ i = j := by
      constructor
      · intro e; rw [← ha, ← hb, e]
      · intro e; subst e; rw [hi] at hj; exact Option.some.inj hj
    simp [this]

end lemmas

/-! ### contiguous embedding -/

/-- partial inverse of `a ↦ a + o` from `Fin k` into `Fin N` -/
def unshift (N o k : ℕ) (i : Fin N) : Option (Fin k) :=
  if h : o ≤ i.val ∧ i.val < o + k then some ⟨i.val - o, by omega⟩ else none

/-- `B` on rows/columns `o … o+k-1` of an `N × N` identity. -/
def embed [Zero R] [One R] (N o : ℕ) {k : ℕ} (B : Matrix (Fin k) (Fin k) R) :
    Matrix (Fin N) (Fin N) R := place (unshift N o k) B

theorem unshift_partialInv {N o k : ℕ} (hk : o + k ≤ N) :
    Function.IsPartialInv (fun a : Fin k => (⟨a.val + o, by omega⟩ : Fin N)) (unshift N o k) := by
  intro a i
  unfold unshift
  constructor
  · intro h
    split at h
    · rename_i hc
      have := Option.some.inj h
      apply Fin.ext
      have := congrArg Fin.val this
      simp at this
      simp; omega
    · simp at h
  · intro h
    subst h
    simp
    omega

theorem embed_one [Zero R] [One R] {N o k : ℕ} (hk : o + k ≤ N) :
    embed N o (1 : Matrix (Fin k) (Fin k) R) = 1 :=
  place_one (unshift_partialInv hk)

theorem embed_mul [CommRing R] {N o k : ℕ} (hk : o + k ≤ N) (B C : Matrix (Fin k) (Fin k) R) :
    embed N o B * embed N o C = embed N o (B * C) :=
  place_mul (unshift_partialInv hk) B C

theorem embed_conjTranspose [CommRing R] [StarRing R] (N o : ℕ) {k : ℕ}
    (B : Matrix (Fin k) (Fin k) R) : (embed N o B)ᴴ = embed N o Bᴴ :=
  place_conjTranspose (star_zero R) (star_one R) _ B

theorem embed_embed [Zero R] [One R] {N o k o' k' : ℕ} (hk : o + k ≤ N) (hk' : o' + k' ≤ k)
    (B : Matrix (Fin k') (Fin k') R) :
    embed N o (embed k o' B) = embed N (o + o') B := by
  unfold embed
  rw [place_place (unshift_partialInv hk') (unshift_partialInv hk)]
  congr 1
  funext i
  simp only [unshift]
  by_cases h1 : o ≤ i.val ∧ i.val < o + k
  · simp only [h1, and_self, ↓reduceDIte, Option.bind_some, unshift]
    by_cases h2 : o' ≤ i.val - o ∧ i.val - o < o' + k'
    · have : o + o' ≤ i.val ∧ i.val < o + o' + k' := by omega
      simp only [h2, this, and_self, ↓reduceDIte, Option.some.injEq]
      apply Fin.ext; simp; omega
    · have : ¬ (o + o' ≤ i.val ∧ i.val < o + o' + k') := by omega
      simp [h2, this]
  · have : ¬ (o + o' ≤ i.val ∧ i.val < o + o' + k') := by omega
    simp [h1, this]

/-- A full-size embedding at offset 0 is the matrix itself. -/
theorem embed_full [Zero R] [One R] {N : ℕ} (B : Matrix (Fin N) (Fin N) R) :
    embed N 0 B = B := by
  ext i j
  simp [embed, place, unshift]

/-! ### unitarity (as two-sided inverse by the conjugate transpose) -/

/-- `U` is unitary: `U Uᴴ = 1` and `Uᴴ U = 1` (decidable at `GQ`). -/
def IsUnitary {n : Type*} [Fintype n] [DecidableEq n] [CommRing R] [StarRing R]
    (U : Matrix n n R) : Prop := U * Uᴴ = 1 ∧ Uᴴ * U = 1

theorem isUnitary_one {n : Type*} [Fintype n] [DecidableEq n] [CommRing R] [StarRing R] :
    IsUnitary (1 : Matrix n n R) := by simp [IsUnitary]

theorem IsUnitary.mul {n : Type*} [Fintype n] [DecidableEq n] [CommRing R] [StarRing R]
    {U V : Matrix n n R} (hU : IsUnitary U) (hV : IsUnitary V) : IsUnitary (U * V) := by
  constructor
  · rw [conjTranspose_mul, Matrix.mul_assoc, ← Matrix.mul_assoc V, hV.1, Matrix.one_mul, hU.1]
  · rw [conjTranspose_mul, Matrix.mul_assoc, ← Matrix.mul_assoc Uᴴ, hU.2, Matrix.one_mul, hV.2]

theorem IsUnitary.embed [CommRing R] [StarRing R] {N o k : ℕ} (hk : o + k ≤ N)
    {B : Matrix (Fin k) (Fin k) R} (hB : IsUnitary B) : IsUnitary (embed N o B) := by
  constructor
  · rw [embed_conjTranspose, embed_mul hk, hB.1, embed_one hk]
  · rw [embed_conjTranspose, embed_mul hk, hB.2, embed_one hk]

end PM
