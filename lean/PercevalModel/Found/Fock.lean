/-
  F2 — Fock space.  A Fock state is a `List ℕ` (photons per mode).  `allStates m n` is the
  enumeration in the order of the native iterator (descending lexicographic).  `pamp U s t` is the
  un-normalised boson-sampling amplitude `perm(U[t|s])`; the documented amplitude is
  `pamp / √(∏ sᵢ! ∏ tⱼ!)`.  Mathlib's `Matrix.permanent` is the specification.
-/
import Mathlib.LinearAlgebra.Matrix.Permanent
import Mathlib.Algebra.BigOperators.Group.List.Basic
import PercevalModel.Num.GQ

open Matrix

namespace PM.Fock

/-- all states of `m` modes with `n` photons, first mode descending (`|2,0>, |1,1>, |0,2>`) -/
def allStates : ℕ → ℕ → List (List ℕ)
  | 0, 0 => [[]]
  | 0, _ + 1 => []
  | m + 1, n => (List.range (n + 1)).reverse.flatMap fun k => (allStates m (n - k)).map (k :: ·)

theorem mem_allStates_iff : ∀ (m n : ℕ) (t : List ℕ),
    t ∈ allStates m n ↔ t.length = m ∧ t.sum = n
  | 0, 0, t => by
    simp only [allStates, List.mem_singleton]
    constructor
    · rintro rfl; simp
    · rintro ⟨h, _⟩; exact List.length_eq_zero_iff.mp h
  | 0, n + 1, t => by
    simp only [allStates, List.not_mem_nil, false_iff, not_and]
    intro h; rw [List.length_eq_zero_iff.mp h]; simp
  | m + 1, n, t => by
    simp only [allStates, List.mem_flatMap, List.mem_reverse, List.mem_range, List.mem_map]
    constructor
    · rintro ⟨k, hk, r, hr, rfl⟩
      obtain ⟨h1, h2⟩ := (mem_allStates_iff m (n - k) r).1 hr
      simp [h1, h2]; omega
    · rintro ⟨h1, h2⟩
      cases t with
      | nil => simp at h1
      | cons k r =>
        simp at h1 h2
        refine ⟨k, by omega, r, ?_, rfl⟩
        exact (mem_allStates_iff m (n - k) r).2 ⟨h1, by omega⟩

theorem allStates_nodup : ∀ (m n : ℕ), (allStates m n).Nodup
  | 0, 0 => by simp [allStates]
  | 0, n + 1 => by simp [allStates]
  | m + 1, n => by
    simp only [allStates]
    rw [List.nodup_flatMap]
    constructor
    · intro k _
      exact (allStates_nodup m (n - k)).map (fun a b h => by simpa using h)
    · apply List.Pairwise.imp_of_mem (R := fun a b => a ≠ b)
      · intro a b _ _ hab
        simp only [Function.onFun, List.disjoint_left, List.mem_map]
        rintro x ⟨r, _, rfl⟩ ⟨r', _, h⟩
        simp at h
        exact hab h.1.symm
      · exact (List.nodup_reverse.2 List.nodup_range)

/-- mode index `i` repeated `sᵢ` times: `[2,0,1] ↦ [0,0,2]` -/
def expandFrom (i : ℕ) : List ℕ → List ℕ
  | [] => []
  | c :: r => List.replicate c i ++ expandFrom (i + 1) r

def expand (s : List ℕ) : List ℕ := expandFrom 0 s

theorem expandFrom_length (i : ℕ) (s : List ℕ) : (expandFrom i s).length = s.sum := by
  induction s generalizing i with
  | nil => rfl
  | cons c r ih => simp [expandFrom, ih]

theorem expand_length (s : List ℕ) : (expand s).length = s.sum := expandFrom_length 0 s

/-- `∏ sᵢ!` (`BasicState.prodnfact`) -/
def prodFact (s : List ℕ) : ℕ := (s.map Nat.factorial).prod

variable {R : Type*}

/-- total entry lookup: `U[a, b]`, zero outside the matrix -/
def entry [Zero R] {m : ℕ} (U : Matrix (Fin m) (Fin m) R) (a b : ℕ) : R :=
  if h : a < m ∧ b < m then U ⟨a, h.1⟩ ⟨b, h.2⟩ else 0

/-- `U[t|s]`: row `i` is the mode of the `i`-th output photon, column `j` that of the `j`-th
input photon -/
def subMat [Zero R] {m : ℕ} (U : Matrix (Fin m) (Fin m) R) (s t : List ℕ) :
    Matrix (Fin s.sum) (Fin s.sum) R :=
  fun i j => entry U ((expand t).getD i.val 0) ((expand s).getD j.val 0)

/-- un-normalised amplitude `perm(U[t|s])`, zero when the photon numbers differ -/
def pamp [CommRing R] {m : ℕ} (U : Matrix (Fin m) (Fin m) R) (s t : List ℕ) : R :=
  if s.sum = t.sum then (subMat U s t).permanent else 0

/-- probability `|perm|² / (∏ sᵢ! ∏ tⱼ!)` at `GQ` -/
def prob {m : ℕ} (U : Matrix (Fin m) (Fin m) GQ) (s t : List ℕ) : ℚ :=
  GQ.normSq (pamp U s t) / ((prodFact s : ℚ) * (prodFact t : ℚ))

/-- A mask is a list of optional photon counts per mode (`none` = any).  Semantics of the native
`FSMask` instantiated for `n` photons, on a state `t` with `k ≤ n` photons (`slack = n - k`):
every constrained mode has `tᵢ ≤ dᵢ` and the total deficit `∑ (dᵢ - tᵢ)` is at most the slack.
For `slack = 0` this is `tᵢ = dᵢ` on every constrained mode. -/
def maskOk (mask : List (Option ℕ)) (slack : ℕ) (t : List ℕ) : Bool :=
  ((mask.zip t).all fun p => match p.1 with | none => true | some d => p.2 ≤ d) &&
  ((mask.zip t).map fun p => match p.1 with | none => 0 | some d => d - p.2).sum ≤ slack

/-- several masks: any of them; no mask at all: everything -/
def masksOk (masks : List (List (Option ℕ))) (slack : ℕ) (t : List ℕ) : Bool :=
  masks.isEmpty || masks.any (maskOk · slack t)

def allStatesMasked (m n : ℕ) (masks : List (List (Option ℕ))) (slack : ℕ := 0) :
    List (List ℕ) :=
  (allStates m n).filter (masksOk masks slack)

end PM.Fock
