/-
  Materialised matrices.  A Mathlib `Matrix` is a closure; a product of `d` of them, evaluated
  naively, re-evaluates its factors `n^d` times.  Executable models therefore pass matrices
  between recursive calls as first-order data (`MatV`, a vector of rows), and convert at the
  boundary.  `toMatrix (ofMatrix M) = M` is proved, so specifications are stated on `Matrix`.
-/
import Mathlib.Data.Matrix.Mul

namespace PM
variable {R : Type*}

/-- an `n × m` matrix as data -/
abbrev MatV (R : Type*) (n m : ℕ) := Vector (Vector R m) n

def MatV.ofMatrix {n m : ℕ} (M : Matrix (Fin n) (Fin m) R) : MatV R n m :=
  Vector.ofFn fun i => Vector.ofFn fun j => M i j

def MatV.toMatrix {n m : ℕ} (v : MatV R n m) : Matrix (Fin n) (Fin m) R :=
  fun i j => v[i.val][j.val]

@[simp] theorem MatV.toMatrix_ofMatrix {n m : ℕ} (M : Matrix (Fin n) (Fin m) R) :
    (MatV.ofMatrix M).toMatrix = M := by
  funext i j
  simp [MatV.toMatrix, MatV.ofMatrix]

theorem MatV.ofMatrix_toMatrix {n m : ℕ} (v : MatV R n m) :
    MatV.ofMatrix v.toMatrix = v := by
  apply Vector.ext; intro i hi
  apply Vector.ext; intro j hj
  simp [MatV.toMatrix, MatV.ofMatrix]

end PM
