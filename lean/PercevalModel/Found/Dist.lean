/-
  F3 — finitely supported (sub-)distributions over Fock states, as association lists over ℚ.
  Duplicated keys are allowed; the meaning of a list is `get` (the sum over equal keys).
-/
import Mathlib.Algebra.Order.Field.Rat
import Mathlib.Algebra.BigOperators.Group.List.Basic
import Mathlib.Tactic.Ring

namespace PM.Dist

abbrev Fock := List ℕ
abbrev D := List (Fock × ℚ)

def mass (d : D) : ℚ := (d.map (·.2)).sum

/-- probability of one outcome (sum over duplicated keys) -/
def get (d : D) (t : Fock) : ℚ := ((d.filter (·.1 == t)).map (·.2)).sum

def scale (c : ℚ) (d : D) : D := d.map fun p => (p.1, c * p.2)

def restrict (ok : Fock → Bool) (d : D) : D := d.filter fun p => ok p.1

def mapKeys (f : Fock → Fock) (d : D) : D := d.map fun p => (f p.1, p.2)

/-- `normalize`: divide by the mass (unchanged when the mass is zero) -/
def normalize (d : D) : D := if mass d = 0 then d else scale (mass d)⁻¹ d

/-- mode-wise sum of two states (`BasicState.merge` without annotations) -/
def fadd : Fock → Fock → Fock
  | a :: as, b :: bs => (a + b) :: fadd as bs
  | [], bs => bs
  | as, [] => as

/-- convolution: independent groups of photons on the same modes (`list_tensor_product(merge_modes=True)`) -/
def conv (d1 d2 : D) : D := d1.flatMap fun p => d2.map fun q => (fadd p.1 q.1, p.2 * q.2)

/-- mixture `∑ wᵢ · dᵢ` -/
def mix : List (ℚ × D) → D
  | [] => []
  | (w, d) :: rest => scale w d ++ mix rest

/-- aggregate duplicated keys (first-occurrence order) -/
def compress (d : D) : D :=
  d.foldl (fun acc p =>
    if acc.any (·.1 == p.1) then acc.map (fun q => if q.1 == p.1 then (q.1, q.2 + p.2) else q)
    else acc ++ [p]) []

@[simp] theorem mass_nil : mass [] = 0 := rfl
@[simp] theorem mass_cons (p : Fock × ℚ) (d : D) : mass (p :: d) = p.2 + mass d := by simp [mass]
@[simp] theorem mass_append (a b : D) : mass (a ++ b) = mass a + mass b := by simp [mass]

theorem mass_scale (c : ℚ) (d : D) : mass (scale c d) = c * mass d := by
  induction d with
  | nil => simp [scale]
  | cons p r ih =>
    simp only [scale, List.map_cons, mass_cons] at *
    rw [ih]; ring

theorem mass_mapKeys (f : Fock → Fock) (d : D) : mass (mapKeys f d) = mass d := by
  simp [mass, mapKeys, Function.comp_def]

theorem mass_conv (d1 d2 : D) : mass (conv d1 d2) = mass d1 * mass d2 := by
  induction d1 with
  | nil => simp [conv]
  | cons p r ih =>
    have h : mass (d2.map fun q => (fadd p.1 q.1, p.2 * q.2)) = p.2 * mass d2 := by
      have := mass_scale p.2 (mapKeys (fadd p.1) d2)
      simpa [scale, mapKeys, mass, Function.comp_def] using this
    simp only [conv, List.flatMap_cons, mass_append, mass_cons] at *
    rw [h, ih]; ring

theorem mass_mix (l : List (ℚ × D)) : mass (mix l) = (l.map fun p => p.1 * mass p.2).sum := by
  induction l with
  | nil => simp [mix]
  | cons p r ih =>
    obtain ⟨w, d⟩ := p
    simp [mix, mass_scale, ih]

/-- a mixture of unit-mass members with weights summing to one has unit mass -/
theorem mass_mix_one (l : List (ℚ × D)) (hm : ∀ p ∈ l, mass p.2 = 1)
    (hw : (l.map (·.1)).sum = 1) : mass (mix l) = 1 := by
  rw [mass_mix, ← hw]
  congr 1
  apply List.map_congr_left
  intro p hp
  rw [hm p hp, mul_one]

theorem mass_normalize (d : D) (h : mass d ≠ 0) : mass (normalize d) = 1 := by
  simp [normalize, h, mass_scale]

theorem normalize_of_mass_one (d : D) (h : mass d = 1) : normalize d = d := by
  have : mass d ≠ 0 := by rw [h]; exact one_ne_zero
  simp only [normalize, this, ↓reduceIte, h, inv_one, scale]
  induction d with
  | nil => rfl
  | cons p r _ => simp

theorem get_scale (c : ℚ) (d : D) (t : Fock) : get (scale c d) t = c * get d t := by
  induction d with
  | nil => simp [get, scale]
  | cons p r ih =>
    simp only [get, scale, List.map_cons, List.filter_cons] at *
    by_cases h : p.1 == t <;> simp [h, ih, mul_add]

theorem get_append (a b : D) (t : Fock) : get (a ++ b) t = get a t + get b t := by
  simp [get, List.filter_append]

/-- the probability of an outcome under a mixture is the weighted sum of the members' -/
theorem get_mix (l : List (ℚ × D)) (t : Fock) :
    get (mix l) t = (l.map fun p => p.1 * get p.2 t).sum := by
  induction l with
  | nil => simp [mix, get]
  | cons p r ih =>
    obtain ⟨w, d⟩ := p
    simp [mix, get_append, get_scale, ih]

theorem mass_restrict_add (ok : Fock → Bool) (d : D) :
    mass (restrict ok d) + mass (restrict (fun t => !ok t) d) = mass d := by
  induction d with
  | nil => simp [restrict]
  | cons p r ih =>
    simp only [restrict, List.filter_cons] at *
    by_cases h : ok p.1
    · simp only [h, ↓reduceIte, Bool.not_true, Bool.false_eq_true, mass_cons]
      rw [← ih]; ring
    · simp only [h, Bool.false_eq_true, ↓reduceIte, Bool.not_eq_true, Bool.not_false, mass_cons]
      rw [← ih]; ring

theorem restrict_restrict (f g : Fock → Bool) (d : D) :
    restrict f (restrict g d) = restrict (fun t => g t && f t) d := by
  simp [restrict, List.filter_filter, Bool.and_comm]

end PM.Dist
