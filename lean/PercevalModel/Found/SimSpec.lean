/-
  Specification of noiseless strong simulation with distinguishable photons, superpositions,
  mixtures, heralds, post-selection and a photon-number filter — the physics the `Simulator`
  layer must implement (properties C03, C04, C05).  Exact over ℚ[i] / ℚ.

  Conventions that keep everything rational:
  * a superposition term carries the *rescaled* coefficient `c' = c / √(∏_g ∏ s_g!)`;
  * amplitudes are un-normalised permanents; probabilities divide by the factorials of the
    output and by the squared norm of the input, both rational.
-/
import PercevalModel.Found.Fock
import PercevalModel.Found.Dist

namespace PM.SimSpec
open PM.Fock PM.Dist

/-- One term of a superposition over an ordered tag universe: rescaled coefficient and, for each
tag, the Fock state of the photons carrying that tag (vacuum when the term has none). -/
structure Term where
  coef : GQ
  groups : List Fock

/-- all tuples `(t_g)_g` of per-tag outputs with the product of un-normalised amplitudes -/
def tuples {m : ℕ} (U : Matrix (Fin m) (Fin m) GQ) : List Fock → List (List Fock × GQ)
  | [] => [([], 1)]
  | s :: rest =>
    (allStates m s.sum).flatMap fun t => (tuples U rest).map fun p => (t :: p.1, pamp U s t * p.2)

def termAmps {m : ℕ} (U : Matrix (Fin m) (Fin m) GQ) (term : Term) : List (List Fock × GQ) :=
  (tuples U term.groups).map fun p => (p.1, term.coef * p.2)

/-- sum amplitudes of equal annotated outputs (interference happens only there) -/
def gatherAmps (l : List (List Fock × GQ)) : List (List Fock × GQ) :=
  l.foldl (fun acc p =>
    if acc.any (·.1 == p.1) then acc.map (fun q => if q.1 == p.1 then (q.1, q.2 + p.2) else q)
    else acc ++ [p]) []

/-- annotated outputs of a superposition: linear in the terms by construction -/
def svAmps {m : ℕ} (U : Matrix (Fin m) (Fin m) GQ) (terms : List Term) : List (List Fock × GQ) :=
  gatherAmps (terms.flatMap (termAmps U))

/-- squared norm of the input superposition `∑ |c'|² ∏ s!` -/
def svNorm2 (terms : List Term) : ℚ :=
  (terms.map fun t => GQ.normSq t.coef * ((t.groups.map prodFact).prod : ℚ)).sum

def zeros (m : ℕ) : Fock := List.replicate m 0

/-- un-annotated output state of a tuple: mode-wise sum over the tags -/
def flattenTuple (m : ℕ) (ts : List Fock) : Fock := ts.foldl fadd (zeros m)

/-- output distribution of a (normalised) superposition -/
def probsSV {m : ℕ} (U : Matrix (Fin m) (Fin m) GQ) (terms : List Term) : D :=
  (svAmps U terms).map fun p =>
    (flattenTuple m p.1, GQ.normSq p.2 / ((p.1.map prodFact).prod : ℚ) / svNorm2 terms)

/-- output distribution of one group of indistinguishable photons -/
def probsFock {m : ℕ} (U : Matrix (Fin m) (Fin m) GQ) (s : Fock) : D :=
  (allStates m s.sum).map fun t => (t, prob U s t)

/-- a tagged Fock input: convolution of its groups -/
def probsTagged {m : ℕ} (U : Matrix (Fin m) (Fin m) GQ) (groups : List Fock) : D :=
  groups.foldl (fun acc s => conv acc (probsFock U s)) [(zeros m, 1)]

/-- statistical mixture of superpositions -/
def probsSVD {m : ℕ} (U : Matrix (Fin m) (Fin m) GQ) (members : List (ℚ × List Term)) : D :=
  mix (members.map fun p => (p.1, probsSV U p.2))

/-! ### conditioning: photon filter, heralds, post-selection -/

inductive Cmp | eq | lt | gt | le | ge
deriving DecidableEq, Repr

/-- post-selection expressions: `[modes] op k`, and / or / xor / not -/
inductive PS where
  | tt
  | cond (modes : List ℕ) (op : Cmp) (k : ℕ)
  | and (a b : PS)
  | or (a b : PS)
  | xor (a b : PS)
  | not (a : PS)
deriving Repr

def Cmp.eval : Cmp → ℕ → ℕ → Bool
  | .eq, a, b => a == b
  | .lt, a, b => a < b
  | .gt, a, b => a > b
  | .le, a, b => a ≤ b
  | .ge, a, b => a ≥ b

def PS.eval : PS → Fock → Bool
  | .tt, _ => true
  | .cond modes op k, t => op.eval ((modes.map fun i => t.getD i 0).sum) k
  | .and a b, t => a.eval t && b.eval t
  | .or a b, t => a.eval t || b.eval t
  | .xor a b, t => Bool.xor (a.eval t) (b.eval t)
  | .not a, t => !a.eval t

structure Cond where
  heralds : List (ℕ × ℕ)      -- (mode, expected count)
  ps : PS
  minPhotons : ℕ               -- on the full output state (heralded modes included)
  keepHeralds : Bool

def heraldsOk (h : List (ℕ × ℕ)) (t : Fock) : Bool := h.all fun p => t.getD p.1 0 == p.2
def physOk (c : Cond) (t : Fock) : Bool := c.minPhotons ≤ t.sum
def logicOk (c : Cond) (t : Fock) : Bool := heraldsOk c.heralds t && c.ps.eval t

/-- drop the heralded modes from a state -/
def removeModes (modes : List ℕ) (t : Fock) : Fock :=
  (t.zipIdx.filter fun p => !modes.contains p.2).map (·.1)

def reported (c : Cond) (t : Fock) : Fock :=
  if c.keepHeralds then t else removeModes (c.heralds.map (·.1)) t

/-- retained (un-normalised) part of the full distribution -/
def retained (c : Cond) (d : D) : D := restrict (fun t => physOk c t && logicOk c t) d

/-- the distribution a processor reports -/
def conditioned (c : Cond) (d : D) : D := normalize (mapKeys (reported c) (retained c d))

def physPerf (c : Cond) (d : D) : ℚ := mass (restrict (physOk c) d)

def logicalPerf (c : Cond) (d : D) : ℚ :=
  if physPerf c d = 0 then 0 else mass (retained c d) / physPerf c d

theorem perf_product (c : Cond) (d : D) (h : physPerf c d ≠ 0) :
    physPerf c d * logicalPerf c d = mass (retained c d) := by
  simp only [logicalPerf, h, ↓reduceIte]
  exact mul_div_cancel₀ _ h

theorem conditioned_mass_one (c : Cond) (d : D) (h : mass (retained c d) ≠ 0) :
    mass (conditioned c d) = 1 := by
  apply mass_normalize
  rwa [mass_mapKeys]

end PM.SimSpec
