/-
  F4 — generic state machines: `run` over an operation list, invariant lifting, refinement lifting.
  Core Lean only.
-/
namespace PM.SM

variable {S Op Out : Type}

/-- run a step function over a list of operations, collecting outputs -/
def run (step : S → Op → S × Out) : S → List Op → S × List Out
  | s, [] => (s, [])
  | s, op :: ops =>
    let (s', o) := step s op
    let (s'', os) := run step s' ops
    (s'', o :: os)

/-- final state only -/
def exec (step : S → Op → S × Out) (s : S) (ops : List Op) : S := (run step s ops).1

theorem exec_nil (step : S → Op → S × Out) (s : S) : exec step s [] = s := rfl

theorem exec_cons (step : S → Op → S × Out) (s : S) (op : Op) (ops : List Op) :
    exec step s (op :: ops) = exec step (step s op).1 ops := by
  simp [exec, run]

theorem exec_append (step : S → Op → S × Out) (s : S) (a b : List Op) :
    exec step s (a ++ b) = exec step (exec step s a) b := by
  induction a generalizing s with
  | nil => rfl
  | cons x xs ih => simp [exec_cons, ih]

/-- an invariant preserved by every step holds after every history -/
theorem inv_exec (step : S → Op → S × Out) (Inv : S → Prop)
    (hstep : ∀ s op, Inv s → Inv (step s op).1) (s : S) (h : Inv s) (ops : List Op) :
    Inv (exec step s ops) := by
  induction ops generalizing s with
  | nil => exact h
  | cons x xs ih => rw [exec_cons]; exact ih _ (hstep s x h)

/-- every output produced along a history satisfies `P`, if each step's does under the invariant -/
theorem outputs_run (step : S → Op → S × Out) (Inv : S → Prop) (P : Out → Prop)
    (hstep : ∀ s op, Inv s → Inv (step s op).1 ∧ P (step s op).2) (s : S) (h : Inv s)
    (ops : List Op) : ∀ o ∈ (run step s ops).2, P o := by
  induction ops generalizing s with
  | nil => intro o ho; simp [run] at ho
  | cons x xs ih =>
    intro o ho
    simp only [run, List.mem_cons] at ho
    rcases ho with rfl | ho
    · exact (hstep s x h).2
    · exact ih _ (hstep s x h).1 o ho

/-- refinement: a simulation relation preserved by matching steps lifts to whole histories,
and the two machines produce the same outputs -/
theorem refine_run {S' : Type} (step : S → Op → S × Out) (spec : S' → Op → S' × Out)
    (Rel : S → S' → Prop)
    (hstep : ∀ s a op, Rel s a → Rel (step s op).1 (spec a op).1 ∧ (step s op).2 = (spec a op).2)
    (s : S) (a : S') (h : Rel s a) (ops : List Op) :
    Rel (run step s ops).1 (run spec a ops).1 ∧ (run step s ops).2 = (run spec a ops).2 := by
  induction ops generalizing s a with
  | nil => exact ⟨h, rfl⟩
  | cons x xs ih =>
    obtain ⟨h1, h2⟩ := hstep s a x h
    obtain ⟨h3, h4⟩ := ih _ _ h1
    simp only [run]
    exact ⟨h3, by rw [h2, h4]⟩

end PM.SM
