"""C04 — heralds, post-selection and the photon filter condition the output exactly.

Correspondence.  Random configurations (circuit, heralds anywhere with values 0/1/2, post-selection
expression, filter 0..n+1 or left to the automatic default, tagged / noisy / superposed inputs, keep_heralds
both ways, SLOS and Naive) are run through the public entry points `Simulator.probs_svd` and
`Processor.probs()` at precision 0.  The Lean driver evaluates, exactly, on the very matrix the circuit reports,
  (a) the specification: the unconditioned Fock-space distribution, then `conditioned` / `physPerf` /
      `logicalPerf` of `Found/SimSpec.lean`;
  (b) the code-shaped model `PM.C04.probsSvd` (herald mask with the per-group budget `_best_n`, input-side
      filter, logical-performance bookkeeping, `post_select_distribution`),
and `Experiment.with_input` is compared with `PM.C04.interleave`.  On a disagreement the property is
evaluated directly on the real code without Lean: the unconditioned distribution from a selection-free
`Simulator` on the same circuit and input, conditioned by 15 lines of Python (`direct_oracle`).

Shapes the generator must produce (each has a required branch counter):
  * heralds *declared* in any order (`add_herald` calls / insertion order of the `heralds` dict), in particular
    descending with a free mode after the highest herald;
  * detector layouts: none, all PNR, all threshold, mixed (threshold / interleaved pseudo-PNR on data modes while the
    heralded modes stay PNR, threshold on a heralded mode, detectors declared before or after the heralds); the
    specification then conditions the distribution of the *detected* pattern (`PM.C04.detectedFull`), the
    direct oracle pushes the unconditioned distribution through closed-form detector kernels;
  * a long-lived `Simulator` / `Processor` that already answered another request (other heralds, filter,
    post-selection, detectors, input, noise) before the judged one: the answer must not depend on the history.
Further batches (each with required branch counters):
  * trimming: fast-path configurations (no detectors / PNR detectors) run at the DEFAULT precision and at explicit
    non-zero precisions, with member weights spread over orders of magnitude and weakly coupling circuits, so that both
    thresholds (`_preprocess_svd`, `list_tensor_product`) bite; the answer is compared (a) with the exact
    specification within the distance PROVED for the trimming model (`physical_perf_trim_exact`,
    `logical_perf_trim_bound`, `results_trim_bound`; trimmed mass computed exactly by the driver), (b) tightly with the
    trimming model itself (thresholds as coded) unless a compared quantity sits within 1e-6 (relative) of its
    threshold; direct oracle: selection-free simulator at precision 0 conditioned in Python, with a Lean-independent
    a-priori bound of what the thresholds can remove;
  * sessions: one `Simulator` / `Processor` driven through 2–4 queries with selection changes in between through every
    API (`set_selection` with some arguments None, `set_heralds`, `clear_heralds`, `set_postselection`,
    `clear_postselection`, filter, `keep_heralds`; processor: `set_postselection` / `clear_postselection` / filter);
    every query is compared with the Lean state machine `PM.C04.simStep` / `procStep` (concrete backend mask, sorted
    walk), which the driver also compares with the stateless model of the selection in force (instances of
    `simulator_selection_history_independent` / `processor_selection_history_independent`); direct oracle: a FRESH
    object given only the selection in force;
  * superposed inputs are now compared with the code-shaped model `PM.C04.probsSvdGen` as well as the specification.
  * detector-trim batch: layouts with a threshold / pseudo-PNR detector at the default and explicit precisions against
    `PM.C04.probsSvdDetθ` (tight) and against the specification within `physical_perf_trim_bound_detectors`,
    `logical_perf_trim_bound_detectors`, `results_trim_bound_detectors`; direct oracle within the PROVED a-priori bound
    (`trimmed_mass_apriori` / `trimmed_mass_det_apriori`) computed here from the sizes only;
  * superposed-trim batch: superposed inputs at the default and explicit precisions against `PM.C04.probsSvdGenθ`
    (masked amplitudes, `_merge_sv` threshold; tight), against the exact masked model at threshold 0, and against the
    specification within the distance given by the proved error distribution;
  * early-exit batch: heralds a detector cannot report (`check_heralds_detectors`).
  * multi-photon-number batch: mixtures in which a member superposes Fock states with DIFFERENT photon numbers (vacuum,
    numbers below / at / above what heralds and filter require), through `Simulator.probs_svd` and
    `Processor.with_input(StateVector | SVDistribution).probs()`, with heralds, post-selection, total filter not above
    the smallest sector / between the sectors / above all, keep_heralds both ways, no / PNR / non-PNR detectors:
    `_preprocess_svd`'s photon-count split in front of the generic path, against the specification (conditioning of
    `probsSVD` of the un-split members), the model `PM.C04.probsSvdGenS` (theorem `condition_spec_superposed_split`)
    and the generic model on the mixture of the sectors; the direct oracle splits the sectors by hand.
The real code runs in a separate worker process: a native crash (or a hang) of the code under test on a legal
input is reported as a violation with the configuration that triggers it instead of killing the harness.
"""
from __future__ import annotations

import copy
import glob
import json
import math
import os
import signal
from fractions import Fraction

import numpy as np

from . import core, gens

OPS = ["==", "<", ">", "<=", ">="]
TOL = 1e-9
# The code drops probabilities below min_p = 1e-16 and works in double precision: a conditioned distribution whose
# exact retained mass r is positive but tiny is either returned empty or normalised with a relative error ~1e-17/r.
# Below ZERO the answer must be empty; up to TINY the normalised entries are not compared (the performances are).
ZERO = 1e-17
TINY = 1e-7


# ------------------------------------------------------------------------------------------------
# generation
# ------------------------------------------------------------------------------------------------
def gen_circuit(rng, m):
    """a few elementary components followed/preceded by a Haar block: dense matrix, dyadic entries"""
    comps = []
    r = rng.random()
    if r < 0.55:
        comps.append([0, {"t": "UH", "n": m, "seed": rng.randrange(1 << 30)}])
    depth = rng.randint(1, 5) if r >= 0.55 else rng.randint(0, 2)
    for _ in range(depth if r < 0.85 else 2 * m + 2):
        leaf = gens.gen_leaf(rng, m, kinds=("BS", "BS", "PS", "PERM", "UH"))
        w = gens.leaf_width(leaf)
        if w > m:
            continue
        comps.append([rng.randint(0, m - w), leaf])
    return {"m": m, "comps": comps}


def build_circuit(spec):
    import perceval as pcvl
    c = pcvl.Circuit(spec["m"])
    for off, leaf in spec["comps"]:
        c.add(off, build_weak(leaf) if leaf["t"] == "W" else gens.build_leaf(leaf))
    return c


def build_weak(leaf):
    """2-mode rotation with a tiny rational sine (Pythagorean triple): transition probabilities ~ 4/k^2"""
    import perceval as pcvl
    from perceval.components import Unitary
    k = leaf["k"]
    c_, s_ = (k * k - 1) / (k * k + 1), 2 * k / (k * k + 1)
    return Unitary(pcvl.Matrix(np.array([[c_, -s_], [s_, c_]], dtype=complex)))


def gen_ps(rng, m, depth):
    """-> (PostSelect source string, Lean json)"""
    if depth == 0 or rng.random() < 0.35:
        modes = sorted(rng.sample(range(m), rng.randint(1, min(3, m))))
        op = rng.choice(OPS)
        k = rng.randint(0, 1) if rng.random() < 0.8 else rng.randint(2, 4)
        return f"[{','.join(map(str, modes))}] {op} {k}", {"c": modes, "op": op, "k": k}
    kind = rng.choice(["and", "or", "or", "xor", "not"])
    a, ja = gen_ps(rng, m, depth - 1)
    if kind == "not":
        return f"!({a})", {"not": ja}
    b, jb = gen_ps(rng, m, depth - 1)
    sym = {"and": "&", "or": "|", "xor": "^"}[kind]
    return f"(({a}) {sym} ({b}))", {kind: [ja, jb]}


def gen_heralds(rng, m, allow2):
    r = rng.random()
    if r < 0.12:
        k = 0
    elif r < 0.55:
        k = 1
    elif r < 0.88:
        k = min(2, m)
    else:
        k = rng.randint(min(2, m), max(2, m - 1))
    modes = sorted(rng.sample(range(m), k))
    if k >= 2 and rng.random() < 0.4:            # adjacent heralds
        s = rng.randint(0, m - k)
        modes = list(range(s, s + k))
    out = []
    for i in modes:
        r = rng.random()
        v = 1 if r < 0.5 else (0 if r < 0.93 or not allow2 else 2)
        out.append([i, v])
    return out


def declare(rng, heralds):
    """the order in which the heralds are *declared* (add_herald calls / dict insertion): mode order, shuffled,
    or descending"""
    if len(heralds) < 2:
        return heralds
    r = rng.random()
    if r < 0.45:
        return heralds
    if r < 0.75:
        return sorted(heralds, reverse=True)
    hs = list(heralds)
    rng.shuffle(hs)
    return hs


def gen_dets(rng, m, heralds, nmax):
    """per mode: None (no detector) | "pnr" | "thr" | ["ppnr", wires, max_detections or None]; or None = no
    detector list at all.  A herald is never given a detector that cannot report its value
    (`check_heralds_detectors` answers that configuration with an early exit that is outside the statement)."""
    r = rng.random()
    if r < 0.4:
        return None
    hm = {k: v for k, v in heralds}

    def nonpnr():
        if rng.random() < 0.6:
            return "thr"
        w = rng.randint(2, 3)
        return ["ppnr", w, rng.choice([None, None, 1, 2]) if w > 2 else rng.choice([None, 1, 2])]

    if r < 0.48:
        dets = ["pnr" if rng.random() < 0.5 else None for _ in range(m)]
    elif r < 0.6:
        dets = ["thr"] * m
    elif r < 0.85 and len(hm) < m:
        # heralded modes photon-number resolved, something else on at least one data mode
        dets = [rng.choice([None, "pnr"]) if k in hm else rng.choice([None, "pnr", nonpnr(), nonpnr()])
                for k in range(m)]
        free = [k for k in range(m) if k not in hm]
        if all(det_is_pnr(dets[k]) for k in free):
            dets[rng.choice(free)] = nonpnr()
    else:
        dets = [rng.choice([None, "pnr", nonpnr(), nonpnr()]) for _ in range(m)]
    for k, v in hm.items():
        if det_max(dets[k]) is not None and det_max(dets[k]) < v:
            dets[k] = "pnr"
    return dets


def det_is_pnr(d):
    return d is None or d == "pnr"


def det_max(d):
    if det_is_pnr(d):
        return None
    if d == "thr":
        return 1
    return d[1] if d[2] is None else min(d[1], d[2])


def dets_all_pnr(dets):
    return not dets or all(det_is_pnr(d) for d in dets)


def gen_tagged_state(rng, m, n, ntags):
    st = [[] for _ in range(m)]
    for _ in range(n):
        st[rng.randrange(m)].append(rng.randrange(ntags) if ntags else -1)
    return [sorted(x) for x in st]


def gen_sim_config(rng, max_m, superposed=False):
    m = rng.randint(2, max_m)
    heralds = gen_heralds(rng, m, allow2=True)
    H = sum(v for _, v in heralds)
    nmax = rng.randint(1, 4 if m <= 4 else 3)
    members = []
    k = rng.randint(1, 4)
    ws = [rng.random() + 0.05 for _ in range(k)]
    tot = sum(ws)
    for w in ws:
        r = rng.random()
        # photon numbers around the herald requirement: below it, exactly, above
        n = rng.choice([H, H + 1, H + 1, H + 2, max(H, nmax)]) if r < 0.8 else rng.randint(0, max(nmax, H))
        n = min(n, 5 if m <= 3 else 4)
        ntags = rng.choice([0, 1, 2, 2, 3, 3])
        if superposed and n >= 1:
            nterms = rng.randint(2, 3)
            terms, seen = [], set()
            for _ in range(nterms):
                # at most one photon per (mode, tag): every factorial is 1, the rescaled coefficient is the coefficient
                st = [[] for _ in range(m)]
                cells = [(i, t) for i in range(m) for t in range(max(1, ntags))]
                if n > len(cells):
                    n = len(cells)
                for (i, t) in rng.sample(cells, n):
                    st[i].append(t if ntags else -1)
                st = [sorted(x) for x in st]
                key = json.dumps(st)
                if key in seen:
                    continue
                seen.add(key)
                terms.append({"coef": [rng.randint(-3, 3), rng.randint(-3, 3)], "state": st})
            terms = [t for t in terms if t["coef"] != [0, 0]]
            if len(terms) >= 2:
                members.append({"w": w / tot, "terms": terms})
                continue
        members.append({"w": w / tot, "state": gen_tagged_state(rng, m, n, ntags)})
    # distinct keys only (an SVDistribution is a dict)
    uniq, seen = [], set()
    for mb in members:
        key = json.dumps(mb.get("state", mb.get("terms")))
        if key not in seen:
            seen.add(key)
            uniq.append(mb)
    tot = sum(mb["w"] for mb in uniq)
    for mb in uniq:
        mb["w"] = mb["w"] / tot
    nin = max([sum(len(x) for x in (mb["state"] if "state" in mb else mb["terms"][0]["state"])) for mb in uniq])
    ps_s, ps_j = (None, True) if rng.random() < 0.3 else gen_ps(rng, m, rng.randint(0, 2))
    cfg = {"kind": "sim", "backend": rng.choice(["SLOS", "SLOS", "Naive"]), "m": m, "circ": gen_circuit(rng, m),
           "heralds": declare(rng, heralds), "ps": ps_s, "psj": ps_j,
           "filter": (rng.randint(0, max(0, nin - H)) if rng.random() < 0.92 else max(0, nin - H) + 1),
           "keep": rng.random() < 0.5, "members": uniq}
    is_sup = any("terms" in mb for mb in uniq)
    cfg["dets"] = None if is_sup else gen_dets(rng, m, heralds, nin)
    if not is_sup and rng.random() < 0.3:
        # the simulator already answered another request: other heralds / filter / post-selection / detectors
        ph = gen_heralds(rng, m, allow2=True) if rng.random() < 0.7 else heralds
        pps, _ = (None, True) if rng.random() < 0.4 else gen_ps(rng, m, rng.randint(0, 1))
        cfg["prev"] = {"heralds": declare(rng, ph), "ps": pps, "filter": rng.randint(0, 2),
                       "keep": rng.random() < 0.5,
                       "dets": gen_dets(rng, m, ph, nin) if rng.random() < 0.6 else cfg["dets"]}
    return cfg


def gen_proc_config(rng, max_m):
    m = rng.randint(2, max_m)
    heralds = gen_heralds(rng, m, allow2=False)
    if len(heralds) == m:
        heralds = heralds[:-1]
    free = m - len(heralds)
    H = sum(v for _, v in heralds)
    budget = max(0, (4 if m <= 4 else 3) - H)
    user = [0] * free
    for _ in range(rng.randint(0, max(1, budget))):
        user[rng.randrange(free)] += 1
    if rng.random() < 0.8:
        user = [min(x, 1) for x in user] if rng.random() < 0.7 else user
    r = rng.random()
    if r < 0.3:
        noise = None
    else:
        noise = {"indistinguishability": rng.choice([0.5, 0.75, 0.9, 1.0]),
                 "transmittance": rng.choice([1.0, 0.8, 0.5]),
                 "g2": (rng.choice([0.0, 0.0, 0.0, 0.05]) if sum(user) + H <= 2 else 0.0)}
        if noise == {"indistinguishability": 1.0, "transmittance": 1.0, "g2": 0.0}:
            noise = None
    nin = sum(user)
    ps_s, ps_j = (None, True) if rng.random() < 0.35 else gen_ps(rng, m, rng.randint(0, 2))
    filt = rng.randint(0, nin) if rng.random() < 0.9 else nin + 1
    if noise is None and rng.random() < 0.25:
        filt = None                                  # automatic default of a perfect source
    cfg = {"kind": "proc", "backend": rng.choice(["SLOS", "SLOS", "Naive"]), "m": m, "circ": gen_circuit(rng, m),
           "heralds": declare(rng, heralds), "ps": ps_s, "psj": ps_j, "filter": filt, "keep": False, "user": user,
           "noise": noise, "dets": gen_dets(rng, m, heralds, nin + H), "dets_first": rng.random() < 0.4}
    if rng.random() < 0.3:
        # the processor already answered probs() with another filter / input / post-selection / noise
        prev = {}
        if filt is not None and rng.random() < 0.6:
            prev["filter"] = rng.choice([x for x in range(0, nin + 2) if x != filt])
        if filt is not None and rng.random() < 0.5:
            u2 = list(user)
            i = rng.randrange(free)
            u2[i] = 0 if u2[i] else 1
            prev["user"] = u2
        if rng.random() < 0.4:
            prev["ps"] = None if ps_s is not None and rng.random() < 0.5 else gen_ps(rng, m, rng.randint(0, 1))[0]
            if prev["ps"] == ps_s:
                del prev["ps"]
        if noise is not None and rng.random() < 0.3:
            prev["noise"] = {"indistinguishability": rng.choice([0.6, 1.0]), "transmittance": rng.choice([0.7, 1.0]),
                             "g2": 0.0}
        if not prev:
            prev["filter"] = (filt + 1) if filt is not None else None
            if prev["filter"] is None:
                prev = {"ps": "[0] >= 0"} if ps_s != "[0] >= 0" else {"ps": None}
        cfg["prev"] = prev
    return cfg


# ------------------------------------------------------------------------------------------------
# members superposing Fock states with DIFFERENT photon numbers (`_preprocess_svd`'s photon-count split in front of
# the generic path; model PM.C04.probsSvdGenS, theorem condition_spec_superposed_split)
# ------------------------------------------------------------------------------------------------
def term_n(t):
    return sum(len(x) for x in t["state"])


def member_ns(mb):
    """photon numbers held by a member, in first-occurrence order"""
    if "state" in mb:
        return [sum(len(x) for x in mb["state"])]
    out = []
    for t in mb["terms"]:
        if term_n(t) not in out:
            out.append(term_n(t))
    return out


def gen_multi_config(rng, max_m):
    """Simulator.probs_svd / Processor.with_input(StateVector | SVDistribution).probs() on a mixture in which at least
    one member superposes 2-3 different photon numbers (the vacuum and numbers below / at / above what the heralds and
    the filter require included), with heralds, post-selection, filters below / between / above the sectors,
    keep_heralds both ways, no / PNR / non-PNR detectors"""
    m = rng.randint(2, max_m)
    entry = "proc" if rng.random() < 0.4 else "sim"
    # (Processor.add_herald accepts the values 0 and 1 only)
    heralds = gen_heralds(rng, m, allow2=entry == "sim" and rng.random() < 0.15)
    if not heralds and rng.random() < 0.7:
        heralds = [[rng.randrange(m), rng.randint(0, 1)]]
    if entry == "proc" and len(heralds) == m:
        heralds = heralds[:-1]
    H = sum(v for _, v in heralds)
    ntags = rng.choice([0, 0, 2])
    cap = min(m * max(1, ntags), 4 if m <= 3 else 3)

    def gen_member(w):
        # 2-3 photon numbers around the herald requirement
        pool = sorted({x for x in (0, H - 1, H, H + 1, H + 2, 1, 2) if 0 <= x <= cap})
        k = min(len(pool), 2 if rng.random() < 0.65 else 3)
        ns = rng.sample(pool, k)
        if rng.random() < 0.3 and 0 not in ns:
            ns[rng.randrange(len(ns))] = 0                     # the vacuum term
        counts = list(ns)
        while len(counts) < rng.randint(len(ns), 4):
            counts.append(rng.choice(ns))                      # several terms of one photon number interfere
        rng.shuffle(counts)
        terms, seen = [], set()
        cells = [(i, t) for i in range(m) for t in range(max(1, ntags))]
        for n in counts:
            st = [[] for _ in range(m)]
            for (i, t) in rng.sample(cells, n):                # at most one photon per (mode, tag): factorials 1
                st[i].append(t if ntags else -1)
            st = [sorted(x) for x in st]
            key = json.dumps(st)
            if key in seen:
                continue
            seen.add(key)
            c = [rng.randint(-3, 3), rng.randint(-3, 3)]
            if c == [0, 0]:
                c = [1, 0]
            terms.append({"coef": c, "state": st})
        return {"w": w, "terms": terms}

    members = []
    k = rng.choice([1, 1, 2, 3])
    ws = [rng.random() + 0.05 for _ in range(k)]
    for i, w in enumerate(ws):
        if i == 0 or rng.random() < 0.5:
            members.append(gen_member(w))
        else:
            n = min(rng.choice([H, H + 1, max(0, H - 1)]), cap)
            members.append({"w": w, "state": gen_tagged_state(rng, m, n, ntags)})
    uniq, seen = [], set()
    for mb in members:
        key = json.dumps(mb.get("state", mb.get("terms")))
        if key not in seen:
            seen.add(key)
            uniq.append(mb)
    tot = sum(mb["w"] for mb in uniq)
    for mb in uniq:
        mb["w"] = mb["w"] / tot
    ns0 = sorted(member_ns(uniq[0]))
    # total threshold (user filter + herald photons): not above the smallest sector / between the sectors / the
    # largest / above everything
    r = rng.random()
    if r < 0.45 or len(ns0) < 2:
        target = rng.randint(0, ns0[0])
    elif r < 0.85:
        target = rng.randint(ns0[0] + 1, ns0[-1])
    else:
        target = ns0[-1] + 1
    ps_s, ps_j = (None, True) if rng.random() < 0.4 else gen_ps(rng, m, rng.randint(0, 2))
    r = rng.random()
    if r < 0.5:
        dets = None
    elif r < 0.7:
        dets = ["pnr" if rng.random() < 0.6 else None for _ in range(m)]
    else:
        dets = gen_dets(rng, m, heralds, cap)
    cfg = {"kind": "sim", "entry": entry, "multi": True, "backend": rng.choice(["SLOS", "SLOS", "Naive"]), "m": m,
           "circ": gen_circuit(rng, m), "heralds": declare(rng, heralds), "ps": ps_s, "psj": ps_j,
           "filter": max(0, target - H), "keep": (rng.random() < 0.5 if entry == "sim" else False),
           "members": uniq, "dets": dets}
    return cfg


def multi_branches(chk, cfg, retained):
    """counters of the shapes the photon-count split needs"""
    pre = "sup-multi-photon-number"
    multi = [mb for mb in cfg["members"] if len(member_ns(mb)) >= 2]
    if not multi:
        return
    H = sum(v for _, v in cfg["heralds"])
    tot = cfg["filter"] + H
    mask = bool(cfg["heralds"]) and dets_all_pnr(cfg.get("dets"))
    chk.branch(pre)
    chk.branch(pre + ("-processor" if cfg.get("entry") == "proc" else "-simulator"))
    if any(len(member_ns(mb)) >= 3 for mb in multi):
        chk.branch(pre + "-three-sectors")
    if len(cfg["members"]) > 1:
        chk.branch(pre + "-inside-mixture")
    if cfg["ps"]:
        chk.branch(pre + "-post-selection")
    if cfg["keep"]:
        chk.branch(pre + "-keep-heralds")
    if not dets_all_pnr(cfg.get("dets")):
        chk.branch(pre + "-non-pnr-detectors")
    elif cfg.get("dets"):
        chk.branch(pre + "-pnr-detectors")
    if mask and retained > 1e-13:
        chk.branch(pre + "-heralds")
        if any(tot <= min(member_ns(mb)) for mb in multi):
            chk.branch(pre + "-filter-below-smallest")
        if any(0 in member_ns(mb) for mb in multi):
            chk.branch(pre + "-vacuum-term")
        if any(min(member_ns(mb)) < tot <= max(member_ns(mb)) for mb in multi):
            chk.branch(pre + "-term-below-filter")


# ------------------------------------------------------------------------------------------------
# the real code
# ------------------------------------------------------------------------------------------------
def bs_of(state):
    import perceval as pcvl
    if all(t == -1 for x in state for t in x):
        return pcvl.BasicState([len(x) for x in state])
    return pcvl.BasicState("|" + ",".join("".join("{_:%d}" % t for t in x) if x else "0" for x in state) + ">")


def tags_of(bs):
    """annotated BasicState -> per-mode list of tag strings (read photon by photon, not via separate_state)"""
    return [sorted(str(a) for a in bs.get_mode_annotations(k)) for k in range(bs.m)]


def groups_of(tagstate):
    """per-mode tag lists -> occupation list per tag, in first-occurrence order"""
    order = []
    for x in tagstate:
        for t in x:
            if t not in order:
                order.append(t)
    m = len(tagstate)
    if not order:
        return [[0] * m]
    return [[sum(1 for t in x if t == tag) for x in tagstate] for tag in order]


def svd_of(members):
    import perceval as pcvl
    svd = pcvl.SVDistribution()
    for mb in members:
        if "state" in mb:
            sv = pcvl.StateVector(bs_of(mb["state"]))
        else:
            sv = pcvl.StateVector()
            for t in mb["terms"]:
                sv += pcvl.StateVector(bs_of(t["state"])) * complex(t["coef"][0], t["coef"][1])
        svd[sv] += mb["w"]
    return svd


def canon_result(res):
    out = {}
    for s, p in res["results"].items():
        out[tuple(s)] = out.get(tuple(s), 0.0) + float(p)
    return {"results": out, "phys": float(res["physical_perf"]), "logical": float(res["logical_perf"]),
            "global": (float(res["global_perf"]) if "global_perf" in res else None)}


def build_det(d):
    from perceval import Detector
    if d is None:
        return None
    if d == "pnr":
        return Detector.pnr()
    if d == "thr":
        return Detector.threshold()
    return Detector.ppnr(d[1], d[2])


def build_dets(dets):
    return None if dets is None else [build_det(d) for d in dets]


def sim_select(sim, st):
    """one request's selection on a (possibly already used) Simulator"""
    import perceval as pcvl
    heralds = {int(k): int(v) for k, v in st["heralds"]}       # insertion order = declaration order
    sim.set_selection(min_detected_photons_filter=st["filter"], heralds=heralds,
                      postselect=pcvl.PostSelect(st["ps"]) if st["ps"] else None)
    if not st["ps"]:
        sim.clear_postselection()
    sim.keep_heralds(st["keep"])


def run_real(cfg):
    """-> dict(obs=…, U=matrix the circuit reports, members=[{w, groups | terms}], full_input=…) or dict(err=…)"""
    import perceval as pcvl
    from perceval.simulators import Simulator
    circ = build_circuit(cfg["circ"])
    ps = pcvl.PostSelect(cfg["ps"]) if cfg["ps"] else None
    out = {}
    try:
        if cfg["kind"] == "sim":
            members = cfg["members"]
            if cfg.get("entry") == "proc":
                # Processor.with_input(StateVector) / with_input(SVDistribution): states of the full circuit size
                p = pcvl.Processor(cfg["backend"], cfg["m"])
                p.add(0, circ)
                for k, d in enumerate(cfg.get("dets") or []):
                    if d is not None:
                        p.add(k, build_det(d))
                for k, v in cfg["heralds"]:                     # declaration order
                    p.add_herald(k, v)
                if ps is not None:
                    p.set_postselection(ps)
                p.min_detected_photons_filter(cfg["filter"])
                svd = svd_of(members)
                if len(svd) == 1:
                    p.with_input(next(iter(svd.keys())))
                else:
                    p.with_input(svd)
                res = p.probs(precision=0)
                U = np.array(p.linear_circuit().compute_unitary(), dtype=complex)
                lean_members = [({"w": mb["w"], "groups": groups_of(mb["state"])} if "state" in mb
                                 else {"w": mb["w"], "terms": mb["terms"]}) for mb in members]
                out.update({"obs": canon_result(res), "U": U, "members": lean_members,
                            "min_p": float(pcvl.utils.global_params["min_p"])})
                return out
            sim = Simulator(pcvl.BackendFactory.get_backend(cfg["backend"]))
            sim.set_circuit(circ)
            if cfg.get("prec", 0) != "default":
                sim.set_precision(cfg.get("prec", 0))
            fock = [mb for mb in members if "state" in mb]
            if cfg.get("prev"):
                # an earlier request on the same object (its answer is not judged here)
                sim_select(sim, cfg["prev"])
                sim.probs_svd(svd_of(members), build_dets(cfg["prev"]["dets"]))
                if fock:
                    sim.evolve(bs_of(fock[0]["state"]))
            sim_select(sim, cfg)
            res = sim.probs_svd(svd_of(members), build_dets(cfg.get("dets")))
            if fock:
                # Simulator.evolve + logical_perf on the same (mask-configured) simulator, first Fock member
                sv = sim.evolve(bs_of(fock[0]["state"]))
                ev = {}
                for st, amp in sv:
                    ev[tuple(st)] = ev.get(tuple(st), 0.0) + abs(complex(amp)) ** 2
                out["evolve"] = {"results": ev, "logical": float(sim.logical_perf), "phys": 1.0, "global": None,
                                 "groups": groups_of(fock[0]["state"])}
            U = np.array(circ.compute_unitary(), dtype=complex)
            lean_members = []
            for mb in members:
                if "state" in mb:
                    lean_members.append({"w": mb["w"], "groups": groups_of(mb["state"])})
                else:
                    lean_members.append({"w": mb["w"], "terms": mb["terms"]})
        else:
            prev = cfg.get("prev") or {}
            first = dict(cfg, **prev)
            noise = pcvl.NoiseModel(**first["noise"]) if first["noise"] else None
            p = pcvl.Processor(cfg["backend"], cfg["m"], noise=noise)
            p.add(0, circ)
            dets = cfg.get("dets")

            def add_dets():
                for k, d in enumerate(dets or []):
                    if d is not None:
                        p.add(k, build_det(d))

            if cfg.get("dets_first"):
                add_dets()
            for k, v in cfg["heralds"]:                     # declaration order
                p.add_herald(k, v)
            if not cfg.get("dets_first"):
                add_dets()
            if first["ps"]:
                p.set_postselection(pcvl.PostSelect(first["ps"]))
            if first["filter"] is not None:
                p.min_detected_photons_filter(first["filter"])
            p.with_input(pcvl.BasicState(first["user"]))
            if prev:
                p.probs(precision=0)                        # an earlier request on the same object
                if "noise" in prev:
                    p.noise = pcvl.NoiseModel(**cfg["noise"]) if cfg["noise"] else pcvl.NoiseModel()
                if "ps" in prev:
                    if ps is not None:
                        p.set_postselection(ps)
                    else:
                        p.clear_postselection()
                if "filter" in prev:
                    p.min_detected_photons_filter(cfg["filter"])
                if "user" in prev:
                    p.with_input(pcvl.BasicState(cfg["user"]))
            out["full_input"] = list(p.input_state)
            res = p.probs() if cfg.get("prec", 0) == "default" else p.probs(precision=cfg.get("prec", 0))
            U = np.array(p.linear_circuit().compute_unitary(), dtype=complex)
            lean_members = []
            for sv, pr in p.source_distribution.items():
                assert len(sv) == 1
                lean_members.append({"w": float(pr), "groups": groups_of(tags_of(sv[0]))})
    except Exception as e:                       # noqa: BLE001 — every exception is an observation
        return {"err": type(e).__name__, "msg": str(e)[:300]}
    out.update({"obs": canon_result(res), "U": U, "members": lean_members,
                "min_p": float(pcvl.utils.global_params["min_p"])})
    return out


def surj(k, j):
    """number of surjections of a k-set onto a j-set"""
    return sum((-1) ** i * math.comb(j, i) * (j - i) ** k for i in range(j + 1))


def kernel(d, k):
    """closed-form detection kernel: detector description, photons on the mode -> {reported count: Fraction}.
    Interleaved detector with w wires: the k photons fall independently and uniformly on the wires, j distinct wires
    are hit with probability C(w,j)·surj(k,j)/w^k, and the reported count is capped at max_detections."""
    if det_is_pnr(d):
        return {k: Fraction(1)}
    if d == "thr":
        return {min(k, 1): Fraction(1)}
    w, mx = d[1], det_max(d)
    out = {}
    for j in range(0, min(k, w) + 1):
        pr = Fraction(math.comb(w, j) * surj(k, j), w ** k)
        if pr:
            out[min(j, mx)] = out.get(min(j, mx), Fraction(0)) + pr
    return out


def detect_state(dets, t):
    """{detected pattern: float probability} of one PNR outcome"""
    outs = {(): 1.0}
    for d, x in zip(dets, t):
        nxt = {}
        for j, q in kernel(d, x).items():
            for pre, pp in outs.items():
                nxt[pre + (j,)] = nxt.get(pre + (j,), 0.0) + pp * float(q)
        outs = nxt
    return outs


def sectors_by_hand(members):
    """components with different photon numbers never interfere: a member holding several photon numbers IS the
    mixture of its photon-number sectors, each weighted by its share of the squared norm (coefficients are the
    rescaled ones: at most one photon per mode and tag).  Done here so that the direct oracle does not rely on the
    split of the code under test."""
    out = []
    for mb in members:
        if "terms" not in mb or len(member_ns(mb)) < 2:
            out.append(mb)
            continue
        tot = sum(t["coef"][0] ** 2 + t["coef"][1] ** 2 for t in mb["terms"])
        for n in member_ns(mb):
            part = [t for t in mb["terms"] if term_n(t) == n]
            w = mb["w"] * sum(t["coef"][0] ** 2 + t["coef"][1] ** 2 for t in part) / tot
            out.append({"w": w, "terms": part})
    # equal keys of the mixture add up
    acc = {}
    for mb in out:
        key = json.dumps(mb.get("state", mb.get("terms")))
        if key in acc:
            acc[key] = dict(acc[key], w=acc[key]["w"] + mb["w"])
        else:
            acc[key] = mb
    return list(acc.values())


def direct_oracle(cfg, eff_filter):
    """The property evaluated on the real code without the Lean driver: unconditioned distribution of a
    selection-free, detector-free Simulator on the same circuit and input, pushed through the closed-form detector
    kernels and conditioned here."""
    import perceval as pcvl
    from perceval.simulators import Simulator
    circ = build_circuit(cfg["circ"])
    sim = Simulator(pcvl.BackendFactory.get_backend(cfg["backend"]))
    sim.set_circuit(circ)
    sim.set_precision(0)
    if cfg["kind"] == "sim":
        svd = svd_of(sectors_by_hand(cfg["members"]))
    else:
        noise = pcvl.NoiseModel(**cfg["noise"]) if cfg["noise"] else pcvl.NoiseModel()
        full_in = lean_free_interleave(cfg["m"], cfg["heralds"], cfg["user"])
        svd = pcvl.Source.from_noise_model(noise).generate_distribution(pcvl.BasicState(full_in))
    raw = sim.probs_svd(svd)["results"]
    dets = cfg.get("dets")
    full = {}
    for s, p in raw.items():
        if dets:
            for t, q in detect_state(dets, list(s)).items():
                full[t] = full.get(t, 0.0) + float(p) * q
        else:
            full[tuple(s)] = full.get(tuple(s), 0.0) + float(p)
    heralds = {int(k): int(v) for k, v in cfg["heralds"]}
    H = sum(heralds.values())
    phys = ret = 0.0
    kept = {}
    for s, p in full.items():
        t = list(s)
        if sum(t) < eff_filter + H:
            continue
        phys += p
        if all(t[k] == v for k, v in heralds.items()) and eval_ps(cfg["psj"], t):
            ret += p
            key = tuple(t) if cfg["keep"] else tuple(x for i, x in enumerate(t) if i not in heralds)
            kept[key] = kept.get(key, 0.0) + p
    return {"results": {k: v / ret for k, v in kept.items()} if ret > 0 else {}, "phys": phys,
            "logical": (ret / phys if phys > 0 else 0.0)}


def malformed_real(m, heralds, user):
    import perceval as pcvl
    p = pcvl.Processor("SLOS", m)
    for k, v in heralds:
        p.add_herald(k, v)
    try:
        p.with_input(pcvl.BasicState(user))
        return "accepted"
    except AssertionError:
        return "AssertionError"
    except Exception as e:  # noqa: BLE001
        return type(e).__name__


# ------------------------------------------------------------------------------------------------
# the real code runs in a worker process: a native crash must not take the harness down
# ------------------------------------------------------------------------------------------------
REAL_FUNCS = {"run_real": run_real, "direct_oracle": direct_oracle, "malformed_real": malformed_real,
              "run_session": lambda cfg: run_session(cfg)}


def _worker_main(conn, seed):
    import perceval as pcvl
    pcvl.random_seed(seed)
    silence()
    while True:
        try:
            msg = conn.recv()
        except (EOFError, OSError):
            return
        if msg is None:
            return
        name, args = msg
        try:
            conn.send(("ok", REAL_FUNCS[name](*args)))
        except BaseException as e:  # noqa: BLE001 — reported to the caller, which decides
            conn.send(("exc", f"{type(e).__name__}: {e}"))


class Crash(Exception):
    """the process running the implementation died (signal) or did not answer"""

    def __init__(self, how):
        super().__init__(how)
        self.how = how


class RealWorker:
    TIMEOUT = 300

    def __init__(self, seed):
        self.seed = seed
        self.crashes = 0
        self._start()

    def _start(self):
        import multiprocessing as mp
        ctx = mp.get_context("spawn")
        self.conn, child = ctx.Pipe()
        self.proc = ctx.Process(target=_worker_main, args=(child, self.seed), daemon=True)
        self.proc.start()
        child.close()

    def call(self, name, *args):
        try:
            self.conn.send((name, args))
            if not self.conn.poll(self.TIMEOUT):
                self.proc.kill()                      # by pid, our own child
                self.proc.join(10)
                self._start()
                self.crashes += 1
                raise Crash(f"no answer within {self.TIMEOUT} s (killed)")
            kind, val = self.conn.recv()
        except (EOFError, ConnectionError, OSError):
            self.proc.join(10)
            code = self.proc.exitcode
            self._start()
            self.crashes += 1
            if code is not None and code < 0:
                try:
                    nm = signal.Signals(-code).name
                except ValueError:
                    nm = f"signal {-code}"
                raise Crash(f"the interpreter died with {nm}")
            raise Crash(f"the interpreter exited with status {code}")
        if kind == "exc":
            raise RuntimeError(val)
        return val

    def close(self):
        try:
            self.conn.send(None)
            self.proc.join(10)
        except Exception:  # noqa: BLE001
            pass
        if self.proc.is_alive():
            self.proc.kill()


def lean_free_interleave(m, heralds, user):
    h = {int(k): int(v) for k, v in heralds}
    it = iter(user)
    return [h[k] if k in h else next(it) for k in range(m)]


def eval_ps(j, t):
    if j is True:
        return True
    if "c" in j:
        a = sum(t[i] for i in j["c"])
        return {"==": a == j["k"], "<": a < j["k"], ">": a > j["k"], "<=": a <= j["k"], ">=": a >= j["k"]}[j["op"]]
    if "and" in j:
        return eval_ps(j["and"][0], t) and eval_ps(j["and"][1], t)
    if "or" in j:
        return eval_ps(j["or"][0], t) or eval_ps(j["or"][1], t)
    if "xor" in j:
        return eval_ps(j["xor"][0], t) != eval_ps(j["xor"][1], t)
    return not eval_ps(j["not"], t)


# ------------------------------------------------------------------------------------------------
# the Lean side
# ------------------------------------------------------------------------------------------------
def lean_request(cfg, real, eff_filter):
    U = core.mat(real["U"].tolist())
    superposed = any("terms" in mb for mb in real["members"])
    H = sum(v for _, v in cfg["heralds"])
    if superposed:
        members = []
        for mb in real["members"]:
            if "terms" in mb:
                # one ordered tag universe per member: every term lists its groups tag by tag (vacuum if absent)
                ts = []
                tags = sorted({tg for t in mb["terms"] for x in t["state"] for tg in x})
                for t in mb["terms"]:
                    gs = [[sum(1 for tg in x if tg == tag) for x in t["state"]] for tag in tags] or [[0] * cfg["m"]]
                    ts.append({"coef": [str(t["coef"][0]), str(t["coef"][1])], "groups": gs})
                members.append({"w": core.rat(mb["w"]), "terms": ts})
            else:
                members.append({"w": core.rat(mb["w"]), "terms": [{"coef": ["1", "0"], "groups": mb["groups"]}]})
        # the rescaled coefficient of a Fock member with bunched photons is irrational; its *distribution*
        # is what matters and `probsSV` normalises by svNorm2, so coef 1 is exact for single-term members
        nmax = max([term_n(t) for mb in real["members"] for t in mb.get("terms", [])]
                   + [sum(map(sum, mb["groups"])) for mb in real["members"] if "groups" in mb] + [0])
        return {"op": "c04gen", "m": cfg["m"], "U": U, "members": members,
                "cfg": {"heralds": cfg["heralds"], "ps": cfg["psj"], "filter": eff_filter, "keepHeralds": cfg["keep"],
                        "pnr": True},
                "dets": lean_dets(cfg.get("dets"), nmax)}
    return {"op": "c04", "m": cfg["m"], "U": U,
            "members": [{"w": core.rat(mb["w"]), "groups": mb["groups"]} for mb in real["members"]],
            "cfg": {"heralds": cfg["heralds"], "ps": cfg["psj"], "filter": eff_filter, "keepHeralds": cfg["keep"],
                    "pnr": True},
            "dets": lean_dets(cfg.get("dets"), max([sum(map(sum, mb["groups"])) for mb in real["members"]] + [0]))}


def lean_dets(dets, nmax):
    """detector descriptions for the driver: PNR / threshold by name, anything else as its exact kernel table
    (row k = reported-count distribution for k photons), from the closed form"""
    if not dets:
        return None
    out = []
    for d in dets:
        if d is None or d in ("pnr", "thr"):
            out.append(d)
        else:
            out.append([[[j, core.rat(q)] for j, q in sorted(kernel(d, k).items())] for k in range(nmax + 1)])
    return out


def dist_of_json(rows):
    out = {}
    for k, v in rows:
        out[tuple(k)] = out.get(tuple(k), Fraction(0)) + Fraction(v)
    return out


def diff_dist(obs, exact):
    """max |obs - exact| over the union of keys and the first offending key under the tolerance policy"""
    worst, bad = 0.0, None
    for k in set(obs) | set(exact):
        x = obs.get(k, 0.0)
        xh = float(exact.get(k, 0))
        d = abs(x - xh)
        if d > worst:
            worst = d
        if not core.close(x, xh, TOL) and bad is None:
            bad = k
    return worst, bad


def compare(obs, ref):
    """obs: canon_result; ref: dict(results={key: number}, phys, logical) -> list of differing fields"""
    bad = []
    worst, k = diff_dist(obs["results"], ref["results"])
    if k is not None:
        bad.append(("results", f"state {list(k)}: returned {obs['results'].get(k, 0.0)!r}, "
                               f"exact {float(ref['results'].get(k, 0))!r}"))
    if not core.close(obs["phys"], float(ref["phys"]), TOL):
        bad.append(("physical_perf", f"returned {obs['phys']!r}, exact {float(ref['phys'])!r}"))
    if not core.close(obs["logical"], float(ref["logical"]), TOL):
        bad.append(("logical_perf", f"returned {obs['logical']!r}, exact {float(ref['logical'])!r}"))
    if obs.get("global") is not None and not core.close(obs["global"], float(ref["phys"]) * float(ref["logical"]), TOL):
        bad.append(("global_perf", f"returned {obs['global']!r}"))
    return bad



# ------------------------------------------------------------------------------------------------
# probability trimming at a non-zero precision (PM.C04.probsSvdθ; theorems physical_perf_trim_exact,
# logical_perf_trim_bound, results_trim_bound)
# ------------------------------------------------------------------------------------------------
PRECS = ["default", "default", "default", 1e-6, 1e-4, 1e-3, 1e-2, 0.1, 0.1, 0.3]
DEFAULT_PREC = 1e-6


def gen_trim_config(rng, max_m):
    """a fast-path configuration (Fock members; no detectors or PNR detectors) run at a non-zero precision, with
    member weights spread over several orders of magnitude and, sometimes, a weakly coupling circuit"""
    prec = rng.choice(PRECS)
    small = prec in ("default", 1e-6, 1e-4)       # the threshold bites only on tiny weights / weak couplings
    if rng.random() < 0.7:
        cfg = gen_sim_config(rng, max_m)
        # weights over several orders of magnitude: some members fall under max_p * precision
        if rng.random() < (0.9 if small else 0.6):
            for mb in cfg["members"]:
                mb["w"] *= rng.choice([1.0, 1.0, 1.0, 0.3, 1e-2, 1e-4, 1e-6, 3e-7, 1e-8])
            if small and len(cfg["members"]) >= 2 and rng.random() < 0.6:
                # one member just under the relative threshold of the default precision, far above the tolerance
                big = max(mb["w"] for mb in cfg["members"])
                rng.choice(cfg["members"])["w"] = big * rng.choice([3e-7, 6e-7, 9e-7])
            tot = sum(mb["w"] for mb in cfg["members"])
            for mb in cfg["members"]:
                mb["w"] /= tot
    else:
        cfg = gen_proc_config(rng, max_m)
        if cfg["noise"] is None or rng.random() < 0.5:
            cfg["noise"] = {"indistinguishability": rng.choice([0.5, 0.9, 0.99, 0.999]),
                            "transmittance": rng.choice([1.0, 0.9, 0.5, 0.999]),
                            "g2": (rng.choice([0.0, 0.0, 0.01, 0.1])
                                   if sum(cfg["user"]) + sum(v for _, v in cfg["heralds"]) <= 2 else 0.0)}
            if cfg["filter"] is None:
                cfg["filter"] = rng.randint(0, sum(cfg["user"]))
    cfg.pop("prev", None)
    m = cfg["m"]
    if not dets_all_pnr(cfg.get("dets")):
        cfg["dets"] = rng.choice([None, ["pnr" if rng.random() < 0.5 else None for _ in range(m)]])
    if rng.random() < (0.5 if small else 0.25):
        # weak couplings: output probabilities of a few 1e-6 .. 1e-4, products of them below the tensor threshold
        comps = []
        for _ in range(rng.randint(1, 3)):
            comps.append([rng.randint(0, m - 2), {"t": "W", "k": rng.choice([30, 100, 300, 1000, 3000])}])
        if rng.random() < 0.5:
            leaf = gens.gen_leaf(rng, m, kinds=("BS", "PERM"))
            comps.insert(rng.randint(0, len(comps)), [rng.randint(0, m - gens.leaf_width(leaf)), leaf])
        cfg["circ"] = {"m": m, "comps": comps}
    cfg["prec"] = prec
    cfg["trim"] = True
    return cfg


def n_outputs(m, n):
    return math.comb(m + n - 1, n)


def row_max(d, nmax):
    """largest number of entries of a detection row of detector d for up to nmax photons"""
    if det_is_pnr(d) or d == "thr":
        return 1
    return max(len(kernel(d, k)) for k in range(nmax + 1))


def apriori_trim_bound(cfg, members, eff_filter, min_p):
    """Lean-independent a-priori bound of the probability mass the thresholds can remove, from the configured
    precision and sizes only — the formula PROVED for the model (trimmed_mass_apriori, trimmed_mass_det_apriori):
        theta * (#members passing the photon filter + #entries of the accumulated list / 10
                 [+ #entries of the list of detected patterns, when a detector is not PNR])
    with #entries of the accumulated list <= sum over passing members of prod over groups C(m+n_g-1, n_g)
    (accumulated_entries_le) and #detected patterns <= #entries * prod over modes (largest detection row)
    (detected_entries_eq).  -> (bound, theta, weight of the passing members)"""
    H = sum(v for _, v in cfg["heralds"])
    prec = DEFAULT_PREC if cfg["prec"] == "default" else cfg["prec"]
    passing = [mb for mb in members if sum(map(sum, mb["groups"])) >= eff_filter + H]
    max_p = max([mb["w"] for mb in passing] + [0.0])
    theta = max(min_p, max_p * prec)
    entries = 0
    for mb in passing:
        prod = 1
        for g in mb["groups"]:
            prod *= n_outputs(cfg["m"], sum(g))
        entries += prod
    sizes = len(passing) + entries / 10
    dets = cfg.get("dets")
    if not dets_all_pnr(dets):
        nmax = max([sum(map(sum, mb["groups"])) for mb in members] + [0])
        per_state = 1
        for d in dets:
            per_state *= row_max(d, nmax)
        sizes += entries * per_state
    return theta * sizes * (1 + 1e-9), theta, sum(mb["w"] for mb in passing)


def judge_trim(chk, cfg):
    """-> None or (kind, signature, what)"""
    entry = "Processor.probs" if cfg["kind"] == "proc" else "Simulator.probs_svd"
    try:
        real = chk.real.call("run_real", cfg)
    except Crash as e:
        return crash_verdict(cfg, e, entry)
    if "err" in real:
        return ("violation", "raises-" + real["err"], f"{entry} (precision {cfg['prec']}) raised {real['err']}: {real['msg']}")
    eff = effective_filter(cfg)
    prec = DEFAULT_PREC if cfg["prec"] == "default" else cfg["prec"]
    det = not dets_all_pnr(cfg.get("dets"))        # mask-free path through simulate_detectors (its own threshold)
    req = {"op": "c04trimdet" if det else "c04trim", "m": cfg["m"], "U": core.mat(real["U"].tolist()),
           "members": [{"w": core.rat(mb["w"]), "groups": mb["groups"]} for mb in real["members"]],
           "cfg": {"heralds": cfg["heralds"], "ps": cfg["psj"], "filter": eff, "keepHeralds": cfg["keep"], "pnr": True},
           "prec": core.rat(prec), "minp": core.rat(real["min_p"])}
    if det:
        req["dets"] = lean_dets(cfg["dets"], max([sum(map(sum, mb["groups"])) for mb in real["members"]] + [0]))
    rep = chk.lean.ask(req)
    if "err" in rep:
        return ("broken", "lean-rejects", f"driver rejected the request: {rep['err']}")
    obs = real["obs"]

    def out_of(j):
        return {"results": dist_of_json(j["results"]), "phys": Fraction(j["phys"]), "logical": Fraction(j["logical"])}

    spec, trimmed = out_of(rep["spec"]), out_of(rep["trimmed"])
    retained = float(Fraction(rep["spec"]["retained"]))
    ret_trim = float(Fraction(rep["retainedTrimmed"]))
    t_mass, t_ret = float(Fraction(rep["trimmedMass"])), float(Fraction(rep["trimmedRetained"]))
    gap = float(Fraction(rep["gap"]))
    chk.last_retained = ret_trim
    pre = "trim-det-" if det else "trim-"
    chk.branch(pre + "case")
    if cfg["prec"] == "default":
        chk.branch(pre + "default-precision")
    if cfg["kind"] == "proc":
        chk.branch(pre + "processor")
    if rep["droppedMembers"] > 0:
        chk.branch(pre + "member-dropped")
    if rep["prunedEntries"] > 0:
        chk.branch(pre + "tensor-pruned")
        if not det and t_mass > 0 and cfg["heralds"]:
            chk.branch("trim-tensor-pruned-under-mask")
    if det:
        if rep["detDropped"] > 0:
            chk.branch("trim-det-stage-bites")
            if cfg["prec"] == "default":
                chk.branch("trim-det-stage-bites-at-default-precision")
        if all(d == "thr" for d in cfg["dets"]):
            chk.branch("trim-det-all-threshold")
        if abs(float(trimmed["phys"]) - float(spec["phys"])) > 1e-8:
            chk.branch("trim-det-physical-perf-changes")
    if t_mass > 0 and ret_trim > TINY:
        chk.branch(pre + "bites-with-retained-mass")
    if t_ret > 1e-8 and ret_trim > TINY:
        chk.branch(pre + "changes-the-answer")
        if cfg["prec"] == "default":
            chk.branch(pre + "changes-the-answer-at-default-precision")
    chk.count("trim_det_precision" if det else "trim_precision", str(cfg["prec"]))
    chk.count("trimmed_mass_decade" + ("_det" if det else ""),
              "0" if t_mass <= 0 else str(max(-12, math.floor(math.log10(t_mass)))))
    tie = gap < 1e-6
    if tie:
        chk.branch("trim-threshold-tie")
    phys = float(spec["phys"])
    # the a-priori bound (proved: trimmed_mass_apriori / trimmed_mass_det_apriori) computed here from sizes only must
    # dominate the exactly computed trimmed mass and the driver's own evaluation of the same formula
    B, theta, w_pass = apriori_trim_bound(cfg, real["members"], eff, real["min_p"])
    if t_mass > B + 1e-15 or float(Fraction(rep["aprioriTheta"])) > B + 1e-15:
        return ("broken", "apriori-bound-model", f"a-priori bound {B!r} computed from the sizes is below the exactly "
                f"computed trimmed mass {t_mass!r} / the driver's bound {float(Fraction(rep['aprioriTheta']))!r}")
    chk.branch("trim-apriori-bound-checked")
    bad = []
    if not det:
        # (1) physical_perf_trim_exact
        if not core.close(obs["phys"], phys, TOL):
            bad.append(("physical_perf", f"returned {obs['phys']!r} at precision {cfg['prec']}, exact {phys!r} "
                                         f"(trimming must not change it)"))
        # (2) logical_perf_trim_bound / results_trim_bound: within the proved distance of the specification
        if not tie and not bad and phys > TINY:
            lo = float(spec["logical"]) - t_ret / phys
            if not (lo - TOL - 1e-9 * abs(lo) <= obs["logical"] <= float(spec["logical"]) + TOL):
                bad.append(("logical_perf", f"returned {obs['logical']!r}, exact {float(spec['logical'])!r}, proved "
                                            f"interval [{lo!r}, exact] (trimmed retained mass {t_ret!r})"))
    else:
        # physical_perf_trim_bound_detectors / logical_perf_trim_bound_detectors
        t_pass, pass_trim = float(Fraction(rep["trimmedPass"])), float(Fraction(rep["passTrimmed"]))
        phys_in, in_loss = float(Fraction(rep["physInputs"])), float(Fraction(rep["inputLoss"]))
        if not tie and abs(obs["phys"] - phys) > t_mass + TOL:
            bad.append(("physical_perf", f"returned {obs['phys']!r} at precision {cfg['prec']}, exact {phys!r}, proved "
                                         f"distance {t_mass!r} (total trimmed mass)"))
        if not tie and not bad and pass_trim > TINY:
            eps = in_loss / phys_in + t_pass / phys
            if abs(obs["logical"] - float(spec["logical"])) > eps + TOL:
                bad.append(("logical_perf", f"returned {obs['logical']!r}, exact {float(spec['logical'])!r}, proved "
                                            f"distance {eps!r}"))
    if not tie and not bad and ret_trim > TINY:
        eps = t_ret / retained
        for k in set(obs["results"]) | set(spec["results"]):
            x, xh = obs["results"].get(k, 0.0), float(spec["results"].get(k, 0))
            if abs(x - xh) > eps + TOL + 1e-9 * xh:
                bad.append(("results", f"state {list(k)}: returned {x!r}, exact {xh!r}, proved distance {eps!r}"))
                break
    # (3) the trimmed model itself (thresholds as coded), tight
    mbad = []
    if not tie and not bad:
        tm = dict(trimmed)
        o2 = dict(obs)
        if ret_trim <= TINY:
            tm["results"], o2 = {}, dict(obs, results={})
        if 0 < phys <= TINY or (det and float(Fraction(rep["passTrimmed"])) <= TINY):
            tm["logical"], o2 = Fraction(0), dict(o2, logical=0.0, **{"global": None})
        mbad = compare(o2, tm)
    if not bad and not mbad:
        return None
    # failing-input search: the property evaluated directly on the real code (selection-free simulator at
    # precision 0, pushed through the closed-form detector kernels and conditioned in Python) within the a-priori
    # bound B of what the thresholds can remove — proved for the model, computed here from the sizes only
    try:
        d = chk.real.call("direct_oracle", cfg, eff)
    except Exception as e:  # noqa: BLE001
        return ("broken", "direct-oracle-crash", f"{type(e).__name__}: {e}")
    what = None
    Rd = d["phys"] * d["logical"]
    if not det and not core.close(obs["phys"], d["phys"], TOL):
        what = ("physical_perf", f"returned {obs['phys']!r}, directly computed {d['phys']!r}")
    elif det and abs(obs["phys"] - d["phys"]) > B + TOL:
        what = ("physical_perf", f"returned {obs['phys']!r}, directly computed {d['phys']!r}, at most {B!r} of the "
                                 f"probability can be trimmed")
    elif not det and d["phys"] > TINY and not (d["logical"] - B / d["phys"] - TOL <= obs["logical"] <= d["logical"] + TOL):
        what = ("logical_perf", f"returned {obs['logical']!r}, directly computed {d['logical']!r}, at most "
                                f"{B!r} of the probability can be trimmed")
    elif det and d["phys"] - B > TINY and w_pass > TINY and \
            abs(obs["logical"] - d["logical"]) > B / w_pass + B / d["phys"] + TOL:
        what = ("logical_perf", f"returned {obs['logical']!r}, directly computed {d['logical']!r}, at most "
                                f"{B!r} of the probability can be trimmed")
    elif Rd > TINY and Rd - B > TINY:
        for k in set(obs["results"]) | set(d["results"]):
            x, xh = obs["results"].get(k, 0.0), d["results"].get(k, 0.0)
            if abs(x - xh) > B / Rd + TOL:
                what = ("results", f"state {list(k)}: returned {x!r}, directly computed {xh!r}, at most {B!r} "
                                   f"of the probability can be trimmed")
                break
    if what is not None:
        return ("violation", ("trim-det-" if det else "trim-") + what[0],
                f"{what[0]} at precision {cfg['prec']} (threshold {theta!r}) is further from the conditioned "
                f"unconditioned distribution than trimming allows (heralds {cfg['heralds']}, filter {cfg['filter']}, "
                f"post-selection {cfg['ps']}, detectors {cfg.get('dets')}): {what[1]}")
    first = (bad or mbad)[0]
    return ("broken", ("trim-bound:" if bad else "trim-model-vs-code:") + first[0],
            (f"outside the interval proved for the trimming model: {first[1]}" if bad else
             f"trimming model (thresholds as coded) and implementation differ: {first[1]}")
            + f" [precision {cfg['prec']}, threshold {rep['theta']}, gap {gap!r}, detectors {cfg.get('dets')}]")


def gen_trim_det_config(rng, max_m):
    """a trimming configuration whose detector layout contains a detector that is not photon-number resolving:
    the herald mask is off and `simulate_detectors` applies its own per-state threshold"""
    cfg = gen_trim_config(rng, max_m)
    m = cfg["m"]
    hs = sorted(list(h) for h in cfg["heralds"])
    if cfg["kind"] == "sim":
        nin = max(sum(len(x) for x in mb["state"]) for mb in cfg["members"])
    else:
        nin = sum(cfg["user"]) + sum(v for _, v in hs)
    dets = None
    for _ in range(30):
        dets = gen_dets(rng, m, hs, nin)
        if dets and not dets_all_pnr(dets):
            break
    else:
        hm = {k: v for k, v in hs}
        dets = ["pnr" if hm.get(k, 0) > 1 else "thr" for k in range(m)]
        if dets_all_pnr(dets):
            dets[0] = "thr" if hm.get(0, 0) <= 1 else ["ppnr", 3, None]
    cfg["dets"] = dets
    if cfg["prec"] in ("default", 1e-6, 1e-4) and rng.random() < 0.45:
        # make the per-state threshold max(theta, theta/(10 p)) of simulate_detectors bite at a small precision: output
        # states of probability p ~ 4/k^2 ~ 1e-6 (weak coupling) holding several photons on a mode read by an
        # interleaved detector (detection rows with entries 1/9, 1/27, ...)
        hm = {k: v for k, v in hs}
        comps = [[rng.randint(0, m - 2), {"t": "W", "k": rng.choice([1000, 3000, 3000])}]
                 for _ in range(rng.randint(1, 2))]
        cfg["circ"] = {"m": m, "comps": comps}
        cfg["dets"] = [("pnr" if hm.get(k, 0) > 2 else ["ppnr", rng.choice([2, 3, 3]), None]) if rng.random() < 0.8
                       else dets[k] for k in range(m)]
        if dets_all_pnr(cfg["dets"]):
            cfg["dets"] = dets
        if cfg["kind"] == "sim":
            # one member of indistinguishable photons bunched on the modes the weak coupler acts on
            off = comps[0][0]
            st = [[] for _ in range(m)]
            for _ in range(rng.randint(2, 3)):
                st[off + rng.randint(0, 1)].append(-1)
            for k, v in hm.items():
                while len(st[k]) < v:
                    st[k].append(-1)
            key = json.dumps(st)
            if all(json.dumps(mb["state"]) != key for mb in cfg["members"]):
                big = max(cfg["members"], key=lambda mb: mb["w"])
                big["state"] = st
    return cfg


# ------------------------------------------------------------------------------------------------
# superposed inputs at a non-zero precision (PM.C04.probsSvdGenθ: masked group amplitudes, `_merge_sv` threshold)
# ------------------------------------------------------------------------------------------------
def gen_trim_sup_config(rng, max_m):
    prec = rng.choice(PRECS)
    small = prec in ("default", 1e-6, 1e-4)
    for _ in range(50):
        cfg = gen_sim_config(rng, max_m, superposed=True)
        if any("terms" in mb for mb in cfg["members"]):
            break
    cfg.pop("prev", None)
    cfg["dets"] = None
    m = cfg["m"]
    if rng.random() < (0.8 if small else 0.5):
        for mb in cfg["members"]:
            mb["w"] *= rng.choice([1.0, 1.0, 1.0, 0.3, 1e-2, 1e-4, 1e-6, 3e-7, 1e-8])
        tot = sum(mb["w"] for mb in cfg["members"])
        for mb in cfg["members"]:
            mb["w"] /= tot
    if rng.random() < (0.6 if small else 0.3):
        comps = []
        for _ in range(rng.randint(1, 3)):
            comps.append([rng.randint(0, m - 2), {"t": "W", "k": rng.choice([30, 100, 300, 1000, 3000])}])
        if rng.random() < 0.5:
            leaf = gens.gen_leaf(rng, m, kinds=("BS", "PERM"))
            comps.insert(rng.randint(0, len(comps)), [rng.randint(0, m - gens.leaf_width(leaf)), leaf])
        cfg["circ"] = {"m": m, "comps": comps}
    if small and rng.random() < 0.5:
        # the amplitude threshold sqrt(theta/(10 |c|^2 w)) ~ 3e-4 of a small precision bites on products of two weak
        # transitions (2/k each, k = 100..300) while every amplitude stays well above the native cut-off 1e-6:
        # two distinguishable photons next to one or two weak couplers
        offs = [rng.randint(0, m - 2) for _ in range(rng.randint(1, 2))]
        comps = [[o, {"t": "W", "k": rng.choice([100, 300, 300])}] for o in offs]
        if rng.random() < 0.3:
            leaf = gens.gen_leaf(rng, m, kinds=("PERM",))
            comps.append([rng.randint(0, m - gens.leaf_width(leaf)), leaf])
        cfg["circ"] = {"m": m, "comps": comps}
        big = max((mb for mb in cfg["members"] if "terms" in mb), key=lambda mb: mb["w"])
        terms, seen = [], set()
        for _ in range(rng.randint(2, 3)):
            st = [[] for _ in range(m)]
            st[rng.choice(offs) + rng.randint(0, 1)].append(0)
            st[rng.choice(offs) + rng.randint(0, 1)].append(1)
            st = [sorted(x) for x in st]
            if json.dumps(st) not in seen:
                seen.add(json.dumps(st))
                terms.append({"coef": [rng.randint(1, 3), rng.randint(-3, 3)], "state": st})
        if len(terms) >= 2 and all(json.dumps(mb.get("terms")) != json.dumps(terms) for mb in cfg["members"]):
            big["terms"] = terms
            nin = 2
            H = sum(v for _, v in cfg["heralds"])
            cfg["filter"] = min(cfg["filter"], max(0, nin - H))
    cfg["prec"] = prec
    cfg["trimsup"] = True
    return cfg


def crude_amplitude_bound(cfg, members, eff_filter, min_p):
    """Lean-independent, UNPROVED test device for the failing-input verdict on the superposed path: every component
    `_merge_sv` leaves out has |c·pa|^2 <= theta/(10 w), a key receives at most one component per term, hence
    |l_K| <= T sqrt(theta/(10 w)) and the L1 change of the member is at most N_K T^2 theta/(10 w) + 2 T sqrt(theta N_K/(10 w));
    members at or below theta are dropped whole"""
    H = sum(v for _, v in cfg["heralds"])
    prec = DEFAULT_PREC if cfg["prec"] == "default" else cfg["prec"]

    def n_of(mb):
        return sum(map(sum, mb["terms"][0]["groups"]))

    passing = [mb for mb in members if n_of(mb) >= eff_filter + H]
    theta = max(min_p, max([float(Fraction(mb["w"])) for mb in passing] + [0.0]) * prec)
    B = 0.0
    for mb in passing:
        w = float(Fraction(mb["w"]))
        if w <= theta * (1 + 1e-9):
            B += w
        if w > theta * (1 - 1e-9):
            T = len(mb["terms"])
            nk = 1
            for g in mb["terms"][0]["groups"]:
                nk *= n_outputs(cfg["m"], sum(g))
            B += min(w, nk * T * T * theta / 10 + 2 * T * math.sqrt(w * theta * nk / 10))
    return min(1.0, B), theta


def judge_trim_sup(chk, cfg):
    """-> None or (kind, signature, what)"""
    try:
        real = chk.real.call("run_real", cfg)
    except Crash as e:
        return crash_verdict(cfg, e, "Simulator.probs_svd")
    if "err" in real:
        return ("violation", "raises-" + real["err"],
                f"Simulator.probs_svd (precision {cfg['prec']}, superposed input) raised {real['err']}: {real['msg']}")
    eff = effective_filter(cfg)
    prec = DEFAULT_PREC if cfg["prec"] == "default" else cfg["prec"]
    req = lean_request(cfg, real, eff)
    if req["op"] != "c04gen":
        return ("broken", "trim-sup-generator", "no superposed member in a superposed trimming configuration")
    req = dict(req, op="c04gentrim", prec=core.rat(prec), minp=core.rat(real["min_p"]))
    rep = chk.lean.ask(req)
    if "err" in rep:
        return ("broken", "lean-rejects", f"driver rejected the request: {rep['err']}")
    obs = real["obs"]

    def out_of(j):
        return {"results": dist_of_json(j["results"]), "phys": Fraction(j["phys"]), "logical": Fraction(j["logical"])}

    spec, trimmed, zero, exact = (out_of(rep[k]) for k in ("spec", "trimmed", "zero", "model"))
    retained = float(Fraction(rep["spec"]["retained"]))
    ret_trim = float(Fraction(rep["retainedTrimmed"]))
    err_ret, err_tot = float(Fraction(rep["errRet"])), float(Fraction(rep["errTot"]))
    e_res = {k: float(v) for k, v in dist_of_json(rep["errResults"]).items()}
    gap = float(Fraction(rep["gap"]))
    chk.last_retained = ret_trim
    chk.branch("trim-sup-case")
    if cfg["prec"] == "default":
        chk.branch("trim-sup-default-precision")
    if rep["droppedMembers"] > 0:
        chk.branch("trim-sup-member-dropped")
    if rep["droppedComps"] > 0:
        chk.branch("trim-sup-component-dropped")
        if cfg["heralds"] and ret_trim > TINY:
            chk.branch("trim-sup-component-dropped-under-mask-retained")
        if cfg["prec"] == "default":
            chk.branch("trim-sup-component-dropped-at-default-precision")
    changed = abs(float(trimmed["logical"]) - float(spec["logical"])) > 1e-8 or any(
        abs(float(trimmed["results"].get(k, 0)) - float(spec["results"].get(k, 0))) > 1e-8
        for k in set(trimmed["results"]) | set(spec["results"]))
    if changed and ret_trim > TINY:
        chk.branch("trim-sup-changes-the-answer")
    chk.count("trim_sup_precision", str(cfg["prec"]))
    # the threshold-0 instance of the thresholded model must be the exact masked model (PM.C04.probsSvdGen, which is
    # proved equal to the specification): validated here case by case, exactly
    zr, er = float(Fraction(rep["retainedZero"])), retained
    zbad = compare({"results": {k: float(v) for k, v in zero["results"].items()} if zr > TINY else {},
                    "phys": float(zero["phys"]), "logical": float(zero["logical"]), "global": None},
                   dict(exact, results=exact["results"] if er > TINY else {}))
    if zbad:
        return ("broken", "trim-sup-threshold-0-vs-exact-model",
                f"the thresholded model at threshold 0 differs from the exact masked model: {zbad[0]}")
    tie = gap < 1e-6
    if tie:
        chk.branch("trim-threshold-tie")
    if float(Fraction(rep["minAmp2"])) < 1e-10:
        # the native StateVector drops components of modulus <= min_complex_component = 1e-6 whatever the precision
        # (not modelled): a case whose model holds a non-zero amplitude below 1e-5 is compared on physical_perf only
        chk.branch("trim-sup-native-amplitude-cutoff")
        tie = True
    else:
        chk.branch("trim-sup-compared")
        if rep["droppedComps"] > 0:
            chk.branch("trim-sup-compared-component-dropped")
            if cfg["prec"] == "default":
                chk.branch("trim-sup-compared-component-dropped-at-default-precision")
            if cfg["heralds"] and ret_trim > TINY:
                chk.branch("trim-sup-compared-component-dropped-under-mask-retained")
        if changed and ret_trim > TINY:
            chk.branch("trim-sup-compared-changes-the-answer")
    phys = float(spec["phys"])
    bad = []
    if not core.close(obs["phys"], phys, TOL):
        bad.append(("physical_perf", f"returned {obs['phys']!r} at precision {cfg['prec']}, exact {phys!r} "
                                     f"(trimming must not change it)"))
    # within the distance the model's error distribution gives (per-member bound merge_threshold_bound_superposed;
    # its propagation through the mixture and the conditioning is evaluated, not proved)
    if not tie and not bad and phys > TINY:
        if abs(obs["logical"] - float(spec["logical"])) > err_ret / phys + TOL:
            bad.append(("logical_perf", f"returned {obs['logical']!r}, exact {float(spec['logical'])!r}, distance "
                                        f"allowed by the model's error distribution {err_ret / phys!r}"))
    if not tie and not bad and ret_trim > TINY:
        for k in set(obs["results"]) | set(spec["results"]):
            x, xh = obs["results"].get(k, 0.0), float(spec["results"].get(k, 0))
            eps = (e_res.get(k, 0.0) + xh * err_ret) / ret_trim
            if abs(x - xh) > eps + TOL + 1e-9 * xh:
                bad.append(("results", f"state {list(k)}: returned {x!r}, exact {xh!r}, allowed distance {eps!r}"))
                break
    mbad = []
    if not tie and not bad:
        tm, o2 = dict(trimmed), dict(obs)
        if ret_trim <= TINY:
            tm["results"], o2 = {}, dict(obs, results={})
        if 0 < phys <= TINY:
            tm["logical"], o2 = Fraction(0), dict(o2, logical=0.0, **{"global": None})
        mbad = compare(o2, tm)
    if not bad and not mbad:
        return None
    try:
        d = chk.real.call("direct_oracle", cfg, eff)
    except Exception as e:  # noqa: BLE001
        return ("broken", "direct-oracle-crash", f"{type(e).__name__}: {e}")
    B, theta = crude_amplitude_bound(cfg, req["members"], eff, real["min_p"])
    what = None
    Rd = d["phys"] * d["logical"]
    if not core.close(obs["phys"], d["phys"], TOL):
        what = ("physical_perf", f"returned {obs['phys']!r}, directly computed {d['phys']!r}")
    elif d["phys"] > TINY and abs(obs["logical"] - d["logical"]) > B / d["phys"] + TOL:
        what = ("logical_perf", f"returned {obs['logical']!r}, directly computed {d['logical']!r}, crude bound of the "
                                f"change {B!r}")
    elif Rd > TINY and Rd - B > TINY:
        for k in set(obs["results"]) | set(d["results"]):
            x, xh = obs["results"].get(k, 0.0), d["results"].get(k, 0.0)
            if abs(x - xh) > 2 * B / (Rd - B) + TOL:
                what = ("results", f"state {list(k)}: returned {x!r}, directly computed {xh!r}, crude bound of the "
                                   f"change {B!r}")
                break
    if what is not None:
        return ("violation", "trim-sup-" + what[0],
                f"{what[0]} of a superposed input at precision {cfg['prec']} (threshold {theta!r}) is further from the "
                f"conditioned unconditioned distribution than the amplitude threshold allows (heralds "
                f"{cfg['heralds']}, filter {cfg['filter']}, post-selection {cfg['ps']}): {what[1]}")
    first = (bad or mbad)[0]
    return ("broken", ("trim-sup-bound:" if bad else "trim-sup-model-vs-code:") + first[0],
            (f"outside the distance given by the model's error distribution: {first[1]}" if bad else
             f"thresholded model (masked amplitudes, _merge_sv threshold as coded) and implementation differ: {first[1]}")
            + f" [precision {cfg['prec']}, threshold {rep['theta']}, gap {gap!r}]")


# ------------------------------------------------------------------------------------------------
# check_heralds_detectors: the early exit of probs_svd (PM.C04.checkHeraldsDetectors / probsSvdGuarded)
# ------------------------------------------------------------------------------------------------
def gen_guard_config(rng, max_m):
    """a herald expecting 2 (or 3) photons on a mode whose detector may be unable to report that many"""
    m = rng.randint(2, max_m)
    k = rng.randrange(m)
    v = rng.choice([2, 2, 3])
    heralds = [[k, v]]
    if m >= 3 and rng.random() < 0.4:
        k2 = rng.choice([x for x in range(m) if x != k])
        heralds.append([k2, rng.randint(0, 1)])
    dets = [rng.choice([None, "pnr", "thr", ["ppnr", 2, None], ["ppnr", 3, 2], ["ppnr", 3, None]]) for _ in range(m)]
    dets[k] = rng.choice(["thr", ["ppnr", 2, None], ["ppnr", 3, 2], ["ppnr", 3, 1], ["ppnr", 3, None], "pnr", None])
    n = v + sum(x for _, x in heralds[1:]) + rng.randint(0, 1)
    members = [{"w": 1.0, "state": gen_tagged_state(rng, m, min(n, 4), rng.choice([0, 1, 2]))}]
    return {"kind": "sim", "backend": rng.choice(["SLOS", "Naive"]), "m": m, "circ": gen_circuit(rng, m),
            "heralds": declare(rng, heralds), "ps": None, "psj": True, "filter": rng.randint(0, 1),
            "keep": rng.random() < 0.5, "members": members, "dets": dets, "guard": True}


def judge_guard(chk, cfg):
    maxes = [det_max(d) for d in cfg["dets"]]
    rep = chk.lean.ask({"op": "c04guard", "m": cfg["m"], "heralds": cfg["heralds"], "maxes": maxes})
    if "err" in rep:
        return ("broken", "lean-rejects", f"driver rejected the request: {rep['err']}")
    if rep["ok"]:
        chk.branch("guard-passes")
        return judge(chk, {k: v for k, v in cfg.items() if k != "guard"})
    chk.branch("guard-early-exit")
    try:
        real = chk.real.call("run_real", dict(cfg, members=cfg["members"]))
    except Crash as e:
        return crash_verdict(cfg, e, "Simulator.probs_svd")
    if "err" in real:
        return ("violation", "raises-" + real["err"], f"Simulator.probs_svd raised {real['err']}: {real['msg']}")
    obs = real["obs"]
    # the herald cannot be reported: nothing is retained; the code's convention is physical_perf 1, logical_perf 0
    if obs["results"] or obs["logical"] != 0.0:
        return ("violation", "incompatible-herald-retains",
                f"herald {cfg['heralds']} cannot be reported by detectors {cfg['dets']} but probs_svd returned "
                f"results {obs['results']} with logical_perf {obs['logical']!r}")
    if obs["phys"] != 1.0:
        return ("broken", "guard-model-vs-code", f"early exit returned physical_perf {obs['phys']!r}, model 1")
    return None


# ------------------------------------------------------------------------------------------------
# sessions: one long-lived Simulator / Processor, selection changed between queries
# (PM.C04.simStep / procStep; theorems simulator_selection_history_independent,
#  processor_selection_history_independent)
# ------------------------------------------------------------------------------------------------
def gen_fock_members(rng, m, H):
    k = rng.randint(1, 3)
    ws = [rng.random() + 0.05 for _ in range(k)]
    members, seen = [], set()
    for w in ws:
        n = rng.choice([0, H, H + 1, H + 1, H + 2]) if rng.random() < 0.85 else rng.randint(0, H + 2)
        n = min(n, 4 if m <= 3 else 3)
        st = gen_tagged_state(rng, m, n, rng.choice([0, 1, 2, 2, 3]))
        key = json.dumps(st)
        if key not in seen:
            seen.add(key)
            members.append({"w": w, "state": st})
    tot = sum(mb["w"] for mb in members)
    for mb in members:
        mb["w"] /= tot
    return members


def transition_ops(rng, cur, tgt):
    """simulator API calls that turn the selection `cur` into `tgt` (some redundant, in random order)"""
    ops = []
    via_sel = {"t": "sel", "filter": None, "ps": None, "src": None, "heralds": None}
    use_sel = rng.random() < 0.55
    if sorted(map(list, tgt["heralds"])) != sorted(map(list, cur["heralds"])) or list(tgt["heralds"]) != list(cur["heralds"]) \
            or rng.random() < 0.2:
        if not tgt["heralds"] and rng.random() < 0.7:
            ops.append({"t": "clearHeralds"})
        elif use_sel and rng.random() < 0.7:
            via_sel["heralds"] = tgt["heralds"]
        else:
            ops.append({"t": "heralds", "heralds": tgt["heralds"]})
    if tgt["ps"] != cur["ps"] or rng.random() < 0.2:
        if tgt["ps"] is None:
            ops.append({"t": "clearPs"})
        elif use_sel and rng.random() < 0.7:
            via_sel["ps"], via_sel["src"] = tgt["psj"], tgt["ps"]
        else:
            ops.append({"t": "ps", "ps": tgt["psj"], "src": tgt["ps"]})
    if tgt["filter"] != cur["filter"] or rng.random() < 0.2:
        if use_sel and rng.random() < 0.7:
            via_sel["filter"] = tgt["filter"]
        else:
            ops.append({"t": "filter", "k": tgt["filter"]})
    if tgt["keep"] != cur["keep"] or rng.random() < 0.2:
        ops.append({"t": "keep", "b": tgt["keep"]})
    if use_sel:
        ops.append(via_sel)
    rng.shuffle(ops)
    return ops


def gen_session_config(rng, max_m):
    if rng.random() < 0.62:
        m = rng.randint(2, max_m)
        cur = {"heralds": [], "ps": None, "psj": True, "filter": 0, "keep": True}
        steps = []
        for _ in range(rng.randint(2, 4)):
            tgt = dict(cur)
            r = rng.random()
            if r < 0.6 or not steps:
                tgt["heralds"] = [] if (cur["heralds"] and rng.random() < 0.2) else \
                    declare(rng, gen_heralds(rng, m, allow2=True))
            if rng.random() < 0.5:
                tgt["ps"], tgt["psj"] = (None, True) if rng.random() < 0.4 else gen_ps(rng, m, rng.randint(0, 1))
            H = sum(v for _, v in tgt["heralds"])
            if rng.random() < 0.6:
                tgt["filter"] = rng.randint(0, 2)
            if rng.random() < 0.4:
                tgt["keep"] = not tgt["keep"]
            members = gen_fock_members(rng, m, H)
            nin = max(sum(len(x) for x in mb["state"]) for mb in members)
            steps.append({"ops": transition_ops(rng, cur, tgt), "sel": tgt, "members": members,
                          "dets": gen_dets(rng, m, tgt["heralds"], nin)})
            cur = tgt
        return {"kind": "session", "obj": "sim", "backend": rng.choice(["SLOS", "SLOS", "Naive"]), "m": m,
                "circ": gen_circuit(rng, m), "steps": steps}
    base = gen_proc_config(rng, max_m)
    base.pop("prev", None)
    if base["noise"] is None and rng.random() < 0.3:
        base["filter"] = None                         # the automatic filter, stored by the first probs()
    nin = sum(base["user"])
    cur = {"ps": base["ps"], "psj": base["psj"], "filter": base["filter"]}
    steps = [{"ops": [], "sel": dict(cur)}]
    for _ in range(rng.randint(1, 3)):
        tgt = dict(cur)
        ops = []
        r = rng.random()
        if r < 0.45 and cur["ps"] is not None:
            tgt["ps"], tgt["psj"] = None, True
            ops.append({"t": "clearPs"})
        elif r < 0.8:
            tgt["ps"], tgt["psj"] = gen_ps(rng, base["m"], rng.randint(0, 1))
            ops.append({"t": "ps", "ps": tgt["psj"], "src": tgt["ps"]})
        elif cur["ps"] is None and rng.random() < 0.5:
            ops.append({"t": "clearPs"})                   # clearing what is not set: no notification
        if (rng.random() < 0.5 or not ops) and cur["filter"] is not None:
            tgt["filter"] = rng.choice([x for x in range(0, nin + 2) if x != cur["filter"]])
            ops.append({"t": "filter", "k": tgt["filter"]})
        rng.shuffle(ops)
        steps.append({"ops": ops, "sel": tgt})
        cur = tgt
    return {"kind": "session", "obj": "proc", "backend": base["backend"], "m": base["m"], "circ": base["circ"],
            "base": base, "steps": steps}


def apply_sim_op(sim, op):
    import perceval as pcvl
    t = op["t"]
    if t == "sel":
        sim.set_selection(min_detected_photons_filter=op["filter"],
                          postselect=pcvl.PostSelect(op["src"]) if op["src"] else None,
                          heralds=None if op["heralds"] is None else {int(k): int(v) for k, v in op["heralds"]})
    elif t == "heralds":
        sim.set_heralds({int(k): int(v) for k, v in op["heralds"]})
    elif t == "clearHeralds":
        sim.clear_heralds()
    elif t == "ps":
        sim.set_postselection(pcvl.PostSelect(op["src"]))
    elif t == "clearPs":
        sim.clear_postselection()
    elif t == "filter":
        sim.set_min_detected_photons_filter(op["k"])
    elif t == "keep":
        sim.keep_heralds(op["b"])
    else:
        raise ValueError(t)


def run_session(cfg):
    """-> dict(outs=[canon_result per query], U, members=[lean members per query]) or dict(err=…, at=query index)"""
    import perceval as pcvl
    from perceval.simulators import Simulator
    circ = build_circuit(cfg["circ"])
    outs, mems = [], []
    at = 0
    try:
        if cfg["obj"] == "sim":
            sim = Simulator(pcvl.BackendFactory.get_backend(cfg["backend"]))
            sim.set_circuit(circ)
            sim.set_precision(0)
            for at, step in enumerate(cfg["steps"]):
                for op in step["ops"]:
                    apply_sim_op(sim, op)
                outs.append(canon_result(sim.probs_svd(svd_of(step["members"]), build_dets(step["dets"]))))
                mems.append([{"w": mb["w"], "groups": groups_of(mb["state"])} for mb in step["members"]])
            U = np.array(circ.compute_unitary(), dtype=complex)
        else:
            base = cfg["base"]
            noise = pcvl.NoiseModel(**base["noise"]) if base["noise"] else None
            p = pcvl.Processor(cfg["backend"], cfg["m"], noise=noise)
            p.add(0, circ)
            dets = base.get("dets")

            def add_dets():
                for k, d in enumerate(dets or []):
                    if d is not None:
                        p.add(k, build_det(d))

            if base.get("dets_first"):
                add_dets()
            for k, v in base["heralds"]:
                p.add_herald(k, v)
            if not base.get("dets_first"):
                add_dets()
            if base["ps"]:
                p.set_postselection(pcvl.PostSelect(base["ps"]))
            if base["filter"] is not None:
                p.min_detected_photons_filter(base["filter"])
            p.with_input(pcvl.BasicState(base["user"]))
            for at, step in enumerate(cfg["steps"]):
                for op in step["ops"]:
                    if op["t"] == "ps":
                        p.set_postselection(pcvl.PostSelect(op["src"]))
                    elif op["t"] == "clearPs":
                        p.clear_postselection()
                    elif op["t"] == "filter":
                        p.min_detected_photons_filter(op["k"])
                    else:
                        raise ValueError(op["t"])
                outs.append(canon_result(p.probs(precision=0)))
                lm = []
                for sv, pr in p.source_distribution.items():
                    assert len(sv) == 1
                    lm.append({"w": float(pr), "groups": groups_of(tags_of(sv[0]))})
                mems.append(lm)
            U = np.array(p.linear_circuit().compute_unitary(), dtype=complex)
    except Exception as e:                       # noqa: BLE001 — every exception is an observation
        return {"err": type(e).__name__, "msg": str(e)[:300], "at": at}
    return {"outs": outs, "U": U, "members": mems}


def lean_op(op):
    return {k: v for k, v in op.items() if k != "src"}


def session_request(cfg, real):
    ops = []
    nmax = max([sum(map(sum, mb["groups"])) for lm in real["members"] for mb in lm] + [0])
    if cfg["obj"] == "proc":
        base = cfg["base"]
        for k, v in base["heralds"]:
            ops.append({"t": "herald", "k": k, "v": v})
        if base.get("dets"):
            ops.append({"t": "dets", "dets": lean_dets(base["dets"], nmax)})
        if base["ps"]:
            ops.append({"t": "ps", "ps": base["psj"]})
        if base["filter"] is not None:
            ops.append({"t": "filter", "k": base["filter"]})
    idx = []
    for step, lm in zip(cfg["steps"], real["members"]):
        ops.extend(lean_op(op) for op in step["ops"])
        q = {"t": "probs", "members": [{"w": core.rat(mb["w"]), "groups": mb["groups"]} for mb in lm]}
        if cfg["obj"] == "sim":
            q["dets"] = lean_dets(step["dets"], nmax)
        else:
            q["autoN"] = sum(cfg["base"]["user"]) if cfg["base"]["noise"] is None else None
        idx.append(len(ops))
        ops.append(q)
    return {"op": "session", "kind": cfg["obj"], "m": cfg["m"], "U": core.mat(real["U"].tolist()), "ops": ops}, idx


def single_of(cfg, j):
    """the j-th query of a session as a request to a FRESH object (the existing single-request configuration)"""
    step = cfg["steps"][j]
    if cfg["obj"] == "sim":
        return dict(step["sel"], kind="sim", backend=cfg["backend"], m=cfg["m"], circ=cfg["circ"],
                    members=step["members"], dets=step["dets"])
    one = dict(cfg["base"], **step["sel"])
    if one["filter"] is None:
        one["filter"] = None
    return one


def judge_session(chk, cfg):
    """-> None or (kind, signature, what)"""
    entry = "Processor.probs" if cfg["obj"] == "proc" else "Simulator.probs_svd"
    try:
        real = chk.real.call("run_session", cfg)
    except Crash as e:
        if "no answer" in e.how:
            return ("broken", "real-code-timeout", f"{entry} in a session: {e.how}")
        return ("violation", "native-crash", f"{entry} on a reused object (session of {len(cfg['steps'])} queries): {e.how}")
    if "err" in real:
        return ("violation", "raises-" + real["err"],
                f"{entry} (query {real['at'] + 1} of a session on one object) raised {real['err']}: {real['msg']}")
    req, idx = session_request(cfg, real)
    rep = chk.lean.ask(req)
    if "err" in rep:
        return ("broken", "lean-rejects", f"driver rejected the session: {rep['err']}")
    chk.last_retained = 0.0
    for j, (obs, i) in enumerate(zip(real["outs"], idx)):
        o = rep["outs"][i]
        if o is None or "exc" in o:
            return ("broken", "session-model", f"the model answers query {j + 1} with {o}")

        def out_of(x):
            return {"results": dist_of_json(x["results"]), "phys": Fraction(x["phys"]), "logical": Fraction(x["logical"])}

        mach, stateless = out_of(o["machine"]), out_of(o["stateless"])
        if mach != stateless:
            return ("broken", "session-machine-vs-theorem",
                    f"query {j + 1}: the state machine and the stateless model of the selection in force differ")
        retained = float(Fraction(o["retained"]))
        chk.last_retained = max(chk.last_retained, retained)
        obs2, mm = dict(obs), dict(mach)
        if retained <= TINY:
            obs2["results"], mm["results"] = ({} if retained >= ZERO else obs["results"]), {}
        sp = float(Fraction(o["specPhys"]))
        if 0 < sp <= TINY:
            obs2 = dict(obs2, logical=0.0, **{"global": None})
            mm["logical"] = Fraction(0)
        bad = compare(obs2, mm)
        if j > 0 and retained > 1e-13:
            chk.branch("session-later-query-retains")
        if not bad:
            continue
        # the property evaluated without Lean: a fresh object given only the selection in force
        one = single_of(cfg, j)
        try:
            fresh = chk.real.call("run_real", one)
        except Crash as e:
            return crash_verdict(one, e, entry)
        except Exception as e:  # noqa: BLE001
            return ("broken", "direct-oracle-crash", f"{type(e).__name__}: {e}")
        if "err" in fresh:
            return ("broken", "fresh-object-raises", f"fresh object for query {j + 1}: {fresh['err']}: {fresh['msg']}")
        f2 = dict(fresh["obs"])
        if retained <= TINY:
            f2["results"] = obs2["results"]
        if 0 < sp <= TINY:
            f2 = dict(f2, logical=0.0)
        dbad = compare(obs2, {"results": f2["results"], "phys": f2["phys"], "logical": f2["logical"]})
        if dbad:
            return ("violation", "history-dependent-" + dbad[0][0],
                    f"query {j + 1} of a session on one {'Processor' if cfg['obj'] == 'proc' else 'Simulator'}: "
                    f"{dbad[0][0]} differs from what a fresh object given the same selection "
                    f"({ {k: v for k, v in cfg['steps'][j]['sel'].items() if k != 'psj'} }) returns: {dbad[0][1]}")
        return ("broken", "session-model-vs-code:" + bad[0][0],
                f"query {j + 1}: state-machine model and implementation differ ({bad[0][1]}) although a fresh object "
                f"agrees with the reused one")
    return None


def session_branches(chk, cfg):
    chk.branch("session-" + cfg["obj"])
    steps = cfg["steps"]
    if cfg["obj"] == "sim":
        for a, b in zip(steps, steps[1:]):
            ha, hb = a["sel"]["heralds"], b["sel"]["heralds"]
            if ha and dets_all_pnr(a["dets"]) and (not hb or not dets_all_pnr(b["dets"])):
                chk.branch("session-mask-mode-switched-off")
            if ha and hb and sorted(map(list, ha)) != sorted(map(list, hb)) and dets_all_pnr(a["dets"]) \
                    and dets_all_pnr(b["dets"]):
                chk.branch("session-other-heralds-under-mask")
            if ha and dets_all_pnr(a["dets"]) and any(not any(mb["state"]) or sum(len(x) for x in mb["state"]) == 0
                                                      for mb in b["members"]):
                chk.branch("session-vacuum-after-masked-query")
            if a["sel"]["ps"] and not b["sel"]["ps"]:
                chk.branch("session-postselection-cleared")
        for st in steps:
            for op in st["ops"]:
                chk.branch("session-op-" + op["t"])
                if op["t"] == "sel" and op["heralds"] is None and op["ps"] is None and op["filter"] is not None:
                    chk.branch("session-set_selection-filter-only")
    else:
        for a, b in zip(steps, steps[1:]):
            if a["sel"]["ps"] and not b["sel"]["ps"]:
                chk.branch("session-processor-postselection-cleared")
            if a["sel"]["ps"] != b["sel"]["ps"] and b["sel"]["ps"]:
                chk.branch("session-processor-postselection-replaced")
            if a["sel"]["filter"] != b["sel"]["filter"]:
                chk.branch("session-processor-filter-changed")
        if cfg["base"]["filter"] is None:
            chk.branch("session-processor-automatic-filter")


def shrink_session(chk, cfg, sig):
    def fails(c):
        try:
            r = judge_session(chk, c)
        except core.LeanError:
            raise
        except Exception:  # noqa: BLE001
            return False
        return r is not None and r[1] == sig

    cur = copy.deepcopy(cfg)
    budget = 25
    changed = True
    while changed and budget > 0:
        changed = False
        # drop a whole step (its operations are kept: they still shape the state), then single operations
        for i in range(len(cur["steps"]) - 1):
            c = copy.deepcopy(cur)
            nxt = c["steps"][i + 1]
            nxt["ops"] = c["steps"][i]["ops"] + nxt["ops"]
            del c["steps"][i]
            budget -= 1
            if cur["obj"] == "sim" and budget > 0 and fails(c):
                cur, changed = c, True
                break
        if changed:
            continue
        if len(cur["circ"]["comps"]) > 1:
            for i in range(len(cur["circ"]["comps"])):
                c = copy.deepcopy(cur)
                del c["circ"]["comps"][i]
                budget -= 1
                if budget > 0 and fails(c):
                    cur, changed = c, True
                    break
    return cur


def handle_session(chk, cfg, do_shrink=True):
    session_branches(chk, cfg)
    chk.count("kind", "session/" + cfg["obj"] + "/" + cfg["backend"])
    chk.count("session_queries", len(cfg["steps"]))
    chk.last_retained = 0.0
    res = judge_session(chk, cfg)
    sig = ("session", cfg["obj"], cfg["backend"], cfg["m"],
           json.dumps([[lean_op(o) for o in st["ops"]] for st in cfg["steps"]], sort_keys=True),
           json.dumps([st.get("dets") for st in cfg["steps"]]))
    chk.case(sig, nontrivial=chk.last_retained > 1e-13,
             sample={"kind": "session", "obj": cfg["obj"], "m": cfg["m"],
                     "selections": [{k: v for k, v in st["sel"].items() if k != "psj"} for st in cfg["steps"]]})
    if res is not None:
        kind, sg, what = res
        seen = chk.__dict__.setdefault("_c04_shrunk", set())
        first = (kind, sg) not in seen
        seen.add((kind, sg))
        small = shrink_session(chk, cfg, sg) if do_shrink and first else cfg
        r2 = judge_session(chk, small)
        if r2 is not None and r2[1] == sg:
            what = r2[2]
        else:
            small = cfg
        chk.fail(kind, sg, what, {"config": small})

# ------------------------------------------------------------------------------------------------
def effective_filter(cfg):
    """The user's filter; when it is left unset on a perfect source the documented default is the number of
    photons of the expected input — which, like every value given to `min_detected_photons_filter`, does not
    count heralded modes."""
    if cfg["filter"] is not None:
        return cfg["filter"]
    return sum(cfg["user"])


def crash_verdict(cfg, e, where):
    if "no answer" in e.how:
        return ("broken", "real-code-timeout", f"{where}: {e.how}")
    return ("violation", "native-crash",
            f"{where} on a legal configuration (heralds {cfg['heralds']} in declaration order, filter "
            f"{cfg['filter']}, post-selection {cfg['ps']}, detectors {cfg.get('dets')}): {e.how}")


def judge(chk, cfg):
    """-> None or (kind, signature, what)"""
    if cfg.get("guard"):
        return judge_guard(chk, cfg)
    if cfg.get("trimsup"):
        return judge_trim_sup(chk, cfg)
    if cfg.get("trim"):
        return judge_trim(chk, cfg)
    entry = "Processor.probs" if cfg["kind"] == "proc" or cfg.get("entry") == "proc" else "Simulator.probs_svd"
    try:
        real = chk.real.call("run_real", cfg)
    except Crash as e:
        return crash_verdict(cfg, e, entry)
    if "err" in real:
        return ("violation", "raises-" + real["err"], f"{entry} raised {real['err']}: {real['msg']}")
    eff = effective_filter(cfg)
    if cfg["kind"] == "proc":
        rep = chk.lean.ask({"op": "interleave", "m": cfg["m"], "heralds": cfg["heralds"], "user": cfg["user"]})
        if "err" in rep:
            return ("broken", "interleave-model", f"model rejected a valid input: {rep['err']}")
        chk.branch("interleave")
        if rep["full"] != real["full_input"]:
            if lean_free_interleave(cfg["m"], cfg["heralds"], cfg["user"]) != real["full_input"]:
                return ("violation", "with_input-interleave",
                        f"with_input built {real['full_input']} from user input {cfg['user']} and heralds {cfg['heralds']}")
            return ("broken", "interleave-model", f"model {rep['full']} vs code {real['full_input']}")
        if cfg["filter"] is None:
            # the model's default threshold (theorem auto_filter_spec: the user's photon number)
            if rep["autoFilter"] != eff:
                return ("broken", "auto-filter-model", f"model default {rep['autoFilter']} vs documented {eff}")
            eff = rep["autoFilter"]
    req = lean_request(cfg, real, eff)
    rep = chk.lean.ask(req)
    if "err" in rep:
        return ("broken", "lean-rejects", f"driver rejected the request: {rep['err']}")
    obs = real["obs"]
    if req["op"] in ("c04", "c04gen"):
        if req["op"] == "c04gen":
            chk.branch("superposed-input")
            if cfg["heralds"] and float(Fraction(rep["spec"]["retained"])) > 1e-13:
                chk.branch("superposed-input-under-mask-retained")
        spec = {"results": dist_of_json(rep["spec"]["results"]), "phys": Fraction(rep["spec"]["phys"]),
                "logical": Fraction(rep["spec"]["logical"])}
        model = {"results": dist_of_json(rep["model"]["results"]), "phys": Fraction(rep["model"]["phys"]),
                 "logical": Fraction(rep["model"]["logical"])}
        retained = float(Fraction(rep["spec"]["retained"]))
        if req["op"] == "c04gen":
            multi_branches(chk, cfg, retained)
            if rep.get("sectors") is not None:
                # instance of the theorem `probsSvdGenS_eq_split`: the two passes of `_preprocess_svd` followed by the
                # generic path = the generic path on the mixture of the photon-number sectors
                chk.branch("sup-multi-photon-number-sectors-instance")
                if rep["sectors"] != rep["model"]:
                    return ("broken", "split-model-vs-sectors",
                            "the model of _preprocess_svd's split and the generic model on the mixture of the sectors differ")
        if not dets_all_pnr(cfg.get("dets")) and cfg["heralds"] and 0 < spec["phys"] < 1 and retained > 1e-13 \
                and all(det_is_pnr(cfg["dets"][k]) for k, _ in cfg["heralds"]):
            chk.branch("detector-filter-bites-under-pnr-heralds")
        if spec["phys"] == 0 and not dets_all_pnr(cfg.get("dets")):
            # P(heralds and post-selection | filter passed) is undefined when the filter never passes; the detector
            # stage then reports 1 where the PNR path reports 0 — the product (retained probability 0) is compared
            chk.branch("filter-never-passes-after-detection")
            obs = dict(obs, logical=0.0)
            spec = dict(spec, logical=Fraction(0))
            model = dict(model, logical=Fraction(0))
        # instance of the theorem `probsSvd_spec` (mass of the engine's distributions is 1 only up to rounding)
        mfloat = {"results": {k: float(v) for k, v in model["results"].items()}, "phys": float(model["phys"]),
                  "logical": float(model["logical"]), "global": None}
        if retained <= 1e-13:
            mfloat["results"], spec_cmp = {}, dict(spec, results={})
        else:
            spec_cmp = spec
        mbad = compare(mfloat, spec_cmp)
        if mbad:
            return ("broken", "model-vs-spec", f"code-shaped model and specification differ: {mbad[0]}")
    else:
        spec = {"results": dist_of_json(rep["conditioned"]), "phys": Fraction(rep["phys"]),
                "logical": Fraction(rep["logic"])}
        model = None
        retained = float(Fraction(rep["retained"]))
        chk.branch("superposed-input")
    chk.last_retained = retained
    tiny = ZERO <= retained <= TINY
    if retained < ZERO:
        # nothing retained: the conditioned distribution is empty (entries of the exact zero-mass list are noise)
        spec = dict(spec, results={})
        chk.branch("nothing-retained")
    elif tiny:
        chk.branch("retained-too-small-to-compare-entries")
        spec = dict(spec, results={})
        obs = dict(obs, results={})
    if 0 < spec["phys"] <= TINY:
        # P(. | filter passed) with a filter that almost never passes: quotient of two rounded tiny numbers
        obs = dict(obs, logical=0.0, **{"global": None})
        spec = dict(spec, logical=Fraction(0))
        if model is not None:
            model = dict(model, logical=Fraction(0))
    bad = compare(obs, spec)
    if not bad and model is not None:
        mm = dict(model)
        if retained <= TINY:
            mm["results"] = {}
        bad_m = compare(obs, mm)
        if bad_m:
            return ("broken", "model-vs-code", f"code-shaped model and implementation differ: {bad_m[0]}")
    if not bad and "evolve" in real and req["op"] == "c04":
        ev = real["evolve"]
        chk.branch("evolve")
        r2 = chk.lean.ask(dict(req, members=[{"w": "1", "groups": ev["groups"]}],
                               cfg=dict(req["cfg"], filter=0), dets=None))
        if "err" in r2:
            return ("broken", "lean-rejects", f"driver rejected the evolve request: {r2['err']}")
        ret2 = Fraction(r2["spec"]["retained"])
        sp2 = {"results": dist_of_json(r2["spec"]["results"]) if float(ret2) > TINY else {}, "phys": 1,
               "logical": ret2}
        tiny2 = ZERO <= float(ret2) <= TINY
        if tiny2:
            ev = dict(ev, results={})
        # A StateVector cannot carry the mixed state left after *discarding* heralded modes that hold
        # distinguishable photons (post_select_statevector then adds amplitudes of outputs differing only by the
        # tags of the discarded photons): the squared amplitudes are compared when the representation is
        # faithful — heralds kept, or a single tag group — and logical_perf always.
        faithful = cfg["keep"] or len(ev["groups"]) == 1 or not cfg["heralds"]
        if faithful:
            chk.branch("evolve-distribution-compared")
        else:
            ev = dict(ev, results={k: float(v) for k, v in sp2["results"].items()})
        bad2 = compare(ev, sp2)
        if bad2:
            # the property evaluated without Lean: selection-free simulator on the same single input, conditioned here
            one = dict(cfg, members=[dict(next(mb for mb in cfg["members"] if "state" in mb), w=1.0)], filter=0,
                       dets=None)
            try:
                d2 = chk.real.call("direct_oracle", one, 0)
            except Exception as e:  # noqa: BLE001
                return ("broken", "direct-oracle-crash", f"{type(e).__name__}: {e}")
            if not faithful or tiny2:
                d2 = dict(d2, results=ev["results"])
            dbad2 = compare(ev, d2)
            if dbad2:
                return ("violation", "evolve-under-mask",
                        f"Simulator.evolve after probs_svd (herald mask active): {dbad2[0][0]} differs from "
                        f"conditioning the unconditioned output (heralds {cfg['heralds']}, post-selection "
                        f"{cfg['ps']}, input groups {ev['groups']}): {dbad2[0][1]}")
            return ("broken", "spec-vs-code:evolve-" + bad2[0][0],
                    f"exact specification and Simulator.evolve differ ({bad2[0][1]}) although the directly "
                    f"conditioned unconditioned output agrees")
    if not bad:
        return None
    # failing-input search: the property evaluated directly on the real code
    field, what = bad[0]
    try:
        d = chk.real.call("direct_oracle", cfg, eff)
        if d["phys"] <= 1e-13 and not dets_all_pnr(cfg.get("dets")):
            d = dict(d, logical=0.0)
        if tiny:
            d = dict(d, results={})
        if 0 < spec["phys"] <= TINY:
            d = dict(d, logical=0.0)
        dbad = compare(obs, d)
    except Exception as e:  # noqa: BLE001
        return ("broken", "direct-oracle-crash", f"{type(e).__name__}: {e}")
    if dbad:
        sig = field_signature(cfg, dbad[0][0])
        if sig == "auto-filter-counts-heralds-twice":
            # that name claims a cause: it is kept only if the same configuration with the documented default
            # written out explicitly is answered correctly
            try:
                if judge(chk, dict(cfg, filter=eff)) is not None:
                    sig = "conditioning-" + dbad[0][0]
            except core.LeanError:
                raise
            except Exception:  # noqa: BLE001
                sig = "conditioning-" + dbad[0][0]
        multi_note = ""
        if cfg["kind"] == "sim" and any(len(member_ns(mb)) >= 2 for mb in cfg["members"]):
            multi_note = (f"; {entry}, input members hold the photon numbers "
                          f"{[member_ns(mb) for mb in cfg['members']]} (components of different photon number never "
                          f"interfere: the oracle conditions the mixture of the sectors)")
        return ("violation", sig,
                f"{dbad[0][0]} differs from conditioning the unconditioned distribution "
                f"(heralds {cfg['heralds']}, filter {cfg['filter']}, post-selection {cfg['ps']}): {dbad[0][1]}"
                f"{multi_note}")
    return ("broken", "spec-vs-code:" + field,
            f"exact specification and implementation differ ({what}) although the directly conditioned "
            f"unconditioned distribution of the implementation agrees")


def field_signature(cfg, field):
    if cfg["kind"] == "proc" and cfg["filter"] is None and cfg["heralds"] and sum(v for _, v in cfg["heralds"]) > 0:
        return "auto-filter-counts-heralds-twice"
    return "conditioning-" + field


# ------------------------------------------------------------------------------------------------
def n_groups(cfg, real=None):
    if cfg["kind"] == "sim":
        return max(len(groups_of(mb["state"])) if "state" in mb else 1 for mb in cfg["members"])
    return 0


def shrink(chk, cfg, sig):
    def fails(c):
        try:
            r = judge(chk, c)
        except core.LeanError:
            raise
        except Exception:  # noqa: BLE001
            return False
        return r is not None and r[1] == sig

    cur = copy.deepcopy(cfg)
    budget = 12 if sig in ("native-crash", "real-code-timeout") else 60   # every crash costs a worker restart

    def attempt(cand):
        nonlocal cur, budget
        if budget <= 0:
            return False
        budget -= 1
        if fails(cand):
            cur = cand
            return True
        return False

    changed = True
    while changed and budget > 0:
        changed = False
        if cur.get("prev"):
            c = copy.deepcopy(cur)
            del c["prev"]
            changed |= attempt(c)
        if cur.get("dets"):
            c = copy.deepcopy(cur)
            c["dets"] = None
            if not attempt(c):
                for i, d in enumerate(cur["dets"]):
                    if d is not None:
                        c = copy.deepcopy(cur)
                        c["dets"][i] = None
                        if attempt(c):
                            changed = True
                            break
            else:
                changed = True
        if cur["heralds"] != sorted(cur["heralds"]):
            c = copy.deepcopy(cur)
            c["heralds"] = sorted(c["heralds"])
            changed |= attempt(c)
        if cur["ps"]:
            c = copy.deepcopy(cur)
            c["ps"], c["psj"] = None, True
            changed |= attempt(c)
        for i in range(len(cur["heralds"])):
            c = copy.deepcopy(cur)
            del c["heralds"][i]
            if cur["kind"] == "proc":
                # a herald less = a free mode more: give it the herald's value as user input
                full = lean_free_interleave(cur["m"], cur["heralds"], cur["user"])
                hm = {k for k, _ in c["heralds"]}
                c["user"] = [x for k, x in enumerate(full) if k not in hm]
                if c.get("prev") and "user" in c["prev"]:
                    del c["prev"]["user"]
            if attempt(c):
                changed = True
                break
        if cur["kind"] == "sim" and len(cur["members"]) > 1:
            for i in range(len(cur["members"])):
                c = copy.deepcopy(cur)
                del c["members"][i]
                tot = sum(mb["w"] for mb in c["members"])
                for mb in c["members"]:
                    mb["w"] /= tot
                if attempt(c):
                    changed = True
                    break
        if cur["kind"] == "sim":
            done = False
            for i, mb in enumerate(cur["members"]):
                if "terms" in mb and len(mb["terms"]) > 2:
                    for j in range(len(mb["terms"])):
                        c = copy.deepcopy(cur)
                        del c["members"][i]["terms"][j]
                        if attempt(c):
                            changed = done = True
                            break
                if done:
                    break
        if len(cur["circ"]["comps"]) > 1:
            for i in range(len(cur["circ"]["comps"])):
                c = copy.deepcopy(cur)
                del c["circ"]["comps"][i]
                if attempt(c):
                    changed = True
                    break
        if cur["filter"]:
            c = copy.deepcopy(cur)
            c["filter"] = 0
            changed |= attempt(c)
        if cur.get("entry") == "proc":
            c = copy.deepcopy(cur)
            c["entry"] = "sim"
            changed |= attempt(c)
    return cur


def signature_of(cfg):
    hs = tuple(tuple(h) for h in cfg["heralds"])
    if cfg["kind"] == "sim":
        shape = tuple(sorted((len(groups_of(mb["state"])), sum(len(x) for x in mb["state"])) if "state" in mb
                             else (-len(mb["terms"]), 0) + tuple(member_ns(mb)) for mb in cfg["members"]))
        if cfg.get("entry") == "proc":
            shape = ("proc",) + shape
    else:
        shape = (tuple(cfg["user"]), json.dumps(cfg["noise"], sort_keys=True))
    return (cfg["kind"], cfg["backend"], cfg["m"], hs, cfg["filter"], cfg["ps"], cfg["keep"], shape,
            json.dumps(cfg.get("dets")), bool(cfg.get("prev")), str(cfg.get("prec", 0)))


def ps_modes(j):
    if j is True:
        return set()
    if "c" in j:
        return set(j["c"])
    out = set()
    for v in j.values():
        for x in (v if isinstance(v, list) else [v]):
            out |= ps_modes(x)
    return out


def shape_branches(chk, cfg):
    """counters of the shapes the seeded-change classes need (declaration order, detector layouts, reuse)"""
    decl = [list(h) for h in cfg["heralds"]]
    m = cfg["m"]
    hm = {k for k, _ in decl}
    if decl != sorted(decl):
        chk.branch("heralds-declared-out-of-order")
        for i, (a, _) in enumerate(decl):
            if any(b < a for b, _ in decl[i + 1:]) and any(k > a and k not in hm for k in range(m)):
                chk.branch("descending-heralds-free-mode-after")
                break
    dets = cfg.get("dets")
    if dets is None:
        chk.branch("no-detector-list")
    elif dets_all_pnr(dets):
        chk.branch("detectors-all-pnr")
    elif all(d == "thr" for d in dets):
        chk.branch("detectors-all-threshold")
    else:
        chk.branch("detectors-mixed")
    if dets and not dets_all_pnr(dets):
        if any(isinstance(d, list) for d in dets):
            chk.branch("detector-ppnr")
        if hm and all(det_is_pnr(dets[k]) for k in hm):
            chk.branch("mixed-detectors-heralds-pnr")
        if any(not det_is_pnr(dets[k]) for k in hm):
            chk.branch("non-pnr-detector-on-herald")
        if cfg["kind"] == "proc" and cfg.get("dets_first"):
            chk.branch("detectors-declared-before-heralds")
    if cfg["ps"] and not cfg["keep"] and hm and min(hm) < max(ps_modes(cfg["psj"]) or {-1}):
        chk.branch("postselect-mode-after-dropped-herald")
    prev = cfg.get("prev")
    if prev:
        chk.branch("reused-simulator" if cfg["kind"] == "sim" else "reused-processor")
        if cfg["kind"] == "sim":
            if prev["heralds"] and dets_all_pnr(prev["dets"]) and (not decl or not dets_all_pnr(dets)):
                chk.branch("mask-cleared-on-reuse")
            if sorted(map(list, prev["heralds"])) != sorted(decl):
                chk.branch("reused-with-other-heralds")
        else:
            for k in prev:
                chk.branch("reused-processor-changed-" + k)


# ------------------------------------------------------------------------------------------------
# EXTENSION 4a: where the heralds come from — Experiment.add_herald / add_port / heralds / m / circuit_size /
# with_input(BasicState) against the declaration machine PM.C04.declRun (theorems declared_heralds_invariant,
# declared_heralds_wf, declared_with_input_spec)
# ------------------------------------------------------------------------------------------------
def gen_decl_config(rng, max_m):
    m = rng.randint(2, max_m)
    ops = []
    for _ in range(rng.randint(1, 7)):
        r = rng.random()
        if r < 0.72:
            mode = rng.randrange(m) if rng.random() < 0.88 else rng.randint(m, m + 2)
            if ops and rng.random() < 0.2:
                mode = rng.choice(ops)["mode"]                         # the mode of an earlier call
            ops.append({"t": "herald", "mode": mode, "expected": rng.choice([0, 1, 1, 1, 0, 2])})
        else:
            ops.append({"t": "port", "mode": rng.randint(0, m), "width": rng.choice([1, 2])})
    # the number of free modes according to a plain set simulation (only used to aim the input length)
    occ, nher = set(), 0
    for o in ops:
        rg = [o["mode"]] if o["t"] == "herald" else list(range(o["mode"], o["mode"] + o["width"]))
        if o["t"] == "herald" and o["expected"] > 1:
            continue
        if any(k in occ for k in rg):
            continue
        occ.update(rg)
        if o["t"] == "herald" and o["mode"] < m:
            nher += 1
    free = m - nher
    ln = free if rng.random() < 0.7 else rng.choice([x for x in (free - 1, free + 1, m) if x >= 0])
    return {"kind": "decl", "m": m, "ops": ops, "user": [rng.choice([0, 0, 1, 1, 2]) for _ in range(ln)],
            "entry": rng.choice(["experiment", "processor"])}


def decl_real(cfg):
    import perceval as pcvl
    from perceval.components import Port
    from perceval.utils import Encoding
    if cfg["entry"] == "processor":
        obj = pcvl.Processor("SLOS", cfg["m"])
        exp = obj.experiment
    else:
        obj = exp = pcvl.Experiment(cfg["m"])
    outcomes = []
    for i, o in enumerate(cfg["ops"]):
        try:
            if o["t"] == "herald":
                obj.add_herald(o["mode"], o["expected"])
            else:
                obj.add_port(o["mode"], Port(Encoding.RAW if o["width"] == 1 else Encoding.DUAL_RAIL, f"p{i}"))
            outcomes.append("ok")
        except Exception as e:  # noqa: BLE001 — every exception is an observation
            outcomes.append(type(e).__name__)
    out = {"outcomes": outcomes, "heralds": [[int(k), int(v)] for k, v in obj.heralds.items()],
           "m": int(obj.m), "circuitSize": int(obj.circuit_size)}
    try:
        obj.with_input(pcvl.BasicState(cfg["user"]))
        out["input"] = [int(x) for x in exp.input_state]
    except Exception as e:  # noqa: BLE001
        out["input"] = type(e).__name__
    return out


def judge_decl(chk, cfg):
    try:
        real = chk.real.call("decl_real", cfg)
    except Crash as e:
        return ("violation", "native-crash", f"declaration {cfg['ops']}: {e.how}")
    rep = chk.lean.ask({"op": "c04decl", "m": cfg["m"], "ops": cfg["ops"], "user": cfg["user"]})
    if "err" in rep:
        return ("broken", "lean-rejects", f"driver rejected the request: {rep['err']}")
    oc = real["outcomes"]
    for o, r in zip(cfg["ops"], oc):
        chk.count("decl_outcome", o["t"] + "/" + r)
    if "IndexError" in oc:
        chk.branch("decl-index-error")
        if any(r == "ok" and o["t"] == "herald" for o, r in
               zip(cfg["ops"][oc.index("IndexError") + 1:], oc[oc.index("IndexError") + 1:])):
            chk.branch("decl-herald-accepted-after-index-error")
    if "AssertionError" in oc:
        chk.branch("decl-expected-refused")
    seen_modes, port_modes = set(), set()
    for o, r in zip(cfg["ops"], oc):
        rg = [o["mode"]] if o["t"] == "herald" else list(range(o["mode"], o["mode"] + o["width"]))
        if r == "UnavailableModeException":
            if o["t"] == "herald":
                chk.branch("decl-herald-refused-by-port" if o["mode"] in port_modes else "decl-herald-refused-by-herald")
            else:
                chk.branch("decl-port-refused")
        elif r in ("ok", "IndexError"):
            (seen_modes if o["t"] == "herald" else port_modes).update(rg)
    chk.branch("decl-" + cfg["entry"])
    chk.branch("decl-input-accepted" if isinstance(real["input"], list) else "decl-input-refused")
    if real["heralds"] and len(real["heralds"]) >= 2:
        chk.branch("decl-several-heralds")
    # direct oracle on the real code (no Lean): the part of the property the declaration carries
    hs = real["heralds"]
    if "IndexError" not in oc:
        inside = [h for h in hs]
        if len({k for k, _ in hs}) != len(hs) or any(not (0 <= k < cfg["m"]) for k, _ in hs) \
                or any(v not in (0, 1) for _, v in hs):
            return ("violation", "declared-heralds-ill-formed",
                    f"{cfg['entry']}: after {cfg['ops']} -> {oc} the heralds are {hs} on {cfg['m']} modes")
        declared = [[o["mode"], o["expected"]] for o, r in zip(cfg["ops"], oc) if o["t"] == "herald" and r == "ok"]
        if hs != declared:
            return ("violation", "declared-heralds-differ",
                    f"{cfg['entry']}: accepted add_herald calls {declared}, heralds property {hs}")
        if real["circuitSize"] != cfg["m"] or real["m"] != cfg["m"] - len(inside):
            return ("violation", "declared-mode-count",
                    f"{cfg['entry']}: after {cfg['ops']} -> {oc}: m={real['m']}, circuit_size={real['circuitSize']}, "
                    f"heralds {hs} on {cfg['m']} modes")
        want = (lean_free_interleave(cfg["m"], hs, cfg["user"]) if len(cfg["user"]) == cfg["m"] - len(hs)
                else "AssertionError")
        if real["input"] != want:
            return ("violation", "declared-with-input",
                    f"{cfg['entry']}: heralds {hs}, with_input({cfg['user']}) gave {real['input']}, expected {want}")
    for f in ("outcomes", "heralds", "m", "circuitSize", "input"):
        if real[f] != rep[f]:
            return ("broken", "decl-model-vs-code/" + f,
                    f"{cfg['entry']}: {cfg['ops']} then with_input({cfg['user']}): code {f}={real[f]}, model {rep[f]}")
    return None


def handle_decl(chk, cfg, do_shrink=True):
    chk.branch("decl-case")
    chk.count("kind", "decl/" + cfg["entry"])
    res = judge_decl(chk, cfg)
    chk.case(("decl", cfg["entry"], cfg["m"], json.dumps(cfg["ops"]), len(cfg["user"])),
             nontrivial=any(o["t"] == "herald" for o in cfg["ops"]),
             sample={"kind": "decl", "m": cfg["m"], "ops": cfg["ops"]})
    if res is None:
        return
    kind, sig, what = res
    small = cfg
    if do_shrink:
        progress = True
        while progress:
            progress = False
            for i in range(len(small["ops"])):
                cand = dict(small, ops=small["ops"][:i] + small["ops"][i + 1:])
                r2 = judge_decl(chk, cand)
                if r2 is not None and r2[1] == sig:
                    small, what, progress = cand, r2[2], True
                    break
    chk.fail(kind, sig, what, {"config": small})


# ------------------------------------------------------------------------------------------------
# EXTENSION 4b: Simulator.evolve_svd on mixtures of annotated Fock states — physical_perf, logical_perf and the
# weights of the returned SVDistribution against PM.C04.evolveSvd / evolveSvdWeights (theorems evolve_svd_perf_spec,
# evolve_svd_agrees_with_probs_svd, evolve_svd_perf_product, evolve_svd_weights_spec)
# ------------------------------------------------------------------------------------------------
def gen_evsvd_config(rng, max_m):
    cfg = gen_sim_config(rng, max_m)
    cfg["kind"] = "evsvd"
    cfg["dets"] = None
    if "prev" in cfg:
        cfg["prev"]["how"] = rng.choice(["probs_svd", "evolve_svd", "evolve"])
    return cfg


def evsvd_real(cfg):
    import perceval as pcvl
    from perceval.simulators import Simulator
    circ = build_circuit(cfg["circ"])
    try:
        sim = Simulator(pcvl.BackendFactory.get_backend(cfg["backend"]))
        sim.set_circuit(circ)
        sim.set_precision(0)
        svd = svd_of(cfg["members"])
        prev = cfg.get("prev")
        if prev:
            sim_select(sim, prev)
            if prev["how"] == "probs_svd":
                sim.probs_svd(svd, build_dets(prev["dets"]))
            elif prev["how"] == "evolve_svd":
                sim.evolve_svd(svd)
            else:
                sim.evolve(bs_of(cfg["members"][0]["state"]))
        sim_select(sim, cfg)
        res = sim.evolve_svd(svd)
        after = float(sim.logical_perf)
        U = np.array(circ.compute_unitary(), dtype=complex)
    except Exception as e:  # noqa: BLE001 — every exception is an observation
        return {"err": type(e).__name__, "msg": str(e)[:300]}
    return {"phys": float(res["physical_perf"]), "logical": float(res["logical_perf"]), "after": after,
            "weights": sorted(float(p) for p in res["results"].values()), "U": U,
            "members": [{"w": mb["w"], "groups": groups_of(mb["state"])} for mb in cfg["members"]]}


def _partitions(xs):
    if not xs:
        yield []
        return
    head, rest = xs[0], xs[1:]
    for part in _partitions(rest):
        yield [[head]] + part
        for i in range(len(part)):
            yield part[:i] + [[head] + part[i]] + part[i + 1:]


def weights_match(code, model):
    """the code's weights are the model's, possibly with some of them added up (members that evolve to the same
    state vector share a key of the returned dictionary)"""
    if len(code) > len(model):
        return False, False
    if len(code) == len(model):
        return all(core.close(a, b, TOL) for a, b in zip(code, sorted(model))), False
    if len(model) > 6:
        return abs(sum(code) - sum(model)) < 1e-9, True
    for part in _partitions(list(model)):
        if len(part) == len(code) and all(core.close(a, b, TOL) for a, b in zip(code, sorted(sum(g) for g in part))):
            return True, True
    return False, True


def judge_evsvd(chk, cfg):
    try:
        real = chk.real.call("evsvd_real", cfg)
    except Crash as e:
        return crash_verdict(cfg, e, "Simulator.evolve_svd")
    if "err" in real:
        return ("violation", "raises-" + real["err"], f"Simulator.evolve_svd raised {real['err']}: {real['msg']}")
    H = sum(v for _, v in cfg["heralds"])
    rep = chk.lean.ask({"op": "c04evsvd", "m": cfg["m"], "U": core.mat(real["U"].tolist()),
                        "members": [{"w": core.rat(mb["w"]), "groups": mb["groups"]} for mb in real["members"]],
                        "cfg": {"heralds": cfg["heralds"], "ps": cfg["psj"], "filter": cfg["filter"],
                                "keepHeralds": cfg["keep"], "pnr": True}})
    if "err" in rep:
        return ("broken", "lean-rejects", f"driver rejected the request: {rep['err']}")
    model, spec = rep["model"], rep["spec"]
    mphys, mlog = float(Fraction(model["phys"])), float(Fraction(model["logical"]))
    sphys, slog = float(Fraction(spec["phys"])), float(Fraction(spec["logical"]))
    ret = float(Fraction(spec["retained"]))
    chk.last_retained = ret
    if ret > 1e-13:
        chk.branch("evsvd-something-retained")
        if cfg["heralds"]:
            chk.branch("evsvd-retained-under-mask")
    if 1e-13 < sphys < 1 - 1e-9:
        chk.branch("evsvd-filter-rejects-some-members")
    if sphys <= 1e-13:
        chk.branch("evsvd-nothing-passes-the-filter")
    if len(real["members"]) >= 2:
        chk.branch("evsvd-mixture")
    if any(len(mb["groups"]) >= 2 for mb in real["members"]):
        chk.branch("evsvd-several-tags")
    if cfg.get("prev"):
        chk.branch("evsvd-reused-after-" + cfg["prev"]["how"])
    mw = [float(Fraction(x)) for x in model["weights"]]
    if len(mw) >= 2:
        chk.branch("evsvd-several-weights")
    bad = []
    if not core.close(real["phys"], mphys, TOL):
        bad.append(("physical_perf", f"returned {real['phys']!r}, model {mphys!r}"))
    if not core.close(real["logical"], mlog, TOL):
        bad.append(("logical_perf", f"returned {real['logical']!r}, model {mlog!r}"))
    if not core.close(real["after"], mlog, TOL):
        bad.append(("logical_perf-attribute", f"sim.logical_perf after the call {real['after']!r}, model {mlog!r}"))
    okw, merged = weights_match(real["weights"], mw)
    if merged:
        chk.count("evsvd", "members-sharing-an-output-vector")
    if not okw:
        bad.append(("weights", f"returned weights {real['weights']}, model {sorted(mw)}"))
    # the model against the specification and against probs_svd's model, exactly (theorems, checked on the instance;
    # the inputs are floating-point matrices, so the engine is only approximately unitary: tolerance, not equality)
    inst = []
    if not core.close(mphys, sphys, TOL) or not core.close(mlog, slog, TOL):
        inst.append(f"evolveSvd ({mphys!r}, {mlog!r}) vs specification ({sphys!r}, {slog!r})")
    pphys, plog = float(Fraction(rep["probsSvd"]["phys"])), float(Fraction(rep["probsSvd"]["logical"]))
    if not core.close(mphys, pphys, TOL) or not core.close(mlog, plog, TOL):
        inst.append(f"evolveSvd ({mphys!r}, {mlog!r}) vs probsSvd ({pphys!r}, {plog!r})")
    if inst:
        return ("broken", "evsvd-model-instance", "; ".join(inst))
    if not bad:
        return None
    # direct oracle: the selection-free simulator conditioned in Python
    try:
        ora = chk.real.call("direct_oracle", dict(cfg, kind="sim", dets=None), cfg["filter"])
    except Crash as e:
        return crash_verdict(cfg, e, "direct oracle")
    obad = []
    if not core.close(real["phys"], ora["phys"], 1e-7):
        obad.append("physical_perf")
    if ora["phys"] > 1e-9 and not core.close(real["logical"], ora["logical"], 1e-7):
        obad.append("logical_perf")
    what = (f"Simulator.evolve_svd, heralds {cfg['heralds']}, filter {cfg['filter']}, post-selection {cfg['ps']}, "
            f"keep_heralds {cfg['keep']}, {len(real['members'])} member(s): " + "; ".join(w for _, w in bad))
    if obad:
        return ("violation", "evolve_svd-" + obad[0], what + f" — direct oracle: physical_perf {ora['phys']!r}, "
                                                             f"logical_perf {ora['logical']!r}")
    # (the weights of evolve_svd's returned distribution are not among the property's observation points: a
    # difference there is a model/code disagreement, never a violation by itself)
    return ("broken", "evsvd-model-vs-code/" + bad[0][0], what)


def handle_evsvd(chk, cfg, do_shrink=True):
    chk.branch("evsvd-case")
    chk.count("kind", "evsvd/" + cfg["backend"])
    chk.last_retained = 0.0
    res = judge_evsvd(chk, cfg)
    chk.case(("evsvd",) + signature_of(dict(cfg, kind="sim")),
             nontrivial=bool(cfg["heralds"]) and chk.last_retained > 1e-13,
             sample={k: cfg.get(k) for k in ("kind", "backend", "m", "heralds", "filter", "ps", "keep")})
    if res is None:
        return
    kind, sig, what = res
    small = cfg
    if do_shrink:
        def attempt(cand):
            r2 = judge_evsvd(chk, cand)
            return r2 if (r2 is not None and r2[1] == sig) else None
        progress = True
        while progress:
            progress = False
            cands = []
            if small.get("prev"):
                cands.append({k: v for k, v in small.items() if k != "prev"})
            if len(small["members"]) > 1:
                for i in range(len(small["members"])):
                    ms = small["members"][:i] + small["members"][i + 1:]
                    tot = sum(mb["w"] for mb in ms)
                    cands.append(dict(small, members=[dict(mb, w=mb["w"] / tot) for mb in ms]))
            if small["ps"]:
                cands.append(dict(small, ps=None, psj=True))
            for i in range(len(small["heralds"])):
                cands.append(dict(small, heralds=small["heralds"][:i] + small["heralds"][i + 1:]))
            for cand in cands:
                r2 = attempt(cand)
                if r2 is not None:
                    small, what, progress = cand, r2[2], True
                    break
    chk.fail(kind, sig, what, {"config": small})


REAL_FUNCS["decl_real"] = decl_real
REAL_FUNCS["evsvd_real"] = evsvd_real


def handle(chk, cfg, do_shrink=True):
    if os.environ.get("VERIF_C04_TRACE"):                    # (development switch) last configuration started
        with open(os.environ["VERIF_C04_TRACE"], "w") as f:
            json.dump({"config": cfg}, f)
    if cfg.get("kind") == "session":
        return handle_session(chk, cfg, do_shrink)
    if cfg.get("kind") == "decl":
        return handle_decl(chk, cfg, do_shrink)
    if cfg.get("kind") == "evsvd":
        return handle_evsvd(chk, cfg, do_shrink)
    hs = sorted(list(h) for h in cfg["heralds"])
    H = sum(v for _, v in hs)
    shape_branches(chk, cfg)
    chk.count("kind", cfg["kind"] + "/" + cfg["backend"])
    chk.count("m", cfg["m"])
    chk.count("n_heralds", len(hs))
    chk.count("herald_photons", H)
    chk.count("filter", cfg["filter"])
    if hs:
        chk.branch("mask-path")
        if any(0 < k < cfg["m"] - 1 for k, _ in hs):
            chk.branch("herald-in-the-middle")
        if any(b[0] == a[0] + 1 for a, b in zip(hs, hs[1:])):
            chk.branch("adjacent-heralds")
        if any(v == 2 for _, v in hs):
            chk.branch("herald-value-2")
    else:
        chk.branch("no-heralds")
    if cfg["ps"]:
        chk.branch("post-selection")
    if cfg["kind"] == "sim":
        ns = [n for mb in cfg["members"] for n in member_ns(mb)]
        gs = [len(groups_of(mb["state"])) for mb in cfg["members"] if "state" in mb]
        if gs and max(gs) >= 2 and hs:
            chk.branch("several-groups-under-mask")
            for mb in cfg["members"]:
                if "state" in mb:
                    g = groups_of(mb["state"])
                    if len(g) >= 2 and any(sum(x) < H for x in g):
                        chk.branch("group-smaller-than-heralds")
                    if len(g) >= 2 and any(sum(mb_x) + H > sum(map(sum, g)) for mb_x in g):
                        chk.branch("budget-capped-by-n_ext")
        if any(n < cfg["filter"] + H for n in ns):
            chk.branch("input-below-filter")
        if cfg["filter"] < max(ns) - H:
            chk.branch("filter-below-photon-number")
        chk.branch("keep-heralds" if cfg["keep"] else "drop-heralds")
    else:
        if cfg["noise"]:
            chk.branch("noisy-source")
        if cfg["filter"] is None:
            chk.branch("automatic-filter")
    chk.last_retained = 0.0
    res = judge(chk, cfg)
    nontrivial = bool(hs) and chk.last_retained > 1e-13
    if chk.last_retained > 1e-13:
        chk.branch("something-retained")
        if hs:
            chk.branch("mask-path-with-retained-mass")
    chk.case(signature_of(cfg), nontrivial=nontrivial,
             sample={k: cfg.get(k) for k in ("kind", "backend", "m", "heralds", "filter", "ps", "keep", "prec")})
    if res is not None:
        kind, sig, what = res
        seen = chk.__dict__.setdefault("_c04_shrunk", set())
        first = (kind, sig) not in seen             # one minimised replay per signature is reported
        seen.add((kind, sig))
        small = shrink(chk, cfg, sig) if do_shrink and first else cfg
        r2 = judge(chk, small)
        if r2 is not None and r2[1] == sig:
            what = r2[2]
        else:
            small = cfg
        chk.fail(kind, sig, what, {"config": small})


def malformed(chk, rng, n):
    """wrong-length user inputs: both sides must refuse (check_input / the model's length guard)"""
    for _ in range(n):
        m = rng.randint(2, 5)
        heralds = gen_heralds(rng, m, allow2=False)
        if len(heralds) == m:
            heralds = heralds[:-1]
        heralds = declare(rng, heralds)
        free = m - len(heralds)
        ln = rng.choice([x for x in (free - 1, free + 1, m, m + 1) if x != free and x >= 0])
        user = [rng.randint(0, 1) for _ in range(ln)]
        check_malformed(chk, {"m": m, "heralds": heralds, "user": user})


def check_malformed(chk, mf):
    try:
        real = chk.real.call("malformed_real", mf["m"], mf["heralds"], mf["user"])
    except Crash as e:
        chk.fail("violation", "native-crash", f"with_input({mf['user']}) with heralds {mf['heralds']}: {e.how}",
                 {"malformed": mf})
        return
    rep = chk.lean.ask({"op": "interleave", "m": mf["m"], "heralds": mf["heralds"], "user": mf["user"]})
    chk.branch("rejected-input")
    chk.case(("malformed", mf["m"], tuple(map(tuple, mf["heralds"])), len(mf["user"])), nontrivial=False)
    if rep.get("err") != real:
        chk.fail("violation" if real == "accepted" else "broken", "with_input-length",
                 f"with_input({mf['user']}) on {mf['m']} modes with heralds {mf['heralds']}: code {real}, model {rep}",
                 {"malformed": mf})


def silence():
    try:
        from perceval.utils.logging import get_logger, channel, level
        for ch in (channel.user, channel.general, channel.resources):
            get_logger().set_level(level.off, ch)
    except Exception:  # noqa: BLE001
        pass


def load_corpus():
    out = []
    for p in sorted(glob.glob(os.path.join(core.VERIF, "corpus", "C04", "*.json"))):
        out.append(json.load(open(p))["config"])
    return out


REQUIRED = ["mask-path", "no-heralds", "herald-in-the-middle", "adjacent-heralds", "herald-value-2",
            "post-selection", "several-groups-under-mask", "group-smaller-than-heralds",
            "budget-capped-by-n_ext", "input-below-filter", "filter-below-photon-number",
            "keep-heralds", "drop-heralds", "noisy-source", "automatic-filter", "interleave",
            "superposed-input", "superposed-input-under-mask-retained", "nothing-retained", "mask-path-with-retained-mass", "rejected-input",
            "evolve", "evolve-distribution-compared",
            # shapes added after the seeded-change review
            "heralds-declared-out-of-order", "descending-heralds-free-mode-after",
            "no-detector-list", "detectors-all-pnr", "detectors-all-threshold", "detectors-mixed",
            "detector-ppnr", "mixed-detectors-heralds-pnr", "non-pnr-detector-on-herald",
            "detectors-declared-before-heralds", "detector-filter-bites-under-pnr-heralds",
            "postselect-mode-after-dropped-herald", "reused-simulator", "reused-processor",
            "mask-cleared-on-reuse", "reused-with-other-heralds", "reused-processor-changed-filter",
            "reused-processor-changed-user", "reused-processor-changed-ps", "reused-processor-changed-noise",
            # probability trimming at a non-zero precision
            "trim-case", "trim-default-precision", "trim-processor", "trim-member-dropped", "trim-tensor-pruned",
            "trim-tensor-pruned-under-mask", "trim-bites-with-retained-mass", "trim-changes-the-answer",
            "trim-changes-the-answer-at-default-precision", "trim-apriori-bound-checked",
            # trimming with a detector that is not PNR (simulate_detectors' per-state threshold)
            "trim-det-case", "trim-det-default-precision", "trim-det-processor", "trim-det-member-dropped",
            "trim-det-tensor-pruned", "trim-det-stage-bites", "trim-det-stage-bites-at-default-precision",
            "trim-det-all-threshold", "trim-det-physical-perf-changes", "trim-det-bites-with-retained-mass",
            "trim-det-changes-the-answer",
            # superposed inputs at a non-zero precision (amplitude threshold of _merge_sv under the mask)
            "trim-sup-case", "trim-sup-default-precision", "trim-sup-member-dropped", "trim-sup-component-dropped",
            "trim-sup-component-dropped-under-mask-retained", "trim-sup-component-dropped-at-default-precision",
            "trim-sup-changes-the-answer", "trim-sup-compared", "trim-sup-compared-component-dropped",
            "trim-sup-compared-component-dropped-at-default-precision",
            "trim-sup-compared-component-dropped-under-mask-retained", "trim-sup-compared-changes-the-answer",
            # members superposing different photon numbers (_preprocess_svd's split in front of the generic path)
            "sup-multi-photon-number", "sup-multi-photon-number-heralds",
            "sup-multi-photon-number-filter-below-smallest", "sup-multi-photon-number-vacuum-term",
            "sup-multi-photon-number-term-below-filter", "sup-multi-photon-number-three-sectors",
            "sup-multi-photon-number-inside-mixture", "sup-multi-photon-number-processor",
            "sup-multi-photon-number-simulator", "sup-multi-photon-number-post-selection",
            "sup-multi-photon-number-keep-heralds", "sup-multi-photon-number-pnr-detectors",
            "sup-multi-photon-number-non-pnr-detectors", "sup-multi-photon-number-sectors-instance",
            # check_heralds_detectors
            "guard-early-exit", "guard-passes",
            # sessions on one object
            "session-sim", "session-proc", "session-later-query-retains", "session-mask-mode-switched-off",
            "session-other-heralds-under-mask", "session-vacuum-after-masked-query", "session-postselection-cleared",
            "session-op-sel", "session-op-heralds", "session-op-clearHeralds", "session-op-ps", "session-op-clearPs",
            "session-op-filter", "session-op-keep", "session-set_selection-filter-only",
            "session-processor-postselection-cleared", "session-processor-postselection-replaced",
            "session-processor-filter-changed", "session-processor-automatic-filter",
            # EXTENSION 4: declaration of heralds (Experiment.add_herald / add_port / with_input) and evolve_svd
            "decl-case", "decl-experiment", "decl-processor", "decl-index-error",
            "decl-herald-accepted-after-index-error", "decl-expected-refused", "decl-herald-refused-by-herald",
            "decl-herald-refused-by-port", "decl-port-refused", "decl-input-accepted", "decl-input-refused",
            "decl-several-heralds",
            "evsvd-case", "evsvd-something-retained", "evsvd-retained-under-mask",
            "evsvd-filter-rejects-some-members", "evsvd-nothing-passes-the-filter", "evsvd-mixture",
            "evsvd-several-tags", "evsvd-several-weights", "evsvd-reused-after-probs_svd",
            "evsvd-reused-after-evolve_svd", "evsvd-reused-after-evolve"]


def run(chk: core.Check):
    chk.rule = ("random configurations through Simulator.probs_svd (tagged mixtures, a few superposed members) and "
                "Processor.probs() (perfect and noisy sources, explicit and automatic filter) at precision 0, heralds "
                "declared in any order, detector layouts none / PNR / threshold / pseudo-PNR / mixed, fresh objects and "
                "objects that already answered another request; fast-path, non-PNR-detector and superposed configurations at "
                "the default and at explicit non-zero precisions (trimming models and proved bounds, a-priori bound from "
                "sizes); heralds a detector cannot report (early exit); sessions of 2-4 queries on one Simulator / "
                "Processor with selection changes in between (state-machine model); mixtures whose members superpose "
                "different photon numbers through Simulator.probs_svd and Processor.with_input(StateVector) with every "
                "kind of selection and detector layout (photon-count split); histories of add_herald / add_port calls "
                "(refused calls caught: occupied mode, expected value 2, mode outside the circuit) on an Experiment / "
                "Processor followed by with_input, against the declaration machine; Simulator.evolve_svd on tagged "
                "mixtures (fresh and reused simulators): physical_perf, logical_perf and the weights of the returned "
                "distribution; "
                "distinct = distinct (entry point, engine, m, heralds with values in declaration order, filter, "
                "post-selection, keep_heralds, input shape, detector layout, reused or not) signatures; "
                "non-trivial = at least one heralded mode (the mask path is active)")
    chk.assumptions = [
        "probability trimming is modelled on every path of probs_svd and driven at the default and at explicit non-zero "
        "precisions: fast path (trim batch), layouts with a non-PNR detector (detector-trim batch), superposed inputs "
        "(superposed-trim batch); the plain batches, evolve and the sessions run at precision=0 (threshold min_p=1e-16)",
        "trim batches: when a compared quantity lies within 1e-6 (relative) of its threshold the floating-point comparison "
        "of the implementation may fall on either side: only physical_perf is compared for such a case (counter "
        "trim-threshold-tie)",
        "superposed-trim batch: the native StateVector drops amplitude components of modulus <= min_complex_component = "
        "1e-6 whatever the precision (not modelled): a case whose model holds a non-zero amplitude below 1e-5 is compared "
        "on physical_perf only (counter trim-sup-native-amplitude-cutoff); the failing-input verdict of that batch uses a "
        "crude unproved amplitude bound (test device), the fast / detector batches use the PROVED a-priori bound "
        "theta * (#members + #entries/10 [+ #detected patterns]) computed from sizes only",
        "sessions keep the circuit, the input of a processor, noise and precision fixed (C05's subject) and never "
        "configure a herald the detector on its mode cannot report",
        "the engines' unconditioned distributions are C02's subject; here the oracle is the exact Fock-space "
        "evaluation on the matrix the circuit reports, and the direct oracle uses a selection-free Simulator",
        "input mixtures of Processor.probs() are taken from Processor.source_distribution (the source model is C06)",
        "detector kernels (threshold: min(k,1); interleaved pseudo-PNR: closed form C(w,j)*surj(k,j)/w^k capped at "
        "max_detections) are data of the specification here — Detector.detect itself is C08's subject; detectors are "
        "combined with superposed input states in the multi-photon-number batch only",
        "multi-photon-number batch: at most one photon per mode and tag in every term (the coefficient is the rescaled "
        "coefficient of the specification), integer Gaussian coefficients, precision 0; the direct oracle treats a "
        "member holding several photon numbers as the mixture of its photon-number sectors weighted by their squared "
        "norms (components of different photon number never interfere)",
        "a herald whose expected value exceeds what the detector on its mode can report (check_heralds_detectors' "
        "early exit: empty results, physical_perf 1, outside the property's quantifier) is generated by the early-exit "
        "batch only and compared with the model of the exit",
        "when the photon filter can never pass after detection (exact physical_perf 0) the conditional "
        "logical_perf is undefined: only results, physical_perf and the product are compared",
        "the automatic filter of a perfect source is stored by the first probs(); the reuse phase does not change the "
        "input of a processor that relies on it",
        "declaration batch: ports are added at PortLocation.IN_OUT only (RAW: 1 mode, DUAL_RAIL: 2 modes), modes are "
        "non-negative (a negative mode indexes Experiment._mode_type from the end), remove_port is never called (it "
        "deletes a Herald port without restoring the mode counters — outside the property's quantifier), the circuit "
        "holds no component that adds modes",
        "evolve_svd batch: mixtures of annotated Fock states at precision 0; the state vectors of the returned "
        "SVDistribution are not compared, only their weights (members that evolve to the same vector share a key: the "
        "code's weights are then compared with sums of the model's); when every mode is heralded and the heralds are "
        "discarded the code stores nothing (new_sv.m == 0) — modelled as coded",
    ]
    chk.required_branches = list(REQUIRED)
    chk.lean = core.LeanDriver("C04")
    chk.real = RealWorker(chk.seed)
    try:
        rng = chk.rng
        only = os.environ.get("VERIF_C04_ONLY")                 # (development switch) run the named batches only
        on = (lambda name: only is None or name in only.split(","))
        for cfg in ([] if os.environ.get("VERIF_C04_NO_CORPUS") else load_corpus()):   # (development switch)
            handle(chk, cfg, do_shrink=False)
        n_sim = chk.pick(560, 4800)
        n_sup = chk.pick(50, 450)
        n_proc = chk.pick(300, 2200)
        max_m = 5
        for _ in range(n_sim if on("sim") else 0):
            handle(chk, gen_sim_config(rng, max_m))
        for _ in range(n_sup if on("sup") else 0):
            handle(chk, gen_sim_config(rng, 4, superposed=True))
        for _ in range(n_proc if on("proc") else 0):
            handle(chk, gen_proc_config(rng, max_m))
        for _ in range(chk.pick(260, 2000) if on("trim") else 0):
            handle(chk, gen_trim_config(rng, max_m))
        for _ in range(chk.pick(180, 1400) if on("session") else 0):
            handle(chk, gen_session_config(rng, max_m))
        for _ in range(chk.pick(160, 1200) if on("trimdet") else 0):
            handle(chk, gen_trim_det_config(rng, max_m))
        for _ in range(chk.pick(110, 900) if on("trimsup") else 0):
            handle(chk, gen_trim_sup_config(rng, 4))
        for _ in range(chk.pick(24, 200) if on("guard") else 0):
            handle(chk, gen_guard_config(rng, 4))
        if on("malformed"):
            malformed(chk, rng, chk.pick(30, 300))
        # (last, so that the random streams of the batches above are what they were before this batch existed)
        for _ in range(chk.pick(90, 800) if on("multi") else 0):
            handle(chk, gen_multi_config(rng, 4))
        for _ in range(chk.pick(150, 1500) if on("decl") else 0):
            handle(chk, gen_decl_config(rng, 6))
        for _ in range(chk.pick(120, 1000) if on("evsvd") else 0):
            handle(chk, gen_evsvd_config(rng, 4))
        chk.extra["real_code_worker_crashes"] = chk.real.crashes
    finally:
        chk.real.close()


def replay(chk, data):
    chk.lean = core.LeanDriver("C04")
    chk.real = RealWorker(chk.seed)
    chk.rule = "replay of one stored configuration"
    rp = data["replay"]
    try:
        if "config" in rp:
            handle(chk, rp["config"], do_shrink=False)
        else:
            check_malformed(chk, rp["malformed"])
    finally:
        chk.real.close()
