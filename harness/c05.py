"""C05 — results depend on the current configuration only, never on call history.

One long-lived object per history: a Naive / SLOS / SLAP / MPS backend, a `Simulator`, a `Stepper`, a
`Processor`.  A history is a list of configuration changes (circuit of the same or another size,
parameter change, input with the same or another photon number, set / clear mask, cut-off, heralds,
post-selection, photon filter, precision, noise, added components, detectors) interleaved with queries
(`prob_distribution`, `all_prob`, `evolve`, `prob_amplitude`; `Simulator.probs_svd / probs / evolve`;
`Stepper.evolve / probs`; `Processor.probs`).

Extension round: every public Simulator query is a model step (`probs`, `probability`, `prob_amplitude`, `evolve_svd`,
`probs(StateVector)` as well), Processor histories contain `add_herald` (followed by the input again), distribution
inputs, a held NoiseModel updated in place and not assigned again, precisions, and histories without an explicit
photon filter; the provenance the model reports is compared with the harness's own tracking at every query.

Strengthening round 3: the SLOS class constructed with `use_symbolic=True` is an engine variant of its own ("SLOSsym":
sympy coefficients, some circuit parameters left symbolic, answers evaluated at one point for both objects); every
engine is asked the whole amplitude table through `prob_amplitude` ("amps"); Stepper histories swap between circuits
that agree on everything the request key of `Stepper.compile` looks at and ask the last question again at once.

Extension round 4: `Processor.samples` is a query (engine variant "CliffordClifford2017"; the answer compared with a
fresh processor is everything the call hands to the NoisySamplingSimulator it creates — `samples_arguments` — the
drawn samples are random and are not compared); `Simulator.probability(StateVector, ·)` (model step `evolve`) and
`prob_amplitude(StateVector, ·)` (a sequence of `direct` steps) are queries of the Simulator streams.

Three streams of histories: recorded ones (corpus/C05, directed), random ones, and enumerated ones — for the
backends every history over a reduced alphabet up to a length, for Simulator / Stepper / Processor every ordered
pair of configuration steps around a query asked twice (`pairwise_*`: a step, a query that fills the caches, a
second step that ought to invalidate them, the query again), which is the skeleton every stale cache needs.
A mutable argument (mask list, heralds dict, NoiseModel) comes in two flavours: a new object per call, or ONE
object of the caller updated in place through its public API and handed over again ("same").

After EVERY query three things are compared:

* direct oracle (independent of Lean): the harness tracks the configuration (the last value given for
  every setting) and builds a *freshly constructed* object from it in the canonical order
  (cut-off, mask, circuit, input / selection, circuit / components, heralds, detectors, noise, filter,
  input), asks it the same question and compares — exception classes exactly, numbers with
  `1e-9 + 1e-9|x|`, enumeration order of the bulk backend results exactly.  The property is literally
  "same as a fresh object", so real-vs-fresh is the property itself, not a comparison of two
  implementations.  A difference is a `violation`.
* the Lean model (`Model/C05.lean`, `fixed = true`): status of every step (ok / exception / answer) and —
  by `query_eq_fresh` — the provenance of every answer must be the current configuration;
* soft tie: an abstraction of the private caches (`sorted(_cache_iterator)`, `_masks_str`, `_mask_n`,
  SLOS `_state_mapping / _fsas / _fsms / _path_roots`, SLAP `_fock_space`, `Simulator._evolve` keys and
  `_can_use_mask`, `Stepper._compiled_input`, `Processor._simulator / _inputs_map`) against the model's
  caches; an attribute that no longer exists is recorded and skipped.
  A model / code difference without a failing direct oracle is `broken`.
"""
from __future__ import annotations

import glob
import itertools
import json
import math
import multiprocessing as mp
import os
import random
import re
import shutil
import tempfile
import time

from . import core
from .gens import shrink_list

TOL = 1e-9
BACKENDS = ["Naive", "SLOS", "SLAP", "MPS"]
# the same SLOS class constructed with `use_symbolic=True` (sympy coefficients, a branch of its own in `_Path.compute`):
# an engine variant of the harness, the model kind is "slos" (the clear / reuse decisions are the same code)
SYMBOLIC = "SLOSsym"
DEFAULT_SUB = 1.3       # value given to a parameter left symbolic when an answer is evaluated


def kind_of(variant):
    return "SLOS" if variant == SYMBOLIC else variant


# ------------------------------------------------------------------------------------------------
# perceval access
# ------------------------------------------------------------------------------------------------
class _PC:
    pass


_pc = None


def pc():
    global _pc
    if _pc is None:
        import perceval as pcvl
        from perceval.backends import NaiveBackend, SLOSBackend, SLAPBackend, MPSBackend
        from perceval.simulators import Simulator, Stepper
        from perceval.utils.logging import get_logger, channel, level
        lg = get_logger()
        try:
            lg.set_level(level.off, channel.user)
            lg.set_level(level.off, channel.general)
            lg.set_level(level.off, channel.resources)
        except Exception:
            pass
        p = _PC()
        p.pcvl = pcvl
        p.B = {"Naive": NaiveBackend, "SLOS": SLOSBackend, "SLAP": SLAPBackend, "MPS": MPSBackend,
               SYMBOLIC: lambda: SLOSBackend(use_symbolic=True)}
        p.Simulator, p.Stepper = Simulator, Stepper
        _pc = p
    return _pc


def exc_name(e):
    return type(e).__name__


def obs(fn):
    """run a call on the real code: {"e": class} or {"v": payload}"""
    try:
        return {"v": fn()}
    except Exception as e:          # exceptions are outputs too
        return {"e": exc_name(e)}


def same(a, b, tol=TOL):
    if isinstance(a, dict) and isinstance(b, dict):
        return a.keys() == b.keys() and all(same(a[k], b[k], tol) for k in a)
    if isinstance(a, (list, tuple)) and isinstance(b, (list, tuple)):
        return len(a) == len(b) and all(same(x, y, tol) for x, y in zip(a, b))
    if isinstance(a, bool) or isinstance(b, bool) or a is None or b is None or isinstance(a, str) or isinstance(b, str):
        return a == b
    if isinstance(a, (int, float)) and isinstance(b, (int, float)):
        if isinstance(a, float) and isinstance(b, float) and (math.isnan(a) or math.isnan(b)):
            return math.isnan(a) and math.isnan(b)
        return abs(a - b) <= tol + tol * abs(b)
    return a == b


def c_num(x, subs=None):
    """a number or a sympy expression (symbolic SLOS) -> complex; the parameters left symbolic are given the values
    of `subs` (by name) — the long-lived and the fresh object are evaluated at the same point"""
    fs = getattr(x, "free_symbols", None)
    if fs:
        x = x.subs({sym: (subs or {}).get(sym.name, DEFAULT_SUB) for sym in fs})
    return complex(x)


def agree(real, fresh):
    """the direct oracle: same answer; two failures agree whatever their classes (an object that a fresh
    configuration cannot answer either is not configured)"""
    if "e" in real and "e" in fresh:
        return True
    return same(real, fresh)


# ------------------------------------------------------------------------------------------------
# circuits from specs
# ------------------------------------------------------------------------------------------------
def build_circuit(spec, values):
    """spec = {"m": m, "comps": [[kind, mode, arg…]…]}; an arg is a float or ["p", name] (a variable
    parameter, set to values[name]; values[name] = None leaves it symbolic — symbolic SLOS only).  New Parameter
    objects on every call."""
    p = pc().pcvl
    c = p.Circuit(spec["m"])
    P = {}

    def val(a):
        if isinstance(a, list):
            name = a[1]
            if name not in P:
                P[name] = p.P(name)
                if values[name] is not None:
                    P[name].set_value(values[name])
            return P[name]
        return a

    for comp in spec["comps"]:
        kind, mode = comp[0], comp[1]
        if kind == "BS":
            c.add(mode, p.BS.H(theta=val(comp[2]), phi_tl=val(comp[3])))
        elif kind == "PS":
            c.add(mode, p.PS(val(comp[2])))
        elif kind == "PERM":
            c.add(mode, p.PERM([1, 0]))
        else:
            raise ValueError(kind)
    return c, P


NICE = [0.5, 0.75, 1.0, 1.25, 1.5, 1.75, 2.0, 2.25, 2.5]   # `describe()` (Stepper cache key) is slow on other values


def gen_spec(rng, m, pname=None, depth=None, perm=True, nice=False):
    comps = []
    depth = depth or rng.randint(2, 4)
    used = False

    def uni(a, b):
        return rng.choice(NICE) if nice else round(rng.uniform(a, b), 3)
    for layer in range(depth):
        for k in range(layer % 2, m - 1, 2):
            r = rng.random()
            if perm and r < 0.12:
                comps.append(["PERM", k])
            else:
                th = uni(0.4, 2.6)
                if pname and not used and rng.random() < 0.5:
                    th = ["p", pname]
                    used = True
                comps.append(["BS", k, th, uni(0, 3)])
            if rng.random() < 0.5:
                comps.append(["PS", rng.randrange(m), uni(0, 3)])
    if pname and not used:
        comps.append(["PS", rng.randrange(m), ["p", pname]])
    if m == 1:
        comps = [["PS", 0, ["p", pname] if pname else 0.7]]
    return {"m": m, "comps": comps}


def states(m, n):
    if m == 1:
        return [[n]]
    out = []
    for k in range(n, -1, -1):
        out += [[k] + r for r in states(m - 1, n - k)]
    return out


# ------------------------------------------------------------------------------------------------
# canonical results
# ------------------------------------------------------------------------------------------------
def c_dist(bsd, ordered):
    items = [[list(k), float(v)] for k, v in bsd.items()]
    return items if ordered else sorted(items)


def c_sv(sv):
    items = []
    for k, a in sv:
        a = complex(a)
        items.append([str(k), a.real, a.imag])
    return sorted(items)


def c_res(r):
    out = {}
    for k, v in r.items():
        if k == "results":
            out[k] = sorted([[str(s), float(p)] for s, p in v.items()])
        else:
            out[k] = float(v)
    return out


# ------------------------------------------------------------------------------------------------
# family: backends
# ------------------------------------------------------------------------------------------------
class BackendRun:
    """ops: ["circ", cid] | ["param", name, value] (change a variable parameter, then set_circuit again with the
    same circuit object, as tests/test_backends.py::test_slos_refresh_coefs does) | ["in", state] |
    ["mask", [strs], n|None, "same"?] ("same": one list object of the caller updated in place and passed again) |
    ["clear"] | ["cutoff", k] | ["q", kind, arg?]; kinds: dist | allprob | evolve | amp out | prob out | amps (the
    whole table through `prob_amplitude`: every output state with the photon number of the current input; the only
    bulk question a symbolic SLOS answers).  variant "SLOSsym": `SLOSBackend(use_symbolic=True)`; a parameter whose
    value is None is left symbolic (["param", name, None] makes it symbolic again), answers are evaluated at
    h["subs"]."""

    def __init__(self, h):
        self.h = h
        self.variant = h["variant"]
        self.kind = kind_of(self.variant)
        self.subs = h.get("subs") or {}
        self.values = dict(h["params"])
        self.b = pc().B[self.variant]()
        self.circ = {}
        for cid, spec in h["circuits"].items():
            self.circ[cid] = build_circuit(spec, self.values)
        self.cfg = {"circ": None, "input": None, "mask": None, "cutoff": None}
        self.uid = 0
        self.sids = {}
        self.mask_obj = []          # one long-lived list, updated in place and passed again (flavour "same")

    # model encoding of the last op
    def model_op(self, op):
        k = op[0]
        if k in ("circ", "param"):
            if k == "param" and self.cfg["circ"] is None:
                return None
            self.uid += 1
            return ["circ", self.h["circuits"][self.cfg["circ"] if k == "param" else op[1]]["m"], self.uid]
        if k == "in":
            return ["in", op[1]]
        if k == "mask":
            key = json.dumps(op[1])
            sid = self.sids.setdefault(key, len(self.sids) + 1)
            return ["mask", sid, len(op[1][0]), op[2]]
        if k == "clear":
            return ["clear"]
        if k == "cutoff":
            return ["cutoff", op[1]]
        if k == "q":
            if op[1] in ("amp", "prob") and self.cfg["input"] is not None and sum(op[2]) != sum(self.cfg["input"]):
                return ["q", "amp_other"]
            return ["q", {"dist": "dist", "allprob": "allprob", "evolve": "evolve", "amp": "amp", "prob": "amp",
                          "amps": "amp"}[op[1]]]
        raise ValueError(op)

    def query(self, b, op):
        BS = pc().pcvl.BasicState
        kind = op[1]
        subs = self.subs
        if kind == "amps":
            inp = self.cfg["input"]
            if inp is None:
                m = self.h["circuits"][self.cfg["circ"]]["m"] if self.cfg["circ"] is not None else 2
                outs = [[1] + [0] * (m - 1)]
            else:
                outs = states(len(inp), sum(inp))
            row = []
            for o in outs:          # a state the mask excludes is refused: an output of its own
                try:
                    a = c_num(b.prob_amplitude(BS(o)), subs)
                    row.append([a.real, a.imag])
                except Exception:
                    row.append("refused")
            if all(x == "refused" for x in row):
                return {"e": "refused"}
            return {"v": row}
        if kind == "dist":
            return obs(lambda: c_dist(b.prob_distribution(), True))
        if kind == "allprob":
            return obs(lambda: [float(x) for x in b.all_prob()])
        if kind == "evolve":
            return obs(lambda: c_sv(b.evolve()))
        if kind == "amp":
            def f():
                a = c_num(b.prob_amplitude(BS(op[2])), subs)
                return [a.real, a.imag]
            return obs(f)
        if kind == "prob":
            return obs(lambda: c_num(b.probability(BS(op[2])), subs).real)
        raise ValueError(op)

    def apply(self, op):
        BS = pc().pcvl.BasicState
        k = op[0]
        b = self.b
        if k == "circ":
            r = obs(lambda: b.set_circuit(self.circ[op[1]][0]) and None)
            if "v" in r:
                self.cfg["circ"], self.cfg["input"] = op[1], None
            return r
        if k == "param":
            self.values[op[1]] = op[2]
            for c, P in self.circ.values():
                if op[1] in P:
                    if op[2] is None:
                        P[op[1]].reset()            # symbolic again
                    else:
                        P[op[1]].set_value(op[2])
            if self.cfg["circ"] is None:
                return {"v": None}
            r = obs(lambda: b.set_circuit(self.circ[self.cfg["circ"]][0]) and None)
            if "v" in r:
                self.cfg["input"] = None
            return r
        if k == "in":
            r = obs(lambda: b.set_input_state(BS(op[1])) and None)
            if "v" in r:
                self.cfg["input"] = op[1]
            return r
        if k == "mask":
            if len(op) > 3 and op[3] == "same":
                self.mask_obj[:] = list(op[1])      # the caller's own list, updated in place, given again
                r = obs(lambda: b.set_mask(self.mask_obj, op[2]) and None)
            else:
                r = obs(lambda: b.set_mask(list(op[1]), op[2]) and None)
            if "v" in r:
                self.cfg["mask"] = [list(op[1]), op[2]]
            return r
        if k == "clear":
            r = obs(lambda: b.clear_mask() and None)
            self.cfg["mask"] = None
            return r
        if k == "cutoff":
            r = obs(lambda: b.set_cutoff(op[1]) and None)
            if "v" in r:
                self.cfg["cutoff"] = op[1]
            return r
        if k == "q":
            return self.query(b, op)
        raise ValueError(op)

    def fresh(self, op):
        BS = pc().pcvl.BasicState
        cfg = self.cfg

        def build():
            f = pc().B[self.variant]()
            if cfg["cutoff"] is not None:
                f.set_cutoff(cfg["cutoff"])
            if cfg["mask"] is not None:
                f.set_mask(list(cfg["mask"][0]), cfg["mask"][1])
            if cfg["circ"] is not None:
                c, _ = build_circuit(self.h["circuits"][cfg["circ"]], self.values)
                f.set_circuit(c)
            if cfg["input"] is not None:
                f.set_input_state(BS(cfg["input"]))
            return f
        try:
            f = build()
        except Exception as e:
            return {"e": "fresh-construction:" + exc_name(e)}
        return self.query(f, op)

    def snapshot(self):
        b = self.b
        s = {}
        miss = []

        def get(name):
            if hasattr(b, name):
                return getattr(b, name)
            miss.append(name)
            return None
        ci = get("_cache_iterator")
        if ci is not None:
            s["iter"] = sorted(ci.keys())
        if hasattr(b, "_masks_str"):
            s["masks"] = b._masks_str is not None
        else:
            miss.append("_masks_str")
        if hasattr(b, "_mask_n"):
            s["mask_n"] = b._mask_n
        if hasattr(b, "_mask"):
            s["has_mask"] = b._mask is not None
        if self.kind == "SLOS":
            sm = get("_state_mapping")
            if sm is not None:
                s["inputs"] = sorted(list(k) for k in sm.keys())
            pr = get("_path_roots")
            if pr is not None:
                s["npaths"] = len(pr)
            fs = get("_fsas")
            if fs is not None:
                s["fsas"] = sorted(fs.keys())
            fm = get("_fsms")
            if fm is not None:
                s["layers"] = len(fm) - 1
            if hasattr(b, "_mask_instance_n"):
                s["inst_n"] = b._mask_instance_n
            else:
                miss.append("_mask_instance_n")
        if self.variant == "SLAP":
            if hasattr(b, "_fock_space"):
                fsp = b._fock_space
                s["fock"] = None if fsp is None else [fsp.m, fsp.n]
            else:
                miss.append("_fock_space")
        if self.variant == "MPS":
            if hasattr(b, "_requested_cutoff"):
                s["cut_req"] = b._requested_cutoff
            else:
                miss.append("_requested_cutoff")
        return s, miss

    def model_request(self, mops):
        return {"fam": "backend", "kind": self.kind.lower(), "fixed": True, "ops": mops}

    def expected_res(self, mout):
        """the provenance the model reports must be the current configuration"""
        cfg = self.cfg
        uid, inp, m, minst, cut = mout["res"]
        ok = uid == self.uid and inp == cfg["input"] and m == self.h["circuits"][cfg["circ"]]["m"]
        return ok


def legal_backend(h):
    """no mask whose length differs from the size of the input state it meets (`_init_mask` asserts)"""
    m = None
    inp = None
    mlen = None
    for op in h["ops"]:
        k = op[0]
        if k == "circ":
            m, inp = h["circuits"][op[1]]["m"], None
        elif k == "param":
            if m is not None:
                inp = None
        elif k == "in":
            if m is not None and len(op[1]) == m:
                if mlen is not None and mlen != m:
                    return False
                inp = op[1]
        elif k == "mask":
            if inp is not None and len(op[1][0]) != len(inp):
                return False
            mlen = len(op[1][0])
        elif k == "clear":
            mlen = None
    return True


def gen_backend(rng, variant, nops, mmax):
    ms = [2, 3] if mmax < 4 else [2, 3, 4]
    circuits = {}
    for i, m in enumerate([rng.choice(ms), rng.choice(ms), rng.choice(ms)]):
        circuits["c%d" % i] = gen_spec(rng, m, pname="a%d" % i)
    same_m = rng.choice(list(circuits))
    circuits["c3"] = gen_spec(rng, circuits[same_m]["m"], pname="a3")    # same-size swap available
    params = {"a%d" % i: round(rng.uniform(0.4, 2.6), 3) for i in range(4)}
    h = {"family": "backend", "variant": variant, "params": params, "circuits": circuits, "ops": []}
    symbolic = variant == SYMBOLIC
    if symbolic:        # some parameters are left symbolic; the answers are evaluated at h["subs"]
        h["subs"] = {k: round(rng.uniform(0.4, 2.6), 3) for k in params}
        for k in params:
            if rng.random() < 0.5:
                params[k] = None
    m = None
    cur = None
    inp = None
    mlen = None
    ops = h["ops"]
    given = []

    def rand_state(mm):
        # no vacuum input under a mask: the native arrays of an unsatisfiable mask are empty (a mask such as
        # "2 1 " with n=2, a vacuum input, then a 2-photon input crashes the interpreter on both trees)
        # an input given earlier comes back often: whatever an engine keeps per input (SLOS paths and coefficients,
        # iterators, Fock arrays) is read again after the steps in between
        old = [s for s in given if len(s) == mm and (mlen is None or sum(s) > 0)]
        if old and rng.random() < 0.4:
            return list(rng.choice(old))
        n = rng.choice([1, 1, 2, 2, 2, 3] if mlen is not None else [0, 1, 1, 2, 2, 2, 3])
        st = rng.choice(states(mm, n))
        given.append(st)
        return st

    def rand_mask(mm):
        """satisfiable masks only: the digits never ask for more photons than the mask is instantiated with"""
        n = rng.choice([None, None, 3, 4])        # an explicit n below the photon number of an input keeps nothing
        budget = 1 if n is None else n
        strs = []
        for _ in range(rng.choice([1, 1, 1, 2])):
            left = budget
            chars = []
            for _ in range(mm):
                d = rng.choice("   012")
                if d != " " and int(d) > left:
                    d = "0" if rng.random() < 0.5 else " "
                if d != " ":
                    left -= int(d)
                chars.append(d)
            s = "".join(chars)
            if rng.random() < 0.3:
                s = s.replace(" ", "*", 1)
            strs.append(s)
        return strs, n

    while len(ops) < nops:
        r = rng.random()
        if m is None or r < 0.13:
            cid = rng.choice(list(circuits))
            ops.append(["circ", cid])
            cur, m, inp = cid, circuits[cid]["m"], None
            if mlen is not None and mlen != m:          # keep the history legal
                if rng.random() < 0.5:
                    ops.append(["clear"])
                    mlen = None
                else:
                    strs, n = rand_mask(m)
                    ops.append(["mask", strs, n])
                    mlen = m
        elif r < 0.21:
            name = rng.choice(list(params))
            ops.append(["param", name, None if symbolic and rng.random() < 0.3 else round(rng.uniform(0.4, 2.6), 3)])
            inp = None
        elif r < 0.50:
            if rng.random() < 0.07:
                ops.append(["in", rand_state(m + 1)])        # malformed: wrong size
            else:
                inp = rand_state(m)
                ops.append(["in", inp])
        elif r < 0.62:
            if inp is not None and sum(inp) == 0:
                continue
            strs, n = rand_mask(m)
            ops.append(["mask", strs, n, "same"] if rng.random() < 0.5 else ["mask", strs, n])
            mlen = m
        elif r < 0.67:
            ops.append(["clear"])
            mlen = None
        elif r < 0.71 and variant == "MPS":
            ops.append(["cutoff", rng.choice([1, 2, 3, 4, 5, 8])])
        else:
            # (a symbolic SLOS answers through prob_amplitude / probability only: the bulk queries raise on both sides)
            kind = rng.choice(["amps", "amps", "amps", "amp", "prob", "dist"] if symbolic else
                              ["dist", "dist", "allprob", "evolve", "amp", "prob", "amps"])
            if inp is None and rng.random() < 0.8:
                # (a circuit or parameter step drops the input: mostly give one again, so that the query is answered
                # from whatever the engine kept across that step)
                inp = rand_state(m)
                ops.append(["in", inp])
            if kind in ("amp", "prob"):
                n = sum(inp) if inp is not None else 1
                if rng.random() < 0.15 and variant != "MPS":      # MPS indexes its tensors with the output counts
                    n += 1
                ops.append(["q", kind, rng.choice(states(m, n))])
            else:
                ops.append(["q", kind])
    return h


def short_alphabet(variant):
    circuits = {"A": {"m": 2, "comps": [["BS", 0, 1.1, 0.4], ["PS", 0, 0.3]]},
                "B": {"m": 2, "comps": [["BS", 0, 2.3, 1.4], ["PS", 1, 1.3], ["BS", 0, 0.9, 0.2]]},
                "C": {"m": 3, "comps": [["BS", 0, 1.3, 0.4], ["BS", 1, 0.7, 2.0], ["PS", 0, 0.3]]},
                # 4 modes: the smallest size where the default MPS bond dimension truncates (directed histories)
                "D": {"m": 4, "comps": [["BS", 0, 1.3, 0.4], ["BS", 2, 0.7, 2.0], ["BS", 1, 1.9, 1.1], ["PS", 0, 0.3],
                                        ["BS", 0, 2.2, 0.5], ["BS", 2, 1.1, 0.2], ["BS", 1, 0.8, 2.4]]}}
    alpha = [["circ", "A"], ["circ", "B"], ["circ", "C"], ["in", [1, 1]], ["in", [1, 0]], ["in", [1, 1, 0]],
             ["mask", ["1 "], None], ["mask", [" 1"], 2], ["clear"], ["q", "dist"]]
    if variant == "MPS":
        alpha.append(["cutoff", 2])
    if variant == SYMBOLIC:
        # circuit A keeps a symbolic parameter (params {"s0": None}); the bulk question goes through prob_amplitude
        circuits["A"] = {"m": 2, "comps": [["BS", 0, ["p", "s0"], 0.4], ["PS", 0, 0.3]]}
        alpha[-1] = ["q", "amps"]
    return circuits, alpha


SHORT_PARAMS = {SYMBOLIC: {"s0": None}}
SHORT_SUBS = {"s0": 1.1}


# ------------------------------------------------------------------------------------------------
# family: Simulator
# ------------------------------------------------------------------------------------------------
def parse_svd(spec):
    """spec = [[prob, [[re, im, "state"], …]], …] -> SVDistribution"""
    p = pc().pcvl
    svd = p.SVDistribution()
    for prob, terms in spec:
        svd[parse_sv(terms)] = prob
    return svd


def parse_sv(terms):
    p = pc().pcvl
    sv = p.StateVector()
    for re, im, st in terms:
        sv += complex(re, im) * p.StateVector(p.BasicState(st))
    return sv


def detectors(kind, m):
    D = pc().pcvl.Detector
    if kind == "none":
        return None
    if kind == "pnr":
        return [D.pnr()] * m
    if kind == "th":
        return [D.threshold()] * m
    if kind == "mix":
        return [D.threshold() if i % 2 == 0 else D.pnr() for i in range(m)]
    raise ValueError(kind)


class SimulatorRun:
    """ops: ["circ", cid] | ["param", name, value] (+ set_circuit) | ["heralds", {mode: v}, "same"?] ("same": one dict
    object of the caller updated in place and passed again) | ["clear_heralds"] |
    ["ps", expr] | ["clear_ps"] | ["filter", k] | ["precision", x] | ["keep", b] |
    ["q", "probs_svd", svd, det] | ["q", "probs", state] | ["q", "probs_sv", sv] | ["q", "evolve", sv] |
    ["q", "evolve_svd", svd] | ["q", "probability", in, out] | ["q", "amp", in, out]"""

    def __init__(self, h):
        self.h = h
        self.variant = h["variant"]
        self.values = dict(h["params"])
        self.sim = pc().Simulator(pc().B[self.variant]())
        self.circ = {cid: build_circuit(spec, self.values) for cid, spec in h["circuits"].items()}
        self.cfg = {"circ": None, "heralds": {}, "ps": None, "filter": 0, "precision": None, "keep": True}
        self.m = h["m"]
        self.uid = 0
        self.hid = 0
        self.oid = 0
        self.sids = {}
        self.cur_h = 0
        self.hobj = {}              # one long-lived dict, updated in place and passed again (flavour "same")

    def configure(self, s, cfg):
        p = pc().pcvl
        if cfg["precision"] is not None:
            s.set_precision(cfg["precision"])
        s.keep_heralds(cfg["keep"])
        s.set_selection(min_detected_photons_filter=cfg["filter"],
                        postselect=p.PostSelect(cfg["ps"]) if cfg["ps"] else None,
                        heralds={int(k): v for k, v in cfg["heralds"].items()} if cfg["heralds"] else None)
        if cfg["circ"] is not None:
            c, _ = build_circuit(self.h["circuits"][cfg["circ"]], self.values)
            s.set_circuit(c)

    def query(self, s, op):
        p = pc().pcvl
        BS = p.BasicState
        kind = op[1]
        if kind == "probs_svd":
            return obs(lambda: c_res(s.probs_svd(parse_svd(op[2]), detectors(op[3], self.m))))
        if kind == "probs":
            return obs(lambda: sorted([[str(k), float(v)] for k, v in s.probs(BS(op[2])).items()]))
        if kind == "evolve":
            return obs(lambda: c_sv(s.evolve(parse_sv(op[2]) if len(op[2]) > 1 else BS(op[2][0][2]))))
        if kind == "probs_sv":
            return obs(lambda: sorted([[str(k), float(v)] for k, v in s.probs(parse_sv(op[2])).items()]))
        if kind == "evolve_svd":
            def f():
                r = s.evolve_svd(parse_svd(op[2]))
                return {"results": sorted([[c_sv(sv), float(pr)] for sv, pr in r["results"].items()]),
                        "physical_perf": float(r["physical_perf"]), "logical_perf": float(r["logical_perf"])}
            return obs(f)
        if kind == "probability":
            return obs(lambda: float(s.probability(BS(op[2]), BS(op[3]))))
        if kind == "amp":
            def g():
                a = complex(s.prob_amplitude(BS(op[2]), BS(op[3])))
                return [a.real, a.imag]
            return obs(g)
        if kind == "probability_sv":        # evolve(StateVector) + a sum over the evolved vector
            return obs(lambda: float(s.probability(parse_sv(op[2]), BS(op[3]))))
        if kind == "amp_sv":                # one prob_amplitude(BasicState, ·) per term, one after the other
            def g2():
                a = complex(s.prob_amplitude(parse_sv(op[2]), BS(op[3])))
                return [a.real, a.imag]
            return obs(g2)
        raise ValueError(op)

    def apply(self, op):
        p = pc().pcvl
        s = self.sim
        k = op[0]
        cfg = self.cfg
        if k == "circ":
            r = obs(lambda: s.set_circuit(self.circ[op[1]][0]) and None)
            cfg["circ"] = op[1]
            return r
        if k == "param":
            self.values[op[1]] = op[2]
            for c, P in self.circ.values():
                if op[1] in P:
                    P[op[1]].set_value(op[2])
            if cfg["circ"] is None:
                return {"v": None}
            return obs(lambda: s.set_circuit(self.circ[cfg["circ"]][0]) and None)
        if k == "heralds":
            cfg["heralds"] = dict(op[1])
            if len(op) > 2 and op[2] == "same":
                self.hobj.clear()
                self.hobj.update({int(a): b for a, b in op[1].items()})
                return obs(lambda: s.set_selection(heralds=self.hobj) and None)
            return obs(lambda: s.set_selection(heralds={int(a): b for a, b in op[1].items()}) and None)
        if k == "clear_heralds":
            cfg["heralds"] = {}
            return obs(lambda: s.clear_heralds() and None)
        if k == "ps":
            cfg["ps"] = op[1]
            return obs(lambda: s.set_postselection(p.PostSelect(op[1])) and None)
        if k == "clear_ps":
            cfg["ps"] = None
            return obs(lambda: s.clear_postselection() and None)
        if k == "filter":
            cfg["filter"] = op[1]
            return obs(lambda: s.set_min_detected_photons_filter(op[1]) and None)
        if k == "precision":
            cfg["precision"] = op[1]
            return obs(lambda: s.set_precision(op[1]) and None)
        if k == "keep":
            cfg["keep"] = op[1]
            return obs(lambda: s.keep_heralds(op[1]) and None)
        if k == "q":
            return self.query(s, op)
        raise ValueError(op)

    def fresh(self, op):
        try:
            f = pc().Simulator(pc().B[self.variant]())
            self.configure(f, self.cfg)
        except Exception as e:
            return {"e": "fresh-construction:" + exc_name(e)}
        return self.query(f, op)

    def snapshot(self):
        s = self.sim
        out, miss = {}, []
        if hasattr(s, "_evolve"):
            keys, bare = [], []
            for k in s._evolve.keys():
                if isinstance(k, tuple):
                    keys.append([self.sid(str(k[0])), k[1]])
                else:
                    bare.append(self.sid(str(k)))
            out["evolve"] = sorted(keys)
            out["bare"] = sorted(bare)
        else:
            miss.append("_evolve")
        if hasattr(s, "_can_use_mask"):
            out["can_mask"] = bool(s._can_use_mask)
        else:
            miss.append("_can_use_mask")
        b = getattr(s, "_backend", None)
        if b is not None and hasattr(b, "_masks_str") and hasattr(b, "_mask_n"):
            # the mask the simulator left on its backend: the photon number it is instantiated with
            out["bmask"] = None if b._masks_str is None else (b._mask_n if b._mask_n is not None else -1)
        else:
            miss.append("_backend._masks_str")
        return out, miss

    def sid(self, st):
        return self.sids.setdefault(st, len(self.sids) + 1)

    # ---- model encoding
    def best_n(self, can_mask, n_ext, n_own):
        nh = sum(self.cfg["heralds"].values())
        return min(n_ext, n_own + nh) if can_mask else n_own + nh

    def keys_of(self, svd_spec=None, sv_terms=None, can_mask=False, flagged=False, all_vectors=False):
        """the separated components the simulator evolves: (state id, photons of the whole term's vector, own), in the
        order `_evolve_cache_with_n` walks them (sorted by the photon number `_best_n` gives them);
        `_preprocess_svd` (probs_svd) drops the vectors with fewer photons than the filter (heralds included),
        `evolve_svd` evolves every component and rebuilds the vectors that pass (flagged=True: [passes, [key]])"""
        BS = pc().pcvl.BasicState
        keys = []
        groups = svd_spec if svd_spec is not None else [[1, sv_terms]]
        need = self.cfg["filter"] + sum(self.cfg["heralds"].values()) if svd_spec is not None else 0
        for _, terms in groups:
            n_ext = max(BS(t[2]).n for t in terms)
            ok = n_ext >= need
            if flagged:
                ok = min(BS(t[2]).n for t in terms) >= need
            elif not ok:
                continue
            for re, im, st in terms:
                for part in BS(st).separate_state(keep_annotations=False):
                    key = [self.sid(str(part)), n_ext, part.n]
                    item = [ok, [key]] if flagged else key
                    if item not in keys:
                        keys.append(item)
        nof = (lambda it: self.best_n(can_mask, it[1][0][1], it[1][0][2])) if flagged else \
            (lambda it: self.best_n(can_mask, it[1], it[2]))
        return sorted(keys, key=nof)

    def parts_of(self, state):
        BS = pc().pcvl.BasicState
        return [self.sid(str(part)) for part in BS(state).separate_state(keep_annotations=False)]

    def model_op(self, op):
        k = op[0]
        cfg = self.cfg
        if k in ("circ", "param"):
            if k == "param" and cfg["circ"] is None:
                return None
            self.uid += 1
            return ["circ", self.uid]
        if k == "heralds":
            self.hid += 1
            if not op[1]:
                self.cur_h = 0
                return ["heralds", 0, 0]
            self.cur_h = self.hid
            return ["heralds", self.hid, sum(op[1].values())]
        if k == "clear_heralds":
            self.cur_h = 0
            return ["clear_heralds"]
        if k in ("ps", "clear_ps", "filter", "precision", "keep"):
            self.oid += 1
            return ["other", self.oid]
        if k == "q":
            kind = op[1]
            BS = pc().pcvl.BasicState
            has_h = bool(cfg["heralds"])
            if kind == "probs_svd":
                need = self.cfg["filter"] + sum(self.cfg["heralds"].values())
                generic = any(len(terms) > 1 for _, terms in op[2] if max(BS(t[2]).n for t in terms) >= need)
                pnr = op[3] in ("none", "pnr")
                # the model covers inputs that survive trimming/filtering unchanged: single photon-number vectors
                return ["probs_svd", pnr, generic, self.keys_of(svd_spec=op[2], can_mask=has_h and pnr)]
            if kind in ("evolve", "probability_sv") or (kind == "probs_sv" and len(op[2]) > 1):
                return ["evolve", self.keys_of(sv_terms=op[2], can_mask=has_h)]
            if kind == "amp_sv":
                # the terms in the order the vector is iterated; a vacuum term is answered before anything is touched
                terms = [str(st) for st, _ in parse_sv(op[2])]
                subs = [["direct", self.parts_of(t)] for t in terms if BS(t).n > 0]
                return {"multi": subs} if subs else None
            if kind == "probs_sv":
                return ["probs", self.parts_of(op[2][0][2])]
            if kind == "probs":
                return ["probs", self.parts_of(op[2])]
            if kind in ("probability", "amp"):
                if BS(op[2]).n == 0:
                    return None             # answered before anything is touched
                return ["direct", self.parts_of(op[2])]
            if kind == "evolve_svd":
                return ["evolve_svd", self.keys_of(svd_spec=op[2], can_mask=has_h, flagged=True)]
            return "skip"
        raise ValueError(op)

    def expected(self, op):
        return {"circ": self.uid, "h": self.cur_h, "o": self.oid, "raw": op[1] in ("probability", "amp", "amp_sv")}

    def model_request(self, mops):
        return {"fam": "simulator", "fixed": True, "ops": mops}


SV_POOL = [
    # (m = 3) vectors with one photon number each; annotated ones make separated groups
    [[1, 0, "|1,1,0>"]],
    [[1, 0, "|2,0,0>"]],
    [[1, 0, "|1,0,1>"]],
    [[0.6, 0, "|1,1,0>"], [0, 0.8, "|0,1,1>"]],
    [[0.8, 0, "|2,0,0>"], [0.6, 0, "|0,1,1>"]],
    [[0.6, 0, "|{_:0}{_:0},{_:1},0>"], [0.8, 0, "|{_:0},{_:0}{_:1},0>"]],
    [[1, 0, "|{_:0},{_:1},0>"]],
    [[1, 0, "|{_:0}{_:1},0,{_:0}>"]],
    [[0.6, 0, "|{_:0},{_:1},{_:0}>"], [0.8, 0, "|{_:0}{_:0},0,{_:1}>"]],
    [[1, 0, "|1,1,1>"]],
]


def gen_simulator(rng, variant, nops):
    m = 3
    circuits = {"c%d" % i: gen_spec(rng, m, pname="a%d" % i, perm=(variant != "MPS")) for i in range(3)}
    params = {"a%d" % i: round(rng.uniform(0.4, 2.6), 3) for i in range(3)}
    h = {"family": "simulator", "variant": variant, "m": m, "params": params, "circuits": circuits,
         "ops": [["precision", 0], ["circ", "c0"]]}
    ops = h["ops"]
    cur_h = {}
    asked = []          # the queries so far: asking one of them again after a change is what shows a stale cache
    while len(ops) < nops:
        r = rng.random()
        if r < 0.08:
            ops.append(["circ", rng.choice(list(circuits))])
        elif r < 0.13:
            ops.append(["param", rng.choice(list(params)), round(rng.uniform(0.4, 2.6), 3)])
        elif r < 0.25:
            hm = rng.sample(range(m), rng.choice([1, 1, 2]))
            new_h = {str(k): rng.choice([0, 1, 1]) for k in sorted(hm)}
            if cur_h and sum(cur_h.values()) and rng.random() < 0.5:
                # other heralds with the same number of heralded photons: moved to other modes / expectations swapped
                alts = [x for x in herald_sets(m) if sum(x.values()) == sum(cur_h.values()) and x != cur_h]
                new_h = rng.choice(alts)
            cur_h = new_h
            ops.append(["heralds", new_h, "same"] if rng.random() < 0.3 else ["heralds", new_h])
            if asked and rng.random() < 0.6:
                ops.append(json.loads(json.dumps(rng.choice(asked[-3:]))))
        elif r < 0.29:
            cur_h = {}
            ops.append(["clear_heralds"])
        elif r < 0.34:
            ops.append(["ps", rng.choice(["[0] < 2", "[1] > 0", "[0,1] == 1", "[2] < 1"])])
        elif r < 0.37:
            ops.append(["clear_ps"])
        elif r < 0.42:
            ops.append(["filter", rng.choice([0, 0, 1, 2])])
        elif r < 0.45:
            ops.append(["keep", rng.random() < 0.5])
        elif r < 0.47:
            ops.append(["precision", rng.choice([0, 0, 1e-6])])
        else:
            q = rng.random()
            if q < 0.55:
                k = rng.choice([1, 1, 2])
                svs = rng.sample(SV_POOL, k)
                w = [1.0] if k == 1 else [0.25, 0.75]
                ops.append(["q", "probs_svd", [[w[i], svs[i]] for i in range(k)],
                            rng.choice(["none", "none", "pnr", "th", "th", "mix"])])
            elif q < 0.70:
                sv = rng.choice([s for s in SV_POOL if len(s) == 1 and "{" not in s[0][2]])
                ops.append(["q", "probs", sv[0][2]])
            elif q < 0.84:
                ops.append(["q", "evolve", rng.choice(SV_POOL)])
            elif q < 0.88:
                ops.append(["q", "probs_sv", rng.choice([s for s in SV_POOL if "{" not in s[0][2]])])
            elif q < 0.91:
                ops.append(["q", rng.choice(["probability", "probability", "amp"]),
                            rng.choice(["|1,1,0>", "|2,0,0>", "|{_:0},{_:1},0>", "|0,0,0>"]),
                            rng.choice(["|1,1,0>", "|0,1,1>", "|0,2,0>", "|{_:0},0,{_:1}>"])])
            elif q < 0.94:
                # the same two questions about a state vector (superposed or not)
                ops.append(["q", rng.choice(["probability_sv", "amp_sv"]),
                            rng.choice([sv for sv in SV_POOL if "{" not in sv[0][2]]),
                            rng.choice(["|1,1,0>", "|0,1,1>", "|0,2,0>", "|1,0,1>"])])
            else:
                ops.append(["q", "evolve_svd", [[0.5, rng.choice(SV_POOL)], [0.5, rng.choice(SV_POOL[:5])]]])
            if asked and rng.random() < 0.3:
                ops[-1] = json.loads(json.dumps(rng.choice(asked)))     # the same question again
            asked.append(ops[-1])
    return h


def photons(st):
    """photon number of a state given as text (`|1,{_:0}{_:1},0>`)"""
    return sum(seg.count("{") if "{" in seg else int(seg) for seg in st.strip("|>").split(","))


def herald_sets(m):
    """every heralds dict on one or two of the m modes with values 0 / 1"""
    out = []
    for k in range(m):
        for v in (0, 1):
            out.append({str(k): v})
    for a, b in itertools.combinations(range(m), 2):
        for va in (0, 1):
            for vb in (0, 1):
                out.append({str(a): va, str(b): vb})
    return out


# ------------------------------------------------------------------------------------------------
# family: Stepper
# ------------------------------------------------------------------------------------------------
class StepperRun:
    """ops: ["circ", cid] | ["param", name, value] (in place: `compile` re-reads the parameters) | ["filter", k] |
    ["heralds", {…}] | ["q", "evolve", sv] | ["q", "probs", state] | ["q", "probs_svd", svd, det]"""

    def __init__(self, h):
        self.h = h
        self.variant = h["variant"]
        self.values = dict(h["params"])
        self.st = pc().Stepper(pc().B[self.variant]())
        self.circ = {cid: build_circuit(spec, self.values) for cid, spec in h["circuits"].items()}
        self.cfg = {"circ": None, "filter": 0, "heralds": {}}
        self.m = h["m"]
        self.cuid = 0
        self.pv = 0
        self.sids = {}
        self.hobj = {}

    def query(self, s, op):
        BS = pc().pcvl.BasicState
        kind = op[1]
        if kind == "evolve":
            return obs(lambda: c_sv(s.evolve(parse_sv(op[2]) if len(op[2]) > 1 else BS(op[2][0][2]))))
        if kind == "probs":
            return obs(lambda: sorted([[str(k), float(v)] for k, v in s.probs(BS(op[2])).items()]))
        if kind == "probs_svd":
            return obs(lambda: c_res(s.probs_svd(parse_svd(op[2]), detectors(op[3], self.m))))
        raise ValueError(op)

    def apply(self, op):
        s = self.st
        k = op[0]
        cfg = self.cfg
        if k == "circ":
            cfg["circ"] = op[1]
            return obs(lambda: s.set_circuit(self.circ[op[1]][0]) and None)
        if k == "param":
            self.values[op[1]] = op[2]
            for c, P in self.circ.values():
                if op[1] in P:
                    P[op[1]].set_value(op[2])
            return {"v": None}
        if k == "filter":
            cfg["filter"] = op[1]
            return obs(lambda: s.set_min_detected_photons_filter(op[1]) and None)
        if k == "heralds":
            cfg["heralds"] = dict(op[1])
            if len(op) > 2 and op[2] == "same":
                self.hobj.clear()
                self.hobj.update({int(a): b for a, b in op[1].items()})
                return obs(lambda: s.set_selection(heralds=self.hobj) and None)
            return obs(lambda: s.set_selection(heralds={int(a): b for a, b in op[1].items()}) and None)
        if k == "q":
            return self.query(s, op)
        raise ValueError(op)

    def fresh(self, op):
        try:
            f = pc().Stepper(pc().B[self.variant]())
            f.set_selection(min_detected_photons_filter=self.cfg["filter"],
                            heralds={int(a): b for a, b in self.cfg["heralds"].items()})
            if self.cfg["circ"] is not None:
                c, _ = build_circuit(self.h["circuits"][self.cfg["circ"]], self.values)
                f.set_circuit(c)
        except Exception as e:
            return {"e": "fresh-construction:" + exc_name(e)}
        return self.query(f, op)

    def snapshot(self):
        s = self.st
        if hasattr(s, "_compiled_input"):
            return {"compiled": s._compiled_input is not None}, []
        return {}, ["_compiled_input"]

    def model_op(self, op):
        k = op[0]
        if k == "circ":
            self.cuid += 1
            return ["circ", self.cuid]
        if k == "param":
            self.pv += 1
            return ["params", self.pv]
        if k == "filter":
            return ["filter", op[1] + sum(self.cfg["heralds"].values())]
        if k == "heralds":
            return ["filter", self.cfg["filter"] + sum(op[1].values())]
        if k == "q":
            if op[1] == "evolve":
                key = json.dumps(op[2])
                return ["evolve", self.sids.setdefault(key, len(self.sids) + 1)]
            if op[1] == "probs":
                key = json.dumps([[1, 0, op[2]]])
                return ["evolve", self.sids.setdefault(key, len(self.sids) + 1)]
            if op[1] == "probs_svd":
                # probs(sv) = evolve(sv) for every vector of the distribution, in order
                return {"multi": [["evolve", self.sids.setdefault(json.dumps(sv), len(self.sids) + 1)]
                                  for _, sv in op[2]]}
            return "skip"
        raise ValueError(op)

    def model_request(self, mops):
        return {"fam": "stepper", "fixed": True, "ops": mops}

    def expected_res(self, mout):
        c, pv, inp, filt = mout["res"]
        return c == self.cuid and pv == self.pv and filt == self.cfg["filter"] + sum(self.cfg["heralds"].values())


def gen_stepper(rng, variant, nops):
    m = 3
    # `Stepper.compile` recognises a request by (values of the variable parameters, input, filter): c1 and c2 have no
    # variable parameter, c3's often has the value of c0's — circuits the key cannot tell apart
    circuits = {"c%d" % i: gen_spec(rng, m, pname=("a%d" % i) if i in (0, 3) else None, depth=2, nice=True)
                for i in range(4)}
    params = {"a%d" % i: rng.choice(NICE) for i in (0, 3)}
    if rng.random() < 0.6:
        params["a3"] = params["a0"]
    h = {"family": "stepper", "variant": variant, "m": m, "params": params, "circuits": circuits,
         "ops": [["circ", "c0"]]}
    ops = h["ops"]
    plain = [s for s in SV_POOL if "{" not in s[0][2]]
    last_q = None
    cur = "c0"
    values = dict(params)

    def key_of(cid):
        return [values[a[1]] for comp in circuits[cid]["comps"] for a in comp[2:] if isinstance(a, list)]
    while len(ops) < nops:
        r = rng.random()
        if r < 0.13:
            twins = [c for c in circuits if c != cur and key_of(c) == key_of(cur)]
            cur = rng.choice(twins) if twins and rng.random() < 0.6 else rng.choice(list(circuits))
            ops.append(["circ", cur])
            if last_q is not None and rng.random() < 0.7:
                ops.append(_cp(last_q))         # the last question again as the very next one
        elif r < 0.25:
            ops.append(["param", rng.choice(list(params)), rng.choice(NICE)])
            values[ops[-1][1]] = ops[-1][2]
        elif r < 0.40:
            ops.append(["filter", rng.choice([0, 0, 1, 2, 3])])
        elif r < 0.52:
            ops.append(["heralds", {str(rng.randrange(m)): 1} if rng.random() < 0.6 else {}])
            if rng.random() < 0.7:
                ops[-1].append("same")
        else:
            q = rng.random()
            if q < 0.6:
                ops.append(["q", "evolve", rng.choice(plain)])
            elif q < 0.8:
                ops.append(["q", "probs", rng.choice([s for s in plain if len(s) == 1])[0][2]])
            else:
                ops.append(["q", "probs_svd", [[0.5, rng.choice(plain)], [0.5, rng.choice(plain[:3])]],
                            rng.choice(["none", "th"])])
            last_q = ops[-1]
    return h


# ------------------------------------------------------------------------------------------------
# family: Processor
# ------------------------------------------------------------------------------------------------
def build_comp(spec, P, values):
    p = pc().pcvl

    def val(a):
        if isinstance(a, list):
            name = a[1]
            if name not in P:
                P[name] = p.P(name)
                P[name].set_value(values[name])
            return P[name]
        return a
    kind = spec[0]
    if kind == "BS":
        return p.BS.H(theta=val(spec[1]), phi_tl=val(spec[2]))
    if kind == "PS":
        return p.PS(val(spec[1]))
    if kind == "PERM":
        return p.PERM([1, 0])
    if kind == "LC":
        return p.LC(spec[1])
    raise ValueError(kind)


def noise_of(spec):
    p = pc().pcvl
    if spec is None:
        return None
    return p.NoiseModel(**spec)


NOISE_FIELDS = ["brightness", "indistinguishability", "g2", "g2_distinguishable", "transmittance",
                "phase_imprecision", "phase_error"]
NOISES = [None, {"brightness": 0.8}, {"indistinguishability": 0.7}, {"g2": 0.05, "brightness": 0.9},
          {"transmittance": 0.6, "indistinguishability": 0.85}, {"phase_imprecision": 0.3},
          {"brightness": 0.7, "g2": 0.03, "indistinguishability": 0.9}]


SOURCE_FIELDS = {"brightness": 1, "indistinguishability": 1, "g2": 0, "transmittance": 1}


def perfect_source(spec):
    """`Source.from_noise_model(nm).is_perfect()` as a function of the values"""
    return spec is None or all(spec.get(k, d) == d for k, d in SOURCE_FIELDS.items())


PRECISIONS = [1e-3, 1e-2]
SAMPLER = "CliffordClifford2017"        # the sampling engine: Processor.samples (no probs on it)


def _canon_tags(text):
    """the distinguishability tags a Source writes (`_:k`, k > 0) are fresh numbers of a counter: only which photons
    of one state vector share a tag matters — renumbered in order of first appearance (`_:0` is the common mode)"""
    names = {}

    def ren(mo):
        k = mo.group(1)
        if k == "0":
            return "_:0"
        return "_:t%d" % names.setdefault(k, len(names) + 1)
    return re.sub(r"_:(\d+)", ren, text)


def c_svdist(svd):
    """canonical form of an SVDistribution (annotations included, tag numbers canonicalised per state vector)"""
    items = []
    for sv, pr in svd.items():
        names = _canon_tags(" ".join(str(st) for st, _ in sv)).split(" ")
        terms = sorted([nm, complex(a).real, complex(a).imag] for nm, (_, a) in zip(names, sv))
        items.append([[t[0] for t in terms], terms, float(pr)])
    items.sort(key=lambda it: (it[0], round(it[2], 6)))
    return [[it[1], it[2]] for it in items]


def samples_arguments(proc):
    """`Processor.samples` through the public entry point.  The drawn samples are random (their law is C09's); what
    the call decides is everything it hands to the NoisySamplingSimulator it creates — recorded here at the public
    methods of that class: the unitary of the circuit (phase noise applied), the photon filter, the post-selection,
    the heralds, keep_heralds, the detectors, and the input distribution of the provider (for a (source, state)
    provider: the distribution that source generates for that state).  The sampling itself runs (seeded, a few
    samples, bounded shots); only the class of an exception it raises is kept."""
    p = pc().pcvl
    from perceval.simulators import NoisySamplingSimulator as NSS
    rec = {"calls": []}
    orig = {k: getattr(NSS, k) for k in ("set_circuit", "set_selection", "keep_heralds", "set_detectors", "samples")}

    def set_circuit(self, circuit):
        rec["calls"].append("set_circuit")
        u = circuit.compute_unitary()
        rec["unitary"] = [[[complex(x).real, complex(x).imag] for x in row] for row in u.tolist()]
        return orig["set_circuit"](self, circuit)

    def set_selection(self, min_detected_photons_filter=None, postselect=None, heralds=None):
        rec["calls"].append("set_selection")
        rec["filter"] = min_detected_photons_filter
        rec["ps"] = None if postselect is None else str(postselect)
        rec["heralds"] = None if heralds is None else sorted([int(k), int(v)] for k, v in heralds.items())
        return orig["set_selection"](self, min_detected_photons_filter=min_detected_photons_filter,
                                     postselect=postselect, heralds=heralds)

    def keep_heralds(self, value):
        rec["calls"].append("keep_heralds")
        rec["keep_heralds"] = bool(value)
        return orig["keep_heralds"](self, value)

    def set_detectors(self, detector_list):
        rec["calls"].append("set_detectors")
        rec["detectors"] = None if detector_list is None else \
            [None if d is None else [type(d).__name__, d.type.name] for d in detector_list]
        return orig["set_detectors"](self, detector_list)

    def samples(self, provider, max_samples, max_shots=None, progress_callback=None):
        rec["calls"].append("samples")
        if isinstance(provider, tuple):
            src, st = provider
            rec["provider"] = c_svdist(src.generate_distribution(st))
        else:
            rec["provider"] = c_svdist(provider)
        rec["max"] = [max_samples, max_shots]
        p.random_seed(20261001)
        try:
            r = orig["samples"](self, provider, max_samples, max_shots, progress_callback)
            rec["sampling"] = "ok" if len(r["results"]) <= max_samples else "too-many-samples"
        except Exception as e:
            rec["sampling"] = "raises-" + exc_name(e)
            raise
        return r

    new = {"set_circuit": set_circuit, "set_selection": set_selection, "keep_heralds": keep_heralds,
           "set_detectors": set_detectors, "samples": samples}
    try:
        for k, f in new.items():
            setattr(NSS, k, f)
        proc.samples(6, max_shots=60)
    finally:
        for k, f in orig.items():
            setattr(NSS, k, f)
    rec["calls"] = sorted(rec["calls"])
    return rec


class ProcessorRun:
    """init: {"m": circuit size, "heralds": {mode: v}, "comps": [[mode, compspec]…]}; ops: ["add", mode, compspec] |
    ["add_herald", mode, v] | ["with_input", state] (on the modes of interest) | ["with_input_svd", svdspec] |
    ["with_input_sv", terms] (distributions over the whole circuit: the source is bypassed) |
    ["noise", spec|None, "same"?] ("same": one NoiseModel object of the caller updated in place with set_value and
    assigned again) | ["noise_inplace", spec] (the held NoiseModel updated in place and NOT assigned again) |
    ["filter", k] | ["ps", expr] | ["clear_ps"] | ["param", name, value] | ["det", mode, kind] |
    ["set_circuit", [[mode, compspec]…]] | ["q", "probs", precision|None] | ["q", "samples", None] (variant
    "CliffordClifford2017" only: the answer is the argument list handed to the sampling simulator)

    The configuration is what the user set last: the structural calls in their order (components and heralds; a
    set_circuit replaces the components before it), detectors, post-selection, the noise VALUES AT THE LAST
    ASSIGNMENT, the filter the user gave (None = never), the input."""

    def __init__(self, h):
        self.h = h
        self.variant = h["variant"]
        self.values = dict(h["params"])
        self.P = {}
        struct = [["comp", m, list(sp)] for m, sp in h["init"].get("comps", [])]
        struct += [["herald", int(m), v] for m, v in sorted(h["init"]["heralds"].items())]
        self.cfg = {"struct": struct, "dets": {}, "ps": None, "noise": None, "filter": None, "input": None}
        self.M = h["init"]["m"]
        self.p = self.construct(self.cfg, self.P)
        self.comps_id = 0
        self.det_id = 0
        self.her_id = 1 if h["init"]["heralds"] else 0
        self.ps_id = 0
        self.noise_id = 0
        self.input_id = 0
        self.nm = None              # one long-lived NoiseModel, updated in place and assigned again (flavour "same")
        self.held_is_nm = False     # the processor currently holds self.nm
        self.stored_filter = None   # what the code has in `_min_detected_photons_filter` (explicit or automatic)
        self.auto = False           # … written by the automatic rule
        self.dirty = False

    def heralds(self, cfg=None):
        return {it[1]: it[2] for it in (cfg or self.cfg)["struct"] if it[0] == "herald"}

    def construct(self, cfg, P):
        p = pc().pcvl
        proc = p.Processor(self.variant, self.M)
        for it in cfg["struct"]:
            if it[0] == "comp":
                proc.add(it[1], build_comp(it[2], P, self.values))
            elif it[0] == "herald":
                proc.add_herald(it[1], it[2])
            else:
                c = p.Circuit(self.M)
                for mode, spec in it[1]:
                    c.add(mode, build_comp(spec, P, self.values))
                proc.set_circuit(c)
        for mode, kind in sorted(cfg["dets"].items()):
            proc.add(int(mode), p.Detector.threshold() if kind == "th" else p.Detector.pnr())
        if cfg["ps"]:
            proc.set_postselection(p.PostSelect(cfg["ps"]))
        if cfg["noise"] is not None:
            proc.noise = noise_of(cfg["noise"])
        if cfg["filter"] is not None:
            proc.min_detected_photons_filter(cfg["filter"])
        if cfg["input"] is not None:
            kind, val = cfg["input"]
            if kind == "bs":
                proc.with_input(p.BasicState(val))
            elif kind == "svd":
                proc.with_input(parse_svd(val))
            else:
                proc.with_input(parse_sv(val))
        return proc

    def query(self, proc, op):
        if op[1] == "samples":
            return obs(lambda: samples_arguments(proc))
        return obs(lambda: c_res(proc.probs(precision=op[2])))

    def apply(self, op):
        p = pc().pcvl
        proc = self.p
        cfg = self.cfg
        k = op[0]
        if k == "add":
            r = obs(lambda: proc.add(op[1], build_comp(op[2], self.P, self.values)) and None)
            if "v" in r:
                cfg["struct"].append(["comp", op[1], op[2]])
            return r
        if k == "add_herald":
            r = obs(lambda: proc.add_herald(op[1], op[2]) and None)
            if "v" in r:
                cfg["struct"].append(["herald", op[1], op[2]])
                if cfg["input"] is not None and cfg["input"][0] == "bs":
                    cfg["input"] = None     # a Fock-state input has to be given again (it has another length now)
            return r
        if k == "set_circuit":
            def f():
                c = p.Circuit(self.M)
                for mode, spec in op[1]:
                    c.add(mode, build_comp(spec, self.P, self.values))
                proc.set_circuit(c)
            r = obs(f)
            if "v" in r:
                cfg["struct"] = [it for it in cfg["struct"] if it[0] == "herald"] + [["base", [list(x) for x in op[1]]]]
            return r
        if k == "with_input":
            r = obs(lambda: proc.with_input(p.BasicState(op[1])) and None)
            if "v" in r:
                cfg["input"] = ["bs", op[1]]
            return r
        if k == "with_input_svd":
            r = obs(lambda: proc.with_input(parse_svd(op[1])) and None)
            if "v" in r:
                cfg["input"] = ["svd", op[1]]
            return r
        if k == "with_input_sv":
            r = obs(lambda: proc.with_input(parse_sv(op[1])) and None)
            if "v" in r:
                cfg["input"] = ["sv", op[1]]
            return r
        if k == "noise":
            cfg["noise"] = op[1]
            self.dirty = False
            if len(op) > 2 and op[2] == "same" and op[1] is not None:
                def g2():
                    if self.nm is None:
                        self.nm = p.NoiseModel()
                    self.set_in_place(op[1])
                    proc.noise = self.nm
                self.held_is_nm = True
                return obs(g2)
            self.held_is_nm = False
            def g():
                proc.noise = noise_of(op[1])
            return obs(g)
        if k == "noise_inplace":
            if not self.held_is_nm:
                return {"v": None}
            self.dirty = True       # cfg["noise"] keeps the values of the last assignment
            return obs(lambda: self.set_in_place(op[1]))
        if k == "filter":
            cfg["filter"] = op[1]
            self.stored_filter, self.auto = op[1], False
            return obs(lambda: proc.min_detected_photons_filter(op[1]) and None)
        if k == "ps":
            cfg["ps"] = op[1]
            return obs(lambda: proc.set_postselection(p.PostSelect(op[1])) and None)
        if k == "clear_ps":
            cfg["ps"] = None
            return obs(lambda: proc.clear_postselection() and None)
        if k == "param":
            self.values[op[1]] = op[2]
            if op[1] in self.P:
                self.P[op[1]].set_value(op[2])
            return {"v": None}
        if k == "det":
            r = obs(lambda: proc.add(op[1], p.Detector.threshold() if op[2] == "th" else p.Detector.pnr()) and None)
            if "v" in r:
                cfg["dets"][str(op[1])] = op[2]
            return r
        if k == "q":
            if self.stored_filter is None and cfg["input"] is not None and cfg["input"][0] == "bs" \
                    and perfect_source(cfg["noise"]):
                # `check_min_detected_photons_filter` stores the automatic value as if the user had set it
                self.stored_filter, self.auto = sum(cfg["input"][1]), True
            return self.query(proc, op)
        raise ValueError(op)

    def set_in_place(self, spec):
        nm = self.nm
        for key in NOISE_FIELDS:                   # public API only: NoiseModel[...].set / set_value
            if key not in spec:
                nm[key].set(nm[key].default)
        for key, value in spec.items():
            nm.set_value(key, value)

    def fresh(self, op):
        """the fresh-object oracle.  While the stored photon filter is the automatic one of an earlier call (open
        known finding processor-auto-filter-persists, reported by its own probe) the fresh processor is given that
        stored value explicitly: everything else still has to be history-independent."""
        cfg = self.cfg
        asis = self.auto and cfg["filter"] is None and not self.h.get("plain_oracle")
        if asis:
            cfg = dict(cfg, filter=self.stored_filter)
        try:
            f = self.construct(cfg, {})
        except Exception as e:
            return {"e": "fresh-construction:" + exc_name(e)}
        r = self.query(f, op)
        if asis:
            self.asis_used = True
        return r

    asis_used = False

    def snapshot(self):
        proc = self.p
        out, miss = {}, []
        for name, key in (("_simulator", "sim"), ("_inputs_map", "inputs_map")):
            if hasattr(proc, name):
                out[key] = getattr(proc, name) is not None
            else:
                miss.append(name)
        if hasattr(proc, "_simulator_precision_set"):
            out["prec_set"] = bool(proc._simulator_precision_set)
        else:
            miss.append("_simulator_precision_set")
        try:
            out["filt"] = proc.experiment.min_photons_filter
        except Exception:
            miss.append("min_photons_filter")
        return out, miss

    def model_prefix(self):
        hs = self.h["init"]["heralds"]
        return [["herald", 1, sum(hs.values())]] if hs else []

    def model_op(self, op):
        k = op[0]
        if k in ("add", "set_circuit"):
            # repaired code: `Experiment.set_circuit` notifies the processor (the simulator is dropped)
            self.comps_id += 1
            return ["add", self.comps_id]
        if k == "det":
            self.det_id += 1
            return ["det", self.det_id]
        if k == "add_herald":
            self.her_id += 1
            return ["herald", self.her_id, sum(self.heralds().values()) + op[2]]
        if k == "ps":
            self.ps_id += 1
            return ["ps", self.ps_id]
        if k == "clear_ps":
            return ["clear_ps"]
        if k == "param":
            self.comps_id += 1
            return ["comps", self.comps_id]
        if k == "noise":
            self.noise_id += 1
            return ["noise", self.noise_id, perfect_source(op[1])]
        if k == "noise_inplace":
            if not self.held_is_nm:
                return None
            return ["mutate", 1000 + self.noise_id, perfect_source(op[1])]
        if k == "with_input":
            self.input_id += 1
            return ["input", "bs", self.input_id, sum(op[1])]
        if k in ("with_input_svd", "with_input_sv"):
            self.input_id += 1
            return ["input", "svd", self.input_id, 0]
        if k == "filter":
            return ["filter", op[1]]
        if k == "q":
            if op[1] == "samples":
                return ["samples"]
            return ["probs", None if op[2] is None else PRECISIONS.index(op[2]) + 1]
        raise ValueError(op)

    def expected(self, op):
        """the provenance the as-is model has to report for a query answered now (tracked independently here)"""
        if self.cfg["input"] is None or self.stored_filter is None:
            return None
        bs = self.cfg["input"][0] == "bs"
        return {"comps": self.comps_id, "her": self.her_id, "ps": self.ps_id if self.cfg["ps"] else 0,
                "det": self.det_id, "phase": self.noise_id, "src": self.noise_id if bs else None,
                "kind": "bs" if bs else "svd", "inp": self.input_id, "her_in": self.her_id if bs else 0,
                "filt": self.stored_filter, "prec": None if op[2] is None else PRECISIONS.index(op[2]) + 1,
                "q": op[1]}

    def model_request(self, mops):
        return {"fam": "processor", "persist": True, "ops": mops}


def legal_processor(h):
    """after add_herald a Fock-state input has to be given again before the next query (the processor expects an
    input of another length; the old one cannot be given to a fresh processor)"""
    inp = None
    for op in h["ops"]:
        k = op[0]
        if k == "with_input":
            inp = "bs"
        elif k in ("with_input_svd", "with_input_sv"):
            inp = "svd"
        elif k == "add_herald":
            if inp == "bs":
                inp = "stale"
        elif k == "q" and inp == "stale":
            return False
    return True


PERFECT_NOISES = [None, {"phase_imprecision": 0.3}, {"phase_imprecision": 0.1}]    # (phase_error is random)


def gen_processor(rng, variant, nops, auto=False):
    """auto=True: no explicit photon filter before the first query (the automatic one is stored by that query — the
    open known finding; the fresh processor is then given the stored value) and a perfect source until a filter is
    given"""
    M = rng.choice([2, 3, 3])
    qkind = "samples" if variant == SAMPLER else "probs"
    heralds = {}
    if M == 3 and rng.random() < 0.5:
        heralds = {str(rng.randrange(M)): rng.choice([0, 1])}
    hv = {int(k): v for k, v in heralds.items()}        # heralds so far
    params = {"a%d" % i: round(rng.uniform(0.4, 2.6), 3) for i in range(2)}
    used_params = set()
    blocked = set(hv)      # herald modes, then modes with a detector
    dets = set()

    def rand_comp(allow_lc=True):
        r = rng.random()
        if r < 0.55 and M >= 2:
            th = round(rng.uniform(0.4, 2.6), 3)
            free = [n for n in params if n not in used_params]
            if free and rng.random() < 0.4:
                used_params.add(free[0])
                th = ["p", free[0]]
            return 2, ["BS", th, round(rng.uniform(0, 3), 3)]
        if r < 0.8:
            return 1, ["PS", round(rng.uniform(0, 3), 3)]
        if r < 0.9 and variant != "MPS":
            return 2, ["PERM"]
        if allow_lc and variant != "MPS":
            return 1, ["LC", rng.choice([0.1, 0.3])]
        return 1, ["PS", round(rng.uniform(0, 3), 3)]

    def place(w, avoid):
        cands = [k for k in range(M - w + 1) if not any((k + i) in avoid for i in range(w))]
        return rng.choice(cands) if cands else None

    init_comps = []
    for _ in range(rng.randint(1, 4)):          # the circuit the heralds are declared on
        w, spec = rand_comp(allow_lc=False)
        init_comps.append([place(w, set()), spec])
    h = {"family": "processor", "variant": variant, "params": params,
         "init": {"m": M, "heralds": heralds, "comps": init_comps}, "ops": []}
    ops = h["ops"]
    explicit = [not auto]
    held = [False]          # the processor holds the caller's long-lived NoiseModel object

    def full_state(n_target=None):
        st = [hv.get(k, rng.choice([0, 1, 1])) for k in range(M)]
        return st

    def fock(st):
        return "|" + ",".join(str(x) for x in st) + ">"

    def rand_input():
        """a Fock state on the modes of interest, or (explicit filter only) a distribution over the whole circuit"""
        r = rng.random()
        if r < 0.7 or not explicit[0]:
            return ["with_input", [rng.choice([0, 1, 1]) for _ in range(M - len(hv))]]
        a = full_state()
        bst = list(a)
        free = [k for k in range(M) if k not in hv]
        if len(free) >= 2:                      # same photon number, one photon moved
            i, j = rng.sample(free, 2)
            if bst[i] > 0:
                bst[i] -= 1
                bst[j] += 1
        if r < 0.85:
            return ["with_input_svd", [[0.75, [[1, 0, fock(a)]]], [0.25, [[1, 0, fock(full_state())]]]]
                    if bst == a else [[0.5, [[0.6, 0, fock(a)], [0, 0.8, fock(bst)]]], [0.5, [[1, 0, fock(full_state())]]]]]
        return ["with_input_sv", [[1, 0, fock(a)]] if bst == a else [[0.6, 0, fock(a)], [0.8, 0, fock(bst)]]]

    def rand_noise():
        return rng.choice(NOISES if explicit[0] else PERFECT_NOISES)

    ops.append(rand_input())
    if not auto:
        ops.append(["filter", rng.choice([0, 1, 1, 2])])
    while len(ops) < nops:
        r = rng.random()
        if r < 0.11:
            w, spec = rand_comp()
            k = place(w, blocked)
            if k is not None:
                ops.append(["add", k, spec])
        elif r < 0.21:
            ops.append(rand_input())
        elif r < 0.31:
            ops.append(["noise", rand_noise()])
            held[0] = False
            if rng.random() < 0.6:
                ops[-1].append("same")      # the caller's own NoiseModel updated in place and assigned again
                held[0] = ops[-1][1] is not None
        elif r < 0.35:
            if held[0]:                     # … updated in place and NOT assigned again: nothing may change
                ops.append(["noise_inplace", rng.choice([x for x in NOISES if x is not None] + INPLACE_NOISES)])
                if rng.random() < 0.7:
                    ops.append(["q", qkind, None])
        elif r < 0.43:
            if explicit[0] or rng.random() < 0.3:
                ops.append(["filter", rng.choice([0, 1, 1, 2])])
                explicit[0] = True
        elif r < 0.48:
            ops.append(["ps", rng.choice(["[0] < 2", "[0] > 0", "[0,1] == 1"][:2 if M - len(hv) < 2 else 3])])
        elif r < 0.51:
            ops.append(["clear_ps"])
        elif r < 0.58 and used_params:
            ops.append(["param", rng.choice(sorted(used_params)), round(rng.uniform(0.4, 2.6), 3)])
        elif r < 0.62:
            free = [k for k in range(M) if k not in hv]
            k = rng.choice(free)
            blocked.add(k)
            dets.add(k)
            ops.append(["det", k, rng.choice(["th", "pnr"])])
        elif r < 0.66:
            comps = []
            for _ in range(rng.randint(1, 3)):
                w, spec = rand_comp(allow_lc=False)
                if spec[0] == "BS" and isinstance(spec[1], list):
                    spec[1] = 1.234
                comps.append([rng.randrange(M - w + 1), spec])
            ops.append(["set_circuit", comps])
        elif r < 0.71:
            free = [k for k in range(M) if k not in hv and k not in dets]
            if M - len(hv) >= 2 and free:      # a herald declared late; the input is given again
                k = rng.choice(free)
                v = rng.choice([0, 1])
                ops.append(["add_herald", k, v])
                hv[k] = v
                blocked.add(k)
                ops.append(rand_input())
        else:
            ops.append(["q", qkind, None if rng.random() < 0.8 or qkind == "samples" else rng.choice(PRECISIONS)])
    return h


# ------------------------------------------------------------------------------------------------
# running a history
# ------------------------------------------------------------------------------------------------
RUNNERS = {"backend": BackendRun, "simulator": SimulatorRun, "stepper": StepperRun, "processor": ProcessorRun}


def run_history(h, stop_at_first=True):
    """-> dict(fails=[…], trace=[…], request=…); fails: (index, op, real, fresh) where the direct oracle fails.
    The model is followed up to the first step it does not describe (an unmodelled query kind, a query both
    objects refuse, a configuration call that raised in a family where the model has no exceptions)."""
    R = RUNNERS[h["family"]](h)
    fails = []
    trace = []
    mops = []
    nq = 0
    follow = True
    for sub in (R.model_prefix() if hasattr(R, "model_prefix") else []):
        mops.append(sub)
        trace.append({"i": -1, "nocheck": True})
    for i, op in enumerate(h["ops"]):
        mop = R.model_op(op) if follow else "skip"
        real = R.apply(op)
        fresh = None
        if op[0] == "q":
            nq += 1
            R.asis_used = False
            fresh = R.fresh(op)
            if not agree(real, fresh):
                if R.asis_used:
                    fresh = dict(fresh, oracle="as-is")
                fails.append((i, op, real, fresh))
        if follow and mop == "skip":
            follow = False
        if follow and "e" in real and (op[0] == "q" or h["family"] != "backend"):
            follow = False           # refused by both objects / raised half-way
            mop = None
        if follow and mop is not None:
            snap, miss = R.snapshot()
            status = "exc:" + real["e"] if "e" in real else ("res" if op[0] == "q" else "ok")
            if isinstance(mop, dict):
                for sub in mop["multi"][:-1]:
                    mops.append(sub)
                    trace.append({"i": i, "nocheck": True})
                mop = mop["multi"][-1]
            mops.append(mop)
            t = {"i": i, "status": status, "snap": snap, "miss": miss}
            if op[0] == "q" and hasattr(R, "expected"):
                t["expect"] = R.expected(op)
            trace.append(t)
        if fails and stop_at_first:
            break
    return {"fails": fails, "trace": trace, "request": R.model_request(mops), "nq": nq, "followed": follow,
            "auto": bool(getattr(R, "auto", False))}


def fail_sig(h, f):
    """stable signature: a name for the known shapes, otherwise family/variant + what happened + the kinds of
    operations of the (shrunk) history"""
    i, op, real, fresh = f
    ks = [o[0] for o in h["ops"][:i]]
    fam, var = h["family"], h["variant"]
    asis = isinstance(fresh, dict) and fresh.get("oracle") == "as-is"
    plain_swaps = fam == "backend" and not any(x in ks for x in ("mask", "clear", "cutoff")) \
        and ks.count("circ") + ks.count("param") >= 2
    if var == SYMBOLIC:
        # the named shapes below are those of the numeric engines
        if plain_swaps:
            return "backend-answer-depends-on-earlier-circuits:" + var
        return generic_sig(h, f, asis)
    if fam == "backend" and var == "SLOS" and real.get("e") == "KeyError" and ("mask" in ks or "clear" in ks):
        return "slos-mask-change-after-input"
    if fam == "backend" and var == "SLOS" and ks.count("in") >= 2 and "mask" in ks:
        return "slos-mask-reinstantiated"
    if fam == "backend" and var != "SLOS" and "mask" in ks and "cutoff" not in ks and ks.count("in") >= 2 \
            and "e" not in real:
        return "backend-mask-instance-across-inputs"
    if fam == "backend" and var == "MPS" and ("cutoff" in ks or ks.count("in") >= 2):
        return "mps-cutoff-history"
    if fam == "stepper" and "e" not in real and ("filter" in ks or "heralds" in ks):
        return "stepper-filter-stale"
    prev_q = max([j for j in range(i) if h["ops"][j][0] == "q"], default=None)
    since = [o[0] for o in h["ops"][(prev_q + 1 if prev_q is not None else 0):i]]
    if fam == "stepper" and "e" not in real and prev_q is not None and "circ" in since:
        return "stepper-stale-after-set-circuit"
    if plain_swaps and not (var == "MPS" and ks.count("in") >= 2):
        return "backend-answer-depends-on-earlier-circuits:" + var
    if fam == "simulator" and prev_q is not None and ("heralds" in since or "clear_heralds" in since) \
            and not any(x in since for x in ("circ", "param")):
        return "simulator-stale-after-heralds-change"
    if fam == "processor" and "noise_inplace" in since and "noise" not in since and "e" not in real:
        return "processor-in-place-noise-update-observed"
    if fam == "processor" and "noise" in since and "filter" in ks and "e" not in real:
        return "processor-stale-after-noise-change"
    if fam == "simulator" and op[1] == "probs_svd" and any(o[0] == "q" and o[1] in ("probs_svd", "evolve", "evolve_svd")
                                                          for o in h["ops"][:i]):
        return "simulator-mask-mode-cache"
    if fam == "simulator" and op[1] in ("probs", "probability", "amp", "amp_sv") and \
            any(o[0] == "q" and o[1] in ("probs_svd", "evolve", "evolve_svd") for o in h["ops"][:i]):
        return "simulator-leftover-mask"
    if fam == "simulator" and op[1] in ("evolve", "probability_sv") and any(o[0] == "q" and o[1] in ("probs_svd", "evolve_svd")
                                                       for o in h["ops"][:i]):
        return "simulator-evolve-inherits-mask-mode"
    if fam == "processor" and "filter" not in ks and not asis:
        return "processor-auto-filter-persists"     # no explicit photon filter so far: the automatic one is in play
    if fam == "processor" and "e" in real and "set_circuit" in ks:
        return "processor-set-circuit-keeps-nonunitary-flags"
    if fam == "processor" and op[2] is None and any(o[0] == "q" and o[2] is not None for o in h["ops"][:i]):
        return "processor-precision-sticky"
    return generic_sig(h, f, asis)


def generic_sig(h, f, asis=False):
    i, op, real, fresh = f
    kinds = []
    for o in h["ops"][:i + 1]:
        k = o[0] if o[0] != "q" else "q:" + o[1]
        if not kinds or kinds[-1] != k:
            kinds.append(k)
    what = ("raises-" + real["e"]) if "e" in real else ("fresh-raises-" + fresh["e"] if "e" in fresh else "differs")
    if asis:
        what += "-from-fresh-given-the-stored-automatic-filter"
    return f"{h['family']}:{h['variant']}:{what}:" + ">".join(kinds)


def auto_filter_in_play(ops):
    """a Processor query was answered before any explicit photon filter was given: the automatic value of that
    query is stored (the open known finding `processor-auto-filter-persists`)"""
    for o in ops:
        if o[0] == "filter":
            return False
        if o[0] == "q":
            return True
    return False


def shrink_history(h):
    keep_filter = h["family"] == "processor" and not auto_filter_in_play(h["ops"])

    def still(ops):
        hh = dict(h, ops=ops)
        if h["family"] == "backend" and not legal_backend(hh):
            return False
        if keep_filter and auto_filter_in_play(ops):
            return False        # do not shrink a history into the shape of the known automatic-filter finding
        if h["family"] == "processor" and not legal_processor(hh):
            return False
        try:
            return bool(run_history(hh)["fails"])
        except Exception:
            return False
    ops = shrink_list(h["ops"], still, max_rounds=150)
    return dict(h, ops=ops)


def describe_fail(f):
    i, op, real, fresh = f

    def short(o):
        s = json.dumps(o)
        return s if len(s) < 300 else s[:300] + "…"
    return f"query {json.dumps(op)} at step {i}: long-lived object -> {short(real)}; fresh object -> {short(fresh)}"


# ------------------------------------------------------------------------------------------------
# model comparison
# ------------------------------------------------------------------------------------------------
SOFT_KEYS = {"backend": ["iter", "masks", "mask_n", "has_mask", "inputs", "npaths", "fsas", "layers", "inst_n",
                         "fock", "cut_req"],
             "simulator": ["evolve", "bare", "can_mask", "bmask"], "stepper": ["compiled"],
             "processor": ["sim", "inputs_map", "prec_set", "filt"]}


def provenance_diff(fam, exp, mo):
    """-> None or (field, model value, tracked value)"""
    if fam == "processor":
        for k, v in exp.items():
            got = mo.get("q") if k == "q" else mo["res"].get(k)
            if got != v:
                return (k, got, v)
        return None
    r = mo["res"]
    for part in r[0]:
        if part[1] != exp["circ"]:
            return ("circuit", part[1], exp["circ"])
    if bool(mo.get("raw")) != exp["raw"]:
        return ("raw", bool(mo.get("raw")), exp["raw"])
    if not exp["raw"] and (r[1] != exp["h"] or r[2] != exp["o"]):
        return ("selection", r[1:], [exp["h"], exp["o"]])
    return None


def compare_model(chk, h, res, reply):
    """-> list of (tag, what) disagreements; the tag names the kind of disagreement (part of the signature)"""
    out = []
    if "err" in reply:
        return [("driver-rejected", f"driver rejected the history: {reply['err']}")]
    outs, abss = reply["outs"], reply["abs"]
    for t, mo, ma in zip(res["trace"], outs, abss):
        if t.get("nocheck"):
            continue
        st = t["status"]
        if isinstance(mo, dict):
            mst = "res"
        elif mo == "stale":
            mst = "stale"
        elif mo.startswith("exc:"):
            mst = "exc"
        else:
            mst = "ok"
        rst = "exc" if st.startswith("exc:") else st
        opk = h["ops"][t["i"]][0]
        if mst == "stale":
            out.append(("model-stale", f"step {t['i']}: the fixed model combines stale entries (theorem query_eq_fresh "
                                       f"contradicted)"))
            break
        if mst != rst:
            out.append((f"status-{opk}", f"step {t['i']} {json.dumps(h['ops'][t['i']])}: code {st}, model {json.dumps(mo)}"))
            break
        if mst == "exc" and mo not in ("exc:NoInput", "exc:NoCircuit", "exc:NotConfigured") and mo != st:
            out.append((f"exception-{opk}", f"step {t['i']}: code {st}, model {mo}"))
            break
        chk.count("status", st if rst != "exc" else st)
        # provenance: the ghosts the model reports against what the harness tracked on its own
        exp = t.get("expect")
        if exp and isinstance(mo, dict):
            bad = provenance_diff(h["family"], exp, mo)
            if bad:
                out.append((f"provenance-{bad[0]}", f"step {t['i']} {json.dumps(h['ops'][t['i']])}: the model's answer "
                                                    f"carries {bad[0]} = {json.dumps(bad[1])}, tracked {json.dumps(bad[2])}"))
                break
            chk.count("provenance_checked", h["family"])
        # soft tie
        for k in SOFT_KEYS[h["family"]]:
            if k in t["snap"] and k in ma:
                if t["snap"][k] != ma[k]:
                    out.append((f"private-state-{k}-after-{opk}",
                                f"step {t['i']} {json.dumps(h['ops'][t['i']])}: private state {k}: code "
                                f"{json.dumps(t['snap'][k])}, model {json.dumps(ma[k])}"))
                    break
        if out:
            break
        for mname in t["miss"]:
            chk.count("missing_private_attribute", mname)
    return out


# ------------------------------------------------------------------------------------------------
# workers
# ------------------------------------------------------------------------------------------------
_MARK_DIR = None        # set before the pool forks: every worker leaves the history it is running there


def _mark(h, label=None):
    if _MARK_DIR is None:
        return
    path = os.path.join(_MARK_DIR, "%d.json" % os.getpid())
    if h is None:
        if os.path.exists(path):
            os.remove(path)
        return
    with open(path + ".tmp", "w") as f:
        json.dump({"label": label, "h": h}, f)
    os.replace(path + ".tmp", path)


def _probe(h):
    run_history(h, stop_at_first=False)


def _alive(pid):
    try:
        os.kill(pid, 0)
    except ProcessLookupError:
        return False
    except PermissionError:
        return True
    try:        # a zombie is dead
        with open("/proc/%d/stat" % pid) as f:
            return f.read().rsplit(")", 1)[1].split()[0] != "Z"
    except OSError:
        return False


def dead_worker_histories():
    """the histories that were running in workers which no longer exist"""
    out = []
    for path in sorted(glob.glob(os.path.join(_MARK_DIR, "*.json"))):
        pid = int(os.path.basename(path)[:-5])
        if not _alive(pid):
            try:
                out.append(json.load(open(path)))
            except Exception:
                pass
    return out


def report_native_crashes(chk, marks):
    """re-run each history a dead worker left behind in a process of its own: the process dying on a signal is the
    implementation crashing on that concrete (legal) history"""
    ctx = mp.get_context("fork")
    found = False
    for mk in marks:
        pr = ctx.Process(target=_probe, args=(mk["h"],))
        pr.start()
        pr.join(120)
        if pr.is_alive():
            pr.kill()
            pr.join()
            continue
        if pr.exitcode is not None and pr.exitcode < 0:
            h = mk["h"]
            found = True
            chk.case((h["family"], h["variant"], "native-crash"), True, {"ops": h["ops"][:12]})
            chk.fail("violation", f"native-crash:{h['family']}:{h['variant']}",
                     f"the process running the implementation dies on signal {-pr.exitcode} while serving this "
                     f"history (reproduced in a process of its own): {json.dumps(h['ops'])[:600]}",
                     {"history": h, "source": mk.get("label")})
    return found


def _work(job):
    """job = (label, [history…]) -> results list (picklable)"""
    label, hs = job
    try:
        return _work_inner(label, hs)
    finally:
        _mark(None)


def _work_inner(label, hs):
    out = []
    nshrunk = 0
    for h in hs:
        t0 = time.time()
        _mark(h, label)
        try:
            res = run_history(h)
        except Exception as e:          # harness problem
            out.append({"h": h, "crash": f"{type(e).__name__}: {e}"})
            continue
        fails = res["fails"]
        shrunk = None
        if fails and nshrunk < 3:
            nshrunk += 1
            shrunk = shrink_history(h)
            r2 = run_history(shrunk)
            if r2["fails"]:
                fails = r2["fails"]
            else:
                shrunk = h
        out.append({"h": h, "fails": [(i, op, real, fresh) for i, op, real, fresh in fails],
                    "shrunk": shrunk, "trace": res["trace"], "request": res["request"], "nq": res["nq"],
                    "auto": res.get("auto", False), "t": time.time() - t0})
    return label, out


def exhaustive_histories(variant, depth):
    circuits, alpha = short_alphabet(variant)
    hs = []
    for L in range(1, depth + 1):
        for seq in itertools.product(range(len(alpha)), repeat=L):
            ops = [alpha[i] for i in seq]
            if ops[-1][0] != "q":
                continue
            h = {"family": "backend", "variant": variant, "params": SHORT_PARAMS.get(variant, {}), "subs": SHORT_SUBS,
                 "circuits": circuits, "ops": ops}
            if not legal_backend(h):
                continue
            hs.append(h)
    return hs


DIRECTED = [
    # SLOS: mask change after the input was set; mask re-instantiated for another photon number
    {"family": "backend", "variant": "SLOS", "params": {}, "circuits": short_alphabet("SLOS")[0],
     "ops": [["circ", "A"], ["in", [1, 1]], ["mask", ["1 "], None], ["q", "dist"]]},
    {"family": "backend", "variant": "SLOS", "params": {}, "circuits": short_alphabet("SLOS")[0],
     "ops": [["circ", "A"], ["in", [1, 1]], ["q", "dist"], ["clear"], ["q", "evolve"]]},
    {"family": "backend", "variant": "SLOS", "params": {}, "circuits": short_alphabet("SLOS")[0],
     "ops": [["mask", ["1 "], None], ["circ", "A"], ["in", [1, 0]], ["in", [1, 1]], ["q", "dist"]]},
    {"family": "backend", "variant": "SLOS", "params": {}, "circuits": short_alphabet("SLOS")[0],
     "ops": [["mask", ["1 "], None], ["circ", "A"], ["in", [1, 1]], ["in", [1, 0]], ["q", "allprob"]]},
]


AUTO_FILTER_PROBE = {
    "family": "processor", "variant": "SLOS", "params": {}, "plain_oracle": True,
    "init": {"m": 2, "heralds": {}, "comps": [[0, ["BS", 1.1, 0.4]]]},
    "ops": [["with_input", [1, 1]], ["q", "probs", None], ["with_input", [1, 0]], ["q", "probs", None]]}


def auto_filter_probe(chk):
    """`probs()` on a perfect source stores the automatic photon filter (the photon number of the input at that
    time) as if the user had set it: a later input with fewer photons is filtered out entirely, a fresh processor
    returns a distribution.  tests/test_processor.py::test_processor_samples relies on the stored value (an
    SVDistribution input has no `.n`), so no local repair is proposed."""
    res = run_history(AUTO_FILTER_PROBE, stop_at_first=True)
    chk.case(("processor", "SLOS", "auto-filter-probe"), True, None)
    if res["fails"]:
        chk.fail("violation", "processor-auto-filter-persists",
                 "Processor: the automatic min_detected_photons_filter set by a first probs() persists after "
                 "with_input() of a state with fewer photons: " + describe_fail(res["fails"][0]),
                 {"history": AUTO_FILTER_PROBE})


for _v in BACKENDS:
    for _ops in ([["circ", "A"], ["in", [1, 1]], ["q", "dist"], ["circ", "C"], ["in", [1, 1, 0]], ["q", "dist"]],
                 [["circ", "C"], ["in", [1, 1, 0]], ["q", "evolve"], ["circ", "A"], ["in", [1, 1]], ["q", "evolve"]],
                 [["circ", "A"], ["in", [1, 1]], ["q", "dist"], ["circ", "B"], ["in", [1, 1]], ["q", "dist"],
                  ["in", [2, 0]], ["q", "allprob"], ["circ", "A"], ["in", [1, 1]], ["q", "evolve"]]):
        DIRECTED.append({"family": "backend", "variant": _v, "params": {}, "circuits": short_alphabet(_v)[0],
                         "ops": _ops})


# the whole table through prob_amplitude (the one bulk question every engine, the symbolic SLOS included, answers):
# a circuit of the same size / of another size with the same photon number / a parameter made numeric and symbolic
# again, the earlier inputs asked again afterwards
for _v in BACKENDS + [SYMBOLIC]:
    _sym = [[["circ", "A"], ["in", [1, 1]], ["q", "amps"], ["param", "s0", 2.1], ["in", [1, 1]], ["q", "amps"],
             ["param", "s0", None], ["in", [1, 1]], ["q", "amps"], ["in", [2, 0]], ["q", "amp", [1, 1]]]] \
        if _v == SYMBOLIC else []
    for _ops in [[["circ", "A"], ["in", [1, 1]], ["q", "amps"], ["circ", "B"], ["in", [1, 1]], ["q", "amps"]],
                 [["circ", "B"], ["in", [1, 1]], ["in", [2, 0]], ["q", "amps"], ["circ", "A"], ["in", [2, 0]], ["q", "amps"],
                  ["in", [1, 1]], ["q", "prob", [0, 2]], ["circ", "B"], ["in", [1, 0]], ["q", "amps"]],
                 [["circ", "C"], ["in", [1, 1, 0]], ["q", "amps"], ["circ", "A"], ["in", [1, 1]], ["q", "amps"]],
                 [["circ", "A"], ["in", [1, 1]], ["q", "amps"], ["circ", "C"], ["in", [1, 0, 1]], ["q", "amps"],
                  ["circ", "B"], ["in", [2, 0]], ["q", "amps"], ["in", [1, 1]], ["q", "amp", [2, 0]]]] + _sym:
        DIRECTED.append({"family": "backend", "variant": _v, "params": SHORT_PARAMS.get(_v, {}), "subs": SHORT_SUBS,
                         "circuits": short_alphabet(_v)[0], "ops": _ops})


for _ops in ([["circ", "D"], ["in", [1, 1, 1, 0]], ["q", "dist"], ["in", [1, 1, 0, 0]], ["q", "dist"]],
             [["cutoff", 2], ["circ", "D"], ["in", [1, 1, 1, 0]], ["q", "dist"], ["in", [1, 1, 0, 0]], ["q", "evolve"]],
             [["circ", "D"], ["in", [1, 1, 0, 0]], ["q", "dist"], ["cutoff", 5], ["q", "dist"], ["cutoff", 2],
              ["q", "allprob"]]):
    DIRECTED.append({"family": "backend", "variant": "MPS", "params": {}, "circuits": short_alphabet("MPS")[0],
                     "ops": _ops})


# ------------------------------------------------------------------------------------------------
# systematic stream: one configuration change between two queries
# ------------------------------------------------------------------------------------------------
# Every stale cache needs the same skeleton: a configuration step, a query that fills a cache, another
# configuration step that ought to invalidate it, a query that would read it.  The random histories reach a given
# (step, step, query) triple only by luck, so the triples are enumerated: all ordered pairs of an alphabet of
# configuration steps (every kind of step the family has, several values per kind — among them values that agree
# on a derived quantity such as the number of heralded photons — and the "same object updated in place and given
# again" flavour) x all queries asked twice, plus a sample of pairs of different queries (caches are shared between
# entry points).
_SUP = [[0.6, 0, "|1,1,0>"], [0, 0.8, "|0,1,1>"]]
PAIR_PARAMS = {"a0": 1.1, "a1": 0.8}
PAIR_CIRCUITS = {"c0": {"m": 3, "comps": [["BS", 0, ["p", "a0"], 0.4], ["BS", 1, 0.7, 2.0], ["PS", 0, 0.3],
                                          ["BS", 0, 1.9, 1.1]]},
                 "c1": {"m": 3, "comps": [["BS", 1, 2.3, 1.4], ["PS", 1, 1.3], ["BS", 0, 0.9, 0.2],
                                          ["BS", 1, ["p", "a1"], 0.5]]}}
PAIR_HERALDS = [{"0": 1}, {"2": 1}, {"0": 1, "1": 0}, {"0": 0, "1": 1}, {"1": 1, "2": 1}, {"0": 0}]
PAIR_SIM_STEPS = [["heralds", x] for x in PAIR_HERALDS] + [
    ["clear_heralds"], ["circ", "c1"], ["circ", "c0"], ["param", "a0", 1.7], ["ps", "[1] > 0"], ["clear_ps"],
    ["filter", 1], ["filter", 2], ["keep", False], ["precision", 1e-6]]
PAIR_SIM_QUERIES = [
    ["q", "evolve", [[1, 0, "|1,1,0>"]]],
    ["q", "evolve", _SUP],
    ["q", "probs_svd", [[1.0, _SUP]], "none"],
    ["q", "probs_svd", [[1.0, _SUP]], "th"],
    ["q", "probs_svd", [[0.25, [[1, 0, "|1,1,1>"]]], [0.75, _SUP]], "mix"],
    ["q", "probs", "|1,1,0>"],
    # asked twice in the thorough tier only; in the quick tier they take part in the sampled pairs of queries
    ["q", "probs_svd", [[1.0, [[1, 0, "|1,1,0>"]]]], "none"],
    ["q", "probs_svd", [[1.0, SV_POOL[8]]], "pnr"],
    ["q", "evolve_svd", [[0.5, _SUP], [0.5, [[1, 0, "|2,0,0>"]]]]],
    ["q", "probability", "|1,1,0>", "|0,1,1>"],
    ["q", "amp", "|{_:0},{_:1},0>", "|{_:0},0,{_:1}>"],
    ["q", "probs_sv", _SUP],
    ["q", "evolve_svd", [[0.5, [[1, 0, "|1,0,0>"]]], [0.5, [[1, 0, "|1,1,0>"]]]]],
    ["q", "probability_sv", _SUP, "|1,1,0>"],
    ["q", "amp_sv", _SUP, "|0,1,1>"],
]


def _cp(x):
    return json.loads(json.dumps(x))


def _flavoured_pairs(plain, flavoured_kind):
    """all ordered pairs of steps; the pairs of two steps of `flavoured_kind` also with the caller's object reused
    for both (and for one of them only)"""
    out = [(a, b) for a in plain for b in plain]
    fl = [x for x in plain if x[0] == flavoured_kind and x[1] is not None]
    for a in fl:
        for b in fl:
            out.append((a + ["same"], b + ["same"]))
            out.append((a, b + ["same"]))
    return out


def pairwise_simulator(variant, rng, ncross, nq=None):
    """the first `nq` queries asked twice around every pair of steps; `ncross` sampled (pair, two different queries)"""
    hs = []
    pairs = _flavoured_pairs(PAIR_SIM_STEPS, "heralds")
    base = {"family": "simulator", "variant": variant, "m": 3, "params": PAIR_PARAMS, "circuits": PAIR_CIRCUITS}
    for a, b in pairs:
        for q in PAIR_SIM_QUERIES[:nq]:
            hs.append(dict(base, ops=_cp([["precision", 0], ["circ", "c0"], a, q, b, q])))
    for _ in range(ncross):
        a, b = rng.choice(pairs)
        q1, q2 = rng.sample(PAIR_SIM_QUERIES, 2)
        hs.append(dict(base, ops=_cp([["precision", 0], ["circ", "c0"], a, q1, b, q2])))
    # a query that leaves the heralds mask on the backend, then heralds without photons (or none) and an input with a
    # vacuum member (`use_mask` is not called for it), or a query that uses no mask at all
    vac = [["q", "probs_svd", [[0.5, [[1, 0, "|0,0,0>"]]], [0.5, [[1, 0, "|1,0,0>"]]]], "pnr"],
           ["q", "evolve_svd", [[0.5, [[1, 0, "|0,0,0>"]]], [0.5, [[1, 0, "|0,1,0>"]]]]],
           ["q", "probs", "|1,1,0>"], ["q", "amp", "|1,1,0>", "|0,1,1>"]]
    for a in PAIR_HERALDS[:5]:
        # (an input with fewer photons than the heralds expect instantiates the mask below its own digits: such a
        # mask keeps nothing of a later vacuum input)
        for q1 in (PAIR_SIM_QUERIES[0], PAIR_SIM_QUERIES[2], PAIR_SIM_QUERIES[7],
                   ["q", "probs_svd", [[1.0, [[1, 0, "|1,0,0>"]]]], "pnr"], ["q", "evolve", [[1, 0, "|0,1,0>"]]]):
            for b in (["heralds", {"0": 0}], ["heralds", {"2": 0}], ["clear_heralds"]):
                for q2 in vac:
                    hs.append(dict(base, ops=_cp([["precision", 0], ["circ", "c0"], ["heralds", a], q1, b, q2])))
    # the two questions about a state vector — probability(StateVector, ·) (evolve + a sum) and
    # prob_amplitude(StateVector, ·) (one amplitude per term) — asked again after every kind of step, also with
    # another query in between (whatever the first call kept would be read while the evolve cache is filled again)
    for q in PAIR_SIM_QUERIES[-2:]:
        for a in (["heralds", {"0": 1}], ["clear_heralds"], ["ps", "[1] > 0"]):
            for b in PAIR_SIM_STEPS:
                hs.append(dict(base, ops=_cp([["precision", 0], ["circ", "c0"], a, q, b, q])))
                hs.append(dict(base, ops=_cp([["precision", 0], ["circ", "c0"], a, q, b, PAIR_SIM_QUERIES[1], q])))
    return hs


# c1 and c2 have no variable parameter, c3 has one with the value of c0's: the Stepper's request key (variable
# parameter values, input, filter) is the same before and after such a swap
PAIR_STEP_CIRCUITS = {"c0": {"m": 3, "comps": [["BS", 0, ["p", "a0"], 0.5], ["BS", 1, 0.75, 2.0], ["PS", 0, 0.5]]},
                      "c1": {"m": 3, "comps": [["BS", 1, 2.25, 1.5], ["PS", 1, 1.25], ["BS", 0, 1.0, 0.5]]},
                      "c2": {"m": 3, "comps": [["BS", 0, 1.5, 0.5], ["PS", 1, 0.75], ["BS", 1, 2.0, 1.0]]},
                      "c3": {"m": 3, "comps": [["BS", 1, ["p", "a1"], 1.0], ["PS", 0, 0.5], ["BS", 0, 2.25, 0.5]]}}
PAIR_STEP_PARAMS = {"a0": 1.25, "a1": 1.25}
PAIR_STEP_STEPS = [["circ", "c0"], ["circ", "c1"], ["circ", "c2"], ["circ", "c3"], ["param", "a0", 1.75],
                   ["filter", 0], ["filter", 1], ["filter", 2],
                   ["filter", 3], ["heralds", {"0": 1}], ["heralds", {"2": 1}], ["heralds", {}]]
PAIR_STEP_QUERIES = [["q", "evolve", [[1, 0, "|1,1,0>"]]], ["q", "evolve", _SUP], ["q", "probs", "|1,1,0>"],
                     ["q", "probs_svd", [[0.5, _SUP], [0.5, [[1, 0, "|2,0,0>"]]]], "th"]]


def pairwise_stepper(variant):
    hs = []
    base = {"family": "stepper", "variant": variant, "m": 3, "params": PAIR_STEP_PARAMS, "circuits": PAIR_STEP_CIRCUITS}
    for a, b in _flavoured_pairs(PAIR_STEP_STEPS, "heralds"):
        for q in PAIR_STEP_QUERIES:
            hs.append(dict(base, ops=_cp([["circ", "c0"], a, q, b, q])))
    return hs


PAIR_PROC_COMPS = [[0, ["BS", ["p", "a0"], 0.4]], [1, ["BS", 0.7, 2.0]], [0, ["PS", 0.3]]]


# values for the in-place update: a source parameter, and a phase quantisation that moves the PS(0.3) of the circuit
INPLACE_NOISES = [{"brightness": 0.8}, {"phase_imprecision": 0.25}, {"indistinguishability": 0.6, "phase_imprecision": 0.2}]
PAIR_SVD3 = [[0.75, [[0.6, 0, "|1,1,0>"], [0, 0.8, "|0,1,1>"]]], [0.25, [[1, 0, "|1,0,0>"]]]]
PAIR_SVD3H = [[0.75, [[0.6, 0, "|1,0,1>"], [0, 0.8, "|0,1,1>"]]], [0.25, [[1, 0, "|1,1,1>"]]]]
PAIR_SV3 = [[0.6, 0, "|1,1,0>"], [0.8, 0, "|1,0,1>"]]


def _expand(ops, m, nher):
    """flatten compound steps; ["with_input", "AUTO"] = one photon on every mode of interest left"""
    out = []
    for op in ops:
        for o in (op if isinstance(op[0], list) else [op]):
            o = _cp(o)
            if o[0] == "add_herald":
                nher += 1
            if o[0] == "with_input" and o[1] == "AUTO":
                o[1] = [1] * (m - nher)
            out.append(o)
    return out


def pairwise_processor(variant, with_herald, noise_only):
    heralds = {"2": 1} if with_herald else {}
    ins = [[1, 1], [1, 0], [0, 1]] if with_herald else [[1, 1, 0], [1, 0, 0], [0, 1, 1]]
    steps = [["noise", x] for x in NOISES]
    new = []
    if not noise_only:
        steps += [["with_input", x] for x in ins]
        steps += [["filter", 0], ["filter", 1], ["filter", 2], ["ps", "[0] < 2"], ["clear_ps"], ["param", "a0", 1.9],
                  ["add", 0, ["BS", 0.9, 0.1]], ["add", 1, ["PS", 0.5]], ["det", 0, "th"],
                  ["set_circuit", [[0, ["BS", 1.234, 0.3]], [1, ["BS", 0.8, 0.2]]]]]
        if variant != "MPS":
            steps.append(["add", 0, ["LC", 0.3]])
        # the extended alphabet: a distribution as input (the source is bypassed), a herald declared late (the input
        # is given again), crossed with every step in both orders
        new = [["with_input_svd", PAIR_SVD3H if with_herald else PAIR_SVD3]]
        if not with_herald:
            new += [["with_input_sv", PAIR_SV3],
                    [["add_herald", 1, 1], ["with_input", "AUTO"]], [["add_herald", 0, 0], ["with_input", "AUTO"]]]
    base = {"family": "processor", "variant": variant, "params": PAIR_PARAMS,
            "init": {"m": 3, "heralds": heralds, "comps": PAIR_PROC_COMPS}}
    q = ["q", "samples" if variant == SAMPLER else "probs", None]
    def hist(a, b):
        return dict(base, ops=_expand([["with_input", ins[0]], ["filter", 1], a, q, b, q], 3, len(heralds)))
    hs = [hist(a, b) for a, b in _flavoured_pairs(steps, "noise")]
    ext = [hist(a, b) for a in new for b in steps + new] + [hist(a, b) for a in steps for b in new]
    # the held NoiseModel updated in place and NOT assigned again: the second answer is the first one
    for a in steps:
        if a[0] == "noise" and a[1] is not None:
            for y in INPLACE_NOISES:
                # (a circuit whose phase shifter is followed by a beam splitter: the phase quantisation matters)
                ext.append(dict(hist(a + ["same"], ["noise_inplace", y]),
                                init={"m": 3, "heralds": heralds, "comps": PAIR_PROC_COMPS + [[0, ["BS", 0.9, 0.1]]]}))
    if not noise_only and variant != SAMPLER:
        # a precision given to one call: the calls around it use the default one, whatever lies in between
        for b in steps + new:
            for p1, p2 in ((1e-2, None), (None, 1e-3), (1e-2, 1e-3)):
                ext.append(dict(base, ops=_expand([["with_input", ins[0]], ["filter", 1], ["q", "probs", p1], b,
                                                   ["q", "probs", p2], q], 3, len(heralds))))
    return hs, ext


def pairwise_processor_auto(variant):
    """no explicit photon filter: the automatic one of the first query is stored (open known finding); the fresh
    processor is given the stored value, everything else has to be history-independent"""
    ins = [[1, 1, 0], [1, 0, 0], [0, 1, 1]]
    steps = [["noise", x] for x in PERFECT_NOISES] + [["with_input", x] for x in ins]
    steps += [["ps", "[0] < 2"], ["clear_ps"], ["param", "a0", 1.9], ["add", 0, ["BS", 0.9, 0.1]], ["det", 0, "th"],
              ["set_circuit", [[0, ["BS", 1.234, 0.3]], [1, ["BS", 0.8, 0.2]]]], ["filter", 1],
              [["add_herald", 1, 1], ["with_input", "AUTO"]], [["add_herald", 0, 0], ["with_input", "AUTO"]]]
    base = {"family": "processor", "variant": variant, "params": PAIR_PARAMS,
            "init": {"m": 3, "heralds": {}, "comps": PAIR_PROC_COMPS}}
    q = ["q", "samples" if variant == SAMPLER else "probs", None]
    return [dict(base, ops=_expand([["with_input", ins[0]], a, q, b, q], 3, 0)) for a in steps for b in steps]


def _chunks(hs, n):
    return [hs[k::n] for k in range(n) if hs[k::n]]


def run(chk: core.Check):
    chk.rule = ("distinct (family, engine, sequence of operation kinds) histories containing at least one "
                "configuration change after a first query and a later query")
    chk.assumptions = [
        "numbers are compared between the long-lived object and a freshly constructed one (the property itself), "
        "tolerance 1e-9 + 1e-9|x|; the Lean model carries provenance (which configuration an answer belongs to), "
        "not the numbers",
        "legal histories only: a mask has the length of the circuit it meets; backend parameter changes are followed "
        "by set_circuit (the backend snapshots the unitary); Simulator histories keep one circuit size; a mutable "
        "argument (mask list, heralds dict, NoiseModel) updated in place is always handed over again before the next "
        "query (an in-place update the object is never told about is not a legal operation) — except the NoiseModel a "
        "Processor holds: updated in place and NOT assigned again, every answer has to be the one for the values at "
        "the last assignment; after Processor.add_herald a Fock-state input is given again before the next query",
        "Processor histories without an explicit photon filter: the automatic value stored by the first query (open "
        "known finding, reported by its own probe) is given explicitly to the fresh processor",
        "Simulator model: masked and unmasked evaluation agree after herald post-selection (C04); "
        "Stepper model: describe() is injective on the parameter values used",
        "exqalibur kernels are deterministic functions of their arguments",
        "Processor.samples: compared with a fresh processor = everything the call hands to the NoisySamplingSimulator "
        "it creates (circuit unitary, filter, post-selection, heralds, detectors, input distribution of the provider) "
        "and exception classes; the drawn samples are random and not compared (C09 owns their law); the sampling "
        "engine (Clifford & Clifford) is assumed to keep nothing but the circuit and the input it is given",
    ]
    chk.required_branches = ["query-after-reconfiguration", "same-size-circuit-swap", "other-size-circuit",
                             "mask-after-input", "photon-number-change-under-mask", "exception-output",
                             "processor-noise-change-after-probs", "simulator-detector-mode-change",
                             "stepper-filter-change", "mps-cutoff-change", "exhaustive-short",
                             "pairwise-simulator", "pairwise-stepper", "pairwise-processor",
                             "simulator-reherald-same-photon-count-requery",
                             "same-object-updated-in-place-and-given-again:backend",
                             "same-object-updated-in-place-and-given-again:simulator",
                             "same-object-updated-in-place-and-given-again:stepper",
                             "same-object-updated-in-place-and-given-again:processor",
                             "simulator-mask-free-query-after-masked-query", "simulator-evolve-svd-filtered-vector",
                             "processor-herald-declared-after-query", "processor-distribution-input-then-noise",
                             "processor-noise-updated-in-place-not-assigned-then-query",
                             "processor-precision-then-default", "processor-automatic-filter-stored-then-requery",
                             "same-size-swap-earlier-input-asked-again",
                             "symbolic-slos-same-size-swap-earlier-input-asked-again",
                             "symbolic-slos-parameter-left-symbolic",
                             "other-size-circuit-same-photon-number-amplitude-query",
                             "stepper-other-circuit-same-request-key-asked-again",
                             "processor-samples-after-reconfiguration", "pairwise-processor-samples",
                             "processor-samples-automatic-filter-stored-then-requery",
                             "processor-samples-noise-change-between-calls",
                             "processor-samples-distribution-input",
                             "simulator-state-vector-amplitude-after-masked-query",
                             "simulator-state-vector-probability-after-earlier-query",
                             "simulator-state-vector-query-asked-again-after-step"]
    seed_rng = chk.rng
    jobs = []
    # corpus first
    corpus = load_corpus()
    if corpus:
        jobs.append(("corpus", corpus))
    jobs.append(("directed", DIRECTED))
    depth = chk.pick(4, 5)
    for v in BACKENDS + [SYMBOLIC]:
        hs = exhaustive_histories(v, depth)
        n = 8
        for k in range(n):
            jobs.append((f"exhaustive:{v}", hs[k::n]))
    nrand = chk.pick(36, 260)
    nops = chk.pick(25, 80)
    for v in BACKENDS + [SYMBOLIC]:
        hs = [gen_backend(random.Random(seed_rng.getrandbits(64)), v, random.Random(seed_rng.getrandbits(32)).randint(8, nops),
                          4 if v == "MPS" else (3 if v == SYMBOLIC else chk.pick(3, 4))) for _ in range(nrand)]
        for k in range(4):
            jobs.append((f"random:backend:{v}", hs[k::4]))
    nsim = chk.pick(40, 160)
    for v in ["SLOS", "Naive", "SLAP"]:
        hs = [gen_simulator(random.Random(seed_rng.getrandbits(64)), v, random.Random(seed_rng.getrandbits(32)).randint(8, nops))
              for _ in range(nsim)]
        for k in range(2):
            jobs.append((f"random:simulator:{v}", hs[k::2]))
    for v in ["SLOS", "Naive"]:
        hs = [gen_stepper(random.Random(seed_rng.getrandbits(64)), v, random.Random(seed_rng.getrandbits(32)).randint(6, min(nops, 30)))
              for _ in range(chk.pick(30, 96))]
        for k in range(6):
            jobs.append((f"random:stepper:{v}", hs[k::6]))
    for v in ["SLOS", "Naive", "MPS", SAMPLER]:
        hs = [gen_processor(random.Random(seed_rng.getrandbits(64)), v, random.Random(seed_rng.getrandbits(32)).randint(8, min(nops, 40)))
              for _ in range(chk.pick(30, 120))]
        hs += [gen_processor(random.Random(seed_rng.getrandbits(64)), v, random.Random(seed_rng.getrandbits(32)).randint(8, min(nops, 30)),
                             auto=True) for _ in range(chk.pick(12, 48))]
        for k in range(2):
            jobs.append((f"random:processor:{v}", hs[k::2]))

    # the enumerated stream is complete for SLOS (cheapest engine) in both tiers and for every engine in the thorough
    # tier; in the quick tier the engines whose amplitudes cost a native call each get one residue class of it
    def part_of(hs, stride):
        if chk.thorough or stride == 1:
            return hs
        return hs[seed_rng.randrange(stride)::stride]
    for v, stride in (("SLOS", 1), ("Naive", 8), ("SLAP", 4)):
        hs = part_of(pairwise_simulator(v, random.Random(seed_rng.getrandbits(64)), chk.pick(300, 2000),
                                        chk.pick(6, None)), stride)
        for part in _chunks(hs, chk.pick(6, 12)):
            jobs.append((f"pairwise:simulator:{v}", part))
    for v, stride in (("SLOS", 1), ("Naive", 3)):
        for part in _chunks(part_of(pairwise_stepper(v), stride), 6):
            jobs.append((f"pairwise:stepper:{v}", part))
    for v, stride in (("SLOS", 1), ("Naive", 3), ("MPS", 2), (SAMPLER, 1)):
        h0, e0 = pairwise_processor(v, False, False)
        h1, e1 = pairwise_processor(v, True, chk.pick(True, False))
        # the extended alphabet (distribution inputs, late heralds, in-place noise, precisions): complete in the
        # thorough tier, one residue class of it in the quick tier
        ext = e0 + e1
        random.Random(seed_rng.getrandbits(64)).shuffle(ext)
        hs = part_of(h0 + h1, stride) + part_of(ext, 3 * stride)
        for part in _chunks(hs, 6):
            jobs.append((f"pairwise:processor:{v}", part))
    for v, stride in (("SLOS", 2), ("Naive", 8), (SAMPLER, 1)):
        for part in _chunks(part_of(pairwise_processor_auto(v), stride), 3):
            jobs.append((f"pairwise:processor-auto:{v}", part))
    jobs.sort(key=lambda j: (j[0] not in ("corpus", "directed"), -len(j[1])))         # largest jobs first

    global _MARK_DIR
    _MARK_DIR = tempfile.mkdtemp(prefix="c05-marks-")
    ctx = mp.get_context("fork")
    try:
        with ctx.Pool(min(14, os.cpu_count() or 4)) as pool:
            # a worker killed by a native crash makes the pool wait for ever: watch for workers that disappeared
            # while running a history, and report that history
            pending = pool.map_async(_work, jobs, chunksize=1)
            # (the limit only has to tell a hang from a slow run: on a machine shared with many other jobs the same
            # work takes several times its usual 60 s / 9 min)
            deadline = time.time() + chk.pick(480, 1700)
            marks = []
            while not pending.ready():
                pending.wait(2)
                if pending.ready():
                    break
                marks = dead_worker_histories()
                if marks or time.time() > deadline:
                    break
            if not pending.ready():
                pool.terminate()
                if marks and report_native_crashes(chk, marks):
                    return          # the run stops here (a violation outranks the generator statistics)
                raise RuntimeError("a worker process did not return (native crash of exqalibur that could not be "
                                   "reproduced, or a hang) — harness problem")
            results = pending.get()
    finally:
        shutil.rmtree(_MARK_DIR, ignore_errors=True)
        _MARK_DIR = None

    auto_filter_probe(chk)
    chk.lean = core.LeanDriver("C05")
    all_items = []
    for label, out in results:
        for item in out:
            all_items.append((label, item))
    # one batched conversation with the model
    reqs = [item["request"] for _, item in all_items if "request" in item]
    replies = iter(chk.lean.ask_many(reqs))
    reported = set()
    confirmed = set()
    disagreements = []
    n_exh = 0
    secs = {}
    for label, item in all_items:
        h = item["h"]
        if "crash" in item:
            raise RuntimeError(f"harness crashed on {json.dumps(h)[:400]}: {item['crash']}")
        reply = next(replies)
        account(chk, label, h, item)
        if label.startswith("exhaustive"):
            n_exh += 1
        secs[label.split(":")[0] + ":" + h["family"]] = secs.get(label.split(":")[0] + ":" + h["family"], 0) + item.get("t", 0)
        if item["fails"]:
            if item["shrunk"] is None:
                chk.count("further_failing_histories_not_shrunk", label)
                continue
            sh = item["shrunk"]
            f = item["fails"][0]
            sig = fail_sig(sh, f)
            if sig not in reported:
                reported.add(sig)
                confirmed.add((h["family"], h["variant"]))
                chk.fail("violation", sig, describe_fail(f), {"history": sh, "original": h, "source": label})
            continue
        diffs = compare_model(chk, h, item, reply)
        if diffs:
            disagreements.append((h, label, diffs))
    # the failing inputs first; a model / code disagreement is reported after them
    for h, label, diffs in disagreements:
        sig = "model:" + h["family"] + ":" + h["variant"] + ":" + diffs[0][0]
        if sig not in reported:
            reported.add(sig)
            note = ""
            if (h["family"], h["variant"]) in confirmed:
                note = " (a failing input for this object and engine is reported separately by this run)"
            chk.fail("broken", sig, "model and code disagree, the fresh-object oracle does not fail on this history"
                     + note + ": " + diffs[0][1], {"history": h, "source": label})
    if n_exh:
        chk.branch("exhaustive-short", n_exh)
    chk.extra["cpu_seconds_by_stream"] = {k: round(v, 1) for k, v in secs.items()}
    chk.exhaustive = False   # the short histories are exhaustive over a reduced alphabet only
    chk.extra["exhaustive_short"] = {"depth": depth, "alphabet": [json.dumps(a) for a in short_alphabet("MPS")[1]],
                                     "histories": n_exh}


def account(chk, label, h, item):
    ops = h["ops"]
    kinds = [o[0] if o[0] != "q" else "q:" + o[1] for o in ops]
    fam = h["family"]
    chk.count("family", fam + ":" + h["variant"])
    chk.count("history_length", min(len(ops) // 10 * 10, 80))
    for k in kinds:
        chk.count("op:" + fam, k)
    seen_q = False
    reconf = False
    later_q = False
    for o in ops:
        if o[0] == "q":
            if reconf:
                later_q = True
            seen_q = True
        elif seen_q:
            reconf = True
    if later_q:
        chk.branch("query-after-reconfiguration")
    for t in item.get("trace", []):
        if t.get("status", "").startswith("exc:"):
            chk.branch("exception-output")
            break
    if fam == "backend":
        m = None
        inp = None
        masked = False
        sym = h["variant"] == SYMBOLIC
        asked = set()       # inputs answered for since the engine was last emptied (other size, mask change)
        before = {}         # … those answered for before a step that keeps the size: input -> kind of step
        last_n = {}         # photon number of the last input answered for, per circuit size
        for o in ops:
            if o[0] == "circ":
                m2 = h["circuits"][o[1]]["m"]
                if m is not None:
                    chk.branch("same-size-circuit-swap" if m2 == m else "other-size-circuit")
                if m2 == m:
                    before.update({s: "swap" for s in asked})
                else:
                    asked, before = set(), {}
                m, inp = m2, None
            elif o[0] == "param" and m is not None:
                before.update({s: "param" for s in asked})
                inp = None
            elif o[0] == "in" and m is not None and len(o[1]) == m:
                if masked and inp is not None and sum(inp) != sum(o[1]):
                    chk.branch("photon-number-change-under-mask")
                inp = o[1]
            elif o[0] == "mask":
                if inp is not None:
                    chk.branch("mask-after-input")
                masked = True
                asked, before = set(), {}
            elif o[0] == "clear":
                masked = False
                asked, before = set(), {}
            elif o[0] == "cutoff" and inp is not None:
                chk.branch("mps-cutoff-change")
            elif o[0] == "q" and inp is not None and (not sym or o[1] in ("amp", "prob", "amps")):
                if tuple(inp) in before:
                    # an input answered for, a circuit of the same size (or a parameter change), the same input again
                    chk.branch("same-size-swap-earlier-input-asked-again")
                    if sym:
                        chk.branch("symbolic-slos-same-size-swap-earlier-input-asked-again")
                        if any(v is None for v in h["params"].values()):
                            chk.branch("symbolic-slos-parameter-left-symbolic")
                if any(mm != m and n == sum(inp) for mm, n in last_n.items()) and o[1] in ("amp", "prob", "amps", "evolve"):
                    chk.branch("other-size-circuit-same-photon-number-amplitude-query")
                asked.add(tuple(inp))
                last_n[m] = sum(inp)
    if label.startswith("pairwise"):
        chk.branch("pairwise-" + fam)
    # the caller's own mutable argument (mask list / heralds dict / NoiseModel) updated in place and given again,
    # with a query before and a query after the second hand-over
    flav = {"backend": "mask", "simulator": "heralds", "stepper": "heralds", "processor": "noise"}[fam]
    given, q_since, pending = 0, False, False
    rnd = label.startswith("random")        # the enumerated stream has these shapes by construction
    for o in ops if rnd else []:
        if o[0] == "q":
            q_since = True
            if pending:
                chk.branch("same-object-updated-in-place-and-given-again:" + fam)
                pending = False
        elif o[0] == flav and o[-1] == "same":
            if given and q_since:
                pending = True
            given += 1
            q_since = False
    if fam == "processor" and h["variant"] == SAMPLER:
        if label.startswith("pairwise"):
            chk.branch("pairwise-processor-samples")
        q, reconf, noise_since, svd_in = False, False, False, False
        answered = {t["i"] for t in item.get("trace", []) if t.get("status") == "res"}
        for idx, o in enumerate(ops):
            if o[0] == "q" and o[1] == "samples" and idx not in answered:
                chk.count("processor_samples_queries", "refused-by-both-or-not-followed")
            elif o[0] == "q" and o[1] == "samples":
                chk.count("processor_samples_queries", "answered")
                if q and reconf:
                    chk.branch("processor-samples-after-reconfiguration")
                if q and noise_since:
                    chk.branch("processor-samples-noise-change-between-calls")
                if q and item.get("auto"):
                    chk.branch("processor-samples-automatic-filter-stored-then-requery")
                if svd_in:
                    chk.branch("processor-samples-distribution-input")
                q, reconf, noise_since = True, False, False
            elif o[0] != "q":
                reconf = True
                if o[0] == "noise":
                    noise_since = True
                if o[0] in ("with_input_svd", "with_input_sv"):
                    svd_in = True
                elif o[0] == "with_input":
                    svd_in = False
    if fam == "processor":
        q = False
        svd_in = False
        dirty = False
        prec = False
        for o in ops:
            if o[0] == "q":
                if dirty:
                    chk.branch("processor-noise-updated-in-place-not-assigned-then-query")
                if prec and o[2] is None:
                    chk.branch("processor-precision-then-default")
                prec = o[2] is not None
                if q and item.get("auto"):
                    chk.branch("processor-automatic-filter-stored-then-requery")
                q = True
            elif o[0] == "noise":
                dirty = False
                if q:
                    chk.branch("processor-noise-change-after-probs")
                if svd_in and q:
                    chk.branch("processor-distribution-input-then-noise")
            elif o[0] == "noise_inplace":
                dirty = True
            elif o[0] in ("with_input_svd", "with_input_sv"):
                svd_in = True
            elif o[0] == "with_input":
                svd_in = False
            elif o[0] == "add_herald" and q:
                chk.branch("processor-herald-declared-after-query")
    if fam == "simulator":
        last = None
        her, masked, filt = {}, False, 0
        asked_before = False
        sv_asked = {}
        for o in ops:
            if o[0] != "q":
                sv_asked = {k: "step" for k in sv_asked}
            if o[0] == "q" and o[1] == "probs_svd":
                mode = o[3] in ("none", "pnr")
                if last is not None and last != mode:
                    chk.branch("simulator-detector-mode-change")
                last = mode
            # a query that leaves the heralds mask on the backend, then one that must not run under it
            if o[0] == "heralds":
                her = dict(o[1])
            elif o[0] == "clear_heralds":
                her = {}
            elif o[0] == "filter":
                filt = o[1]
            elif o[0] == "q":
                if o[1] in ("probs", "probability", "amp", "amp_sv") and masked:
                    chk.branch("simulator-mask-free-query-after-masked-query")
                    if o[1] == "amp_sv":
                        chk.branch("simulator-state-vector-amplitude-after-masked-query")
                if o[1] == "probability_sv" and asked_before:
                    chk.branch("simulator-state-vector-probability-after-earlier-query")
                if o[1] in ("probability_sv", "amp_sv"):
                    if sv_asked.get(json.dumps(o)) == "step":
                        chk.branch("simulator-state-vector-query-asked-again-after-step")
                    sv_asked[json.dumps(o)] = "asked"
                asked_before = True
                if her and (o[1] in ("evolve", "evolve_svd", "probs_sv", "probability_sv")
                            or (o[1] == "probs_svd" and o[3] in ("none", "pnr"))):
                    masked = True
                elif o[1] in ("probs", "probability", "amp", "amp_sv"):
                    masked = False
                if o[1] == "evolve_svd" and filt + sum(her.values()) > min(photons(t[2]) for _, terms in o[2] for t in terms):
                    chk.branch("simulator-evolve-svd-filtered-vector")
        # the same question through the evolved-state cache before and after a change of heralds that keeps the
        # number of heralded photons (other modes / swapped expectations), the circuit untouched in between
        seen = {}
        epoch, cur = 0, {}
        for o in ops:
            if o[0] in ("circ", "param"):
                epoch += 1
            elif o[0] == "heralds":
                cur = dict(o[1])
            elif o[0] == "clear_heralds":
                cur = {}
            elif o[0] == "q" and o[1] in ("evolve", "evolve_svd", "probs_svd"):
                key = json.dumps(o)
                if key in seen:
                    e0, h0 = seen[key]
                    if rnd and e0 == epoch and h0 != cur and sum(h0.values()) == sum(cur.values()) > 0:
                        chk.branch("simulator-reherald-same-photon-count-requery")
                seen[key] = (epoch, cur)
    if fam == "stepper":
        q = False
        values = dict(h["params"])

        def varlist(cid):
            return [values[a[1]] for comp in h["circuits"][cid]["comps"] for a in comp[2:] if isinstance(a, list)]
        cur = None
        last = None         # (question, circuit, its variable parameter values) of the last query
        only_circ = False   # nothing but set_circuit since
        for o in ops:
            if o[0] == "q":
                q = True
                if last is not None and cur is not None and only_circ and last[0] == json.dumps(o) and last[1] != cur \
                        and last[2] == varlist(cur):
                    # the request key of `Stepper.compile` (variable parameter values, input, filter) is the one of
                    # the previous request although the circuit is another one
                    chk.branch("stepper-other-circuit-same-request-key-asked-again")
                    if rnd:
                        chk.count("stepper_same_key_requery_random", h["variant"])
                last = (json.dumps(o), cur, varlist(cur) if cur is not None else None)
                only_circ = True
            elif o[0] == "circ":
                cur = o[1]
            else:
                only_circ = False
                if o[0] == "param":
                    values[o[1]] = o[2]
                if o[0] in ("filter", "heralds") and q:
                    chk.branch("stepper-filter-change")
    sig = (fam, h["variant"], tuple(kinds))
    chk.case(sig, later_q, {"family": fam, "variant": h["variant"], "ops": ops[:12]} if later_q else None)
    chk.evaluations += max(0, item.get("nq", 1) - 1)


def load_corpus():
    out = []
    for p in sorted(glob.glob(os.path.join(core.VERIF, "corpus", "C05", "*.json"))):
        d = json.load(open(p))
        out.append(d["history"] if "history" in d else d)
    return out


def replay(chk: core.Check, data):
    chk.rule = "replay of one recorded history"
    rp = data.get("replay", data)
    h = rp.get("history", rp)
    res = run_history(h, stop_at_first=False)
    chk.lean = core.LeanDriver("C05")
    reply = chk.lean.ask(res["request"])
    chk.case((h["family"], h["variant"], "replay"), True, {"ops": h["ops"][:12]})
    if res["fails"]:
        f = res["fails"][0]
        chk.fail("violation", fail_sig(h, f), describe_fail(f), {"history": h})
        return
    diffs = compare_model(chk, h, res, reply)
    if diffs:
        chk.fail("broken", "model:" + h["family"] + ":" + diffs[0][0], diffs[0][1], {"history": h})
