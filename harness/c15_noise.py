"""
C15, extension 8 — the validation layer of `NoiseModel` (Lean: Model/C15Noise.lean, Props/C15.lean namespace NoiseC).

Per case: keyword arguments of `NoiseModel(...)` (numbers inside, on and just outside the ranges) and a history of
`set_value(name, value)` calls (known and unknown names, numbers into the bool field, values outside the ranges):
  * which calls raise, and what (ValueError / TypeError / KeyError)           == model `ctor` / `step`
  * `nm.__dict__()` after the history (order, exact values)                    == model state
  * the JSON payload of `serialize(nm)` (key order, exact values)              == model `encNoise`
  * direct oracle on the real objects (no model): `deserialize(serialize(nm))` does not raise, `== nm` (native
    `__eq__`), has the same `__dict__()` and the same seven property values.
Tampered payloads (one defect each: a value outside its range, an unknown key, a number in the bool field) go to the
real reader and to the model's `decV`.
"""
from __future__ import annotations

import json
import math
from fractions import Fraction

FLOATS = ["brightness", "indistinguishability", "g2", "transmittance", "phase_imprecision", "phase_error"]
ALL = ["brightness", "indistinguishability", "g2", "g2_distinguishable", "transmittance", "phase_imprecision",
       "phase_error"]
DEFAULTS = {"brightness": 1, "indistinguishability": 1, "g2": 0, "transmittance": 1, "phase_imprecision": 0,
            "phase_error": 0}
PI_UP = math.nextafter(math.pi, 4.0)
BROKEN = "model-vs-code:noise-validation"
VIOLATION = "noise-history-roundtrip"
PREFIX = ":PCVL:NoiseModel:"


def good_value(rng, k):
    if k == "phase_imprecision":
        return rng.choice([0, 0.0, 1e-3, 2.5, 1e6, round(rng.random() * 10, 3)])
    if k == "phase_error":
        return rng.choice([0, 0.0, 0.02, math.pi, math.pi / 2, 3, round(rng.random() * 3, 4)])
    return rng.choice([0, 1, 0.0, 1.0, 0.5, 1e-9, -0.0, 0.9999999999999999, round(rng.random(), 4), rng.random()])


def bad_value(rng, k):
    if k == "phase_imprecision":
        return rng.choice([-1e-3, -1, -1e-300])
    if k == "phase_error":
        return rng.choice([PI_UP, 3.2, 4, -0.1])
    return rng.choice([1.0000000000000002, 2, -1e-12, -1, 1.5])


def gen_case(rng):
    args = {}
    for k in ALL:
        if rng.random() < 0.35:
            args[k] = (rng.random() < 0.5) if k == "g2_distinguishable" else good_value(rng, k)
    if rng.random() < 0.12:
        k = rng.choice(FLOATS)
        args[k] = bad_value(rng, k)
    ops = []
    for _ in range(rng.choice([0, 1, 2, 3, 5, 8])):
        r = rng.random()
        if r < 0.15:
            ops.append(["g2_distinguishable", rng.random() < 0.5])
        elif r < 0.22:
            ops.append(["g2_distinguishable", rng.choice([0, 1, 0.5])])
        elif r < 0.32:
            ops.append([rng.choice(["g3", "Brightness", "", "phase", "g2 "]), rng.choice([0, 1, 0.5])])
        else:
            k = rng.choice(FLOATS)
            r2 = rng.random()
            ops.append([k, DEFAULTS[k] if r2 < 0.2 else bad_value(rng, k) if r2 < 0.45 else good_value(rng, k)])
    return {"args": args, "ops": ops, "how": rng.choice(["plain", "zip", "list"])}


def fixed_cases():
    """the ends of the ranges, the first double beyond pi, a field put back to its default, every error class"""
    return [
        {"args": {"phase_error": math.pi, "brightness": 0, "g2": 1}, "ops": [], "how": "plain"},
        {"args": {}, "ops": [["phase_error", PI_UP], ["phase_error", math.pi], ["phase_error", 0]], "how": "zip"},
        {"args": {"brightness": 0.5}, "ops": [["brightness", 1], ["g2", 0], ["g2_distinguishable", True]], "how": "list"},
        {"args": {"g2": 0.1}, "ops": [["g2", 2], ["g3", 0], ["g2_distinguishable", 1], ["g2_distinguishable", False]],
         "how": "plain"},
        {"args": {"transmittance": 1.0000000000000002}, "ops": [], "how": "plain"},
    ]


def jv(v):
    if isinstance(v, bool):
        return v
    f = Fraction(v)
    return str(f.numerator) if f.denominator == 1 else f"{f.numerator}/{f.denominator}"


def kvs(d):
    return [[k, jv(v)] for k, v in d]


def request(c):
    return {"op": "noisehist", "args": kvs(c["args"].items()),
            "ops": [["bool", v] if isinstance(v, bool) else ["num", k, jv(v)] for k, v in c["ops"]]}


def judge(c, m, counter):
    from perceval.utils import NoiseModel
    from perceval.serialization import serialize, deserialize

    def hit(k):
        counter[k] = counter.get(k, 0) + 1

    tag = f"NoiseModel({c['args']}) + set_value{c['ops']}"
    # ---- the real code
    try:
        nm = NoiseModel(**c["args"])
        ctor = "ok"
    except (ValueError, TypeError) as ex:
        nm, ctor = None, type(ex).__name__
    raised = []
    text = nm2 = None
    if nm is not None:
        for i, (k, v) in enumerate(c["ops"]):
            before = list(nm.__dict__().items())
            try:
                nm.set_value(k, v)
            except (ValueError, TypeError, KeyError) as ex:
                raised.append([i, type(ex).__name__])
                if list(nm.__dict__().items()) != before:
                    return "violation", VIOLATION, f"{tag}: the raising call #{i} changed the object"
        plain = serialize(nm, compress=False)
        text = plain if c["how"] == "plain" else serialize(nm, compress=True) if c["how"] == "zip" \
            else serialize([nm, "x"], compress=False)
        # ---- direct oracle, no model
        try:
            nm2 = deserialize(text)
        except (ValueError, TypeError) as ex:
            return ("violation", VIOLATION,
                    f"{tag}: written as {plain!r}, the reader raises {type(ex).__name__}: {ex}")
        if c["how"] == "list":
            if not (isinstance(nm2, list) and len(nm2) == 2 and nm2[1] == "x"):
                return "violation", VIOLATION, f"{tag}: the list around the noise model came back as {nm2!r}"
            nm2 = nm2[0]
        if not isinstance(nm2, NoiseModel):
            return "violation", VIOLATION, f"{tag}: rebuilt object is a {type(nm2).__name__}"
        if not (nm2 == nm) or list(nm2.__dict__().items()) != list(nm.__dict__().items()):
            return "violation", VIOLATION, f"{tag}: {nm.__dict__()} came back as {nm2.__dict__()}"
        for k in ALL:
            if getattr(nm2, k) != getattr(nm, k) or type(getattr(nm2, k)) is not type(getattr(nm, k)):
                return "violation", VIOLATION, f"{tag}: {k} = {getattr(nm, k)!r} came back as {getattr(nm2, k)!r}"
    # ---- the model
    if m.get("ctor") != ctor:
        return "broken", BROKEN, f"{tag}: constructor {ctor}, model {m.get('ctor')}"
    if nm is None:
        hit("noisec-ctor-rejects")
        return None
    if m["raised"] != raised:
        return "broken", BROKEN, f"{tag}: raising calls {raised}, model {m['raised']}"
    if not m["same"]:
        return "broken", BROKEN, f"{tag}: the driver's loop and the model's runOps disagree"
    for _, e in raised:
        hit({"ValueError": "noisec-set-rejected-value", "KeyError": "noisec-set-keyerror",
             "TypeError": "noisec-set-typeerror"}[e])
    st = kvs(nm.__dict__().items())
    if st != m["state"]:
        return "broken", BROKEN, f"{tag}: __dict__() = {st}, model {m['state']}"
    if not plain.startswith(PREFIX):
        return "broken", BROKEN, f"{tag}: unexpected envelope {plain[:24]!r}"
    pairs = json.loads(plain[len(PREFIX):], object_pairs_hook=list)
    if kvs(pairs) != m["enc"]:
        return "broken", BROKEN, f"{tag}: payload {pairs}, model {m['enc']}"
    if m["dec"] != kvs(nm2.__dict__().items()):
        return "broken", BROKEN, f"{tag}: rebuilt {nm2.__dict__()}, model {m['dec']}"
    ok_ops = [c["ops"][i] for i in range(len(c["ops"])) if i not in {r[0] for r in raised}]
    if any(k in DEFAULTS and not isinstance(v, bool) and v == DEFAULTS[k] for k, v in ok_ops):
        hit("noisec-reset-to-default")
    if any(k == "phase_error" and v == math.pi for k, v in list(c["args"].items()) + ok_ops):
        hit("noisec-pi-end")
    if any(c["ops"][i][0] == "phase_error" and c["ops"][i][1] == PI_UP for i, _ in raised):
        hit("noisec-pi-next-double-refused")
    hit("noisec-how-" + c["how"])
    hit("noisec-identical")
    return None


def check_tampered(driver, rng, n, counter):
    from perceval.serialization import deserialize
    from perceval.utils import NoiseModel
    reqs, pays = [], []
    for i in range(n):
        d = {}
        for k in ALL:
            if rng.random() < 0.4:
                d[k] = (rng.random() < 0.5) if k == "g2_distinguishable" else good_value(rng, k)
        kind = ["range", "key", "type", "none"][i % 4]
        if kind == "range":
            k = rng.choice(FLOATS)
            d[k] = bad_value(rng, k)
        elif kind == "key":
            d[rng.choice(["g3", "Brightness", "phase"])] = 0.5
        elif kind == "type":
            d["g2_distinguishable"] = rng.choice([0, 1, 0.5])
        pays.append((kind, d))
        reqs.append({"op": "decnoisev", "pb": kvs(d.items())})
    reps = driver.ask_many(reqs)
    for (kind, d), rep in zip(pays, reps):
        if "err" in rep:
            return "broken", BROKEN, f"driver: {rep['err']}", {"pb": d}
        try:
            nm = deserialize(PREFIX + json.dumps(d))
            got = kvs(nm.__dict__().items()) if isinstance(nm, NoiseModel) else repr(nm)
        except (ValueError, TypeError) as ex:
            got = {"raises": type(ex).__name__}
            counter["noisec-reader-rejects"] = counter.get("noisec-reader-rejects", 0) + 1
        counter["noisec-tampered-" + kind] = counter.get("noisec-tampered-" + kind, 0) + 1
        if got != rep["dec"]:
            return "broken", BROKEN, f"payload {json.dumps(d)}: the reader gives {got}, the model {rep['dec']}", {"pb": d}
    return None


def shrink(driver, c, res):
    """drop calls / arguments while the same kind of finding stays"""
    def fails(x):
        rep = driver.ask(request(x))
        if "err" in rep:
            return None
        try:
            r = judge(x, rep, {})
        except Exception:
            return None
        return r if r is not None and r[:2] == res[:2] else None
    best, changed = (c, res), True
    while changed:
        changed = False
        cur = best[0]
        cands = [dict(cur, ops=cur["ops"][:i] + cur["ops"][i + 1:]) for i in range(len(cur["ops"]))]
        cands += [dict(cur, args={k: v for k, v in cur["args"].items() if k != d}) for d in cur["args"]]
        if cur["how"] != "plain":
            cands.append(dict(cur, how="plain"))
        for x in cands:
            r = fails(x)
            if r is not None:
                best, changed = (x, r), True
                break
    return best


def check_cases(driver, cases, counter, do_shrink=True):
    """-> None or (kind, signature, text, case)"""
    for lo in range(0, len(cases), 300):
        chunk = cases[lo:lo + 300]
        reps = driver.ask_many([request(c) for c in chunk])
        for c, m in zip(chunk, reps):
            if "err" in m:
                return "broken", BROKEN, f"driver: {m['err']}", c
            try:
                res = judge(c, m, counter)
            except Exception as ex:
                res = ("broken", BROKEN, f"NoiseModel({c['args']}) + {c['ops']}: {type(ex).__name__}: {ex}")
            if res is not None:
                if do_shrink:
                    c, res = shrink(driver, c, res)
                return res + (c,)
    return None
