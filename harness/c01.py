"""C01 — circuit matrix = ordered product of embedded parts, unitary, assembly-independent.

Correspondence: random construction programs are executed with the real `Circuit` API and, in the
canonical form `add(off, c, merge)` / `barrier`, by the Lean model (`Model/C01.lean`); compared:
`compute_unitary()` (tolerance 1e-9 against the exact product) and the iteration ranges (exactly).
"""
from __future__ import annotations

import copy
import json

import numpy as np

from . import core, gens


# ------------------------------------------------------------------------------------------------
# program generation
# ------------------------------------------------------------------------------------------------
def gen_circ(rng, m, depth, max_ops, malformed=False):
    ops = []
    n_ops = rng.randint(1, max_ops)
    lead = None
    if rng.random() < 0.15:
        lead = gens.gen_leaf(rng, m)
        while gens.leaf_width(lead) != m:
            lead = gens.gen_leaf(rng, m)
    for _ in range(n_ops):
        r = rng.random()
        if r < 0.08:
            ops.append({"op": "barrier"})
            continue
        if r < 0.12 and not (lead is not None and not ops):
            ops.append({"op": "copy"})
            continue
        # what to add
        if depth > 0 and m >= 2 and rng.random() < 0.4:
            k = rng.randint(1, m)
            sub = gen_circ(rng, k, depth - 1, max(1, max_ops // 2))
            width = k
        else:
            leaf = gens.gen_leaf(rng, m)
            sub = {"leaf": leaf}
            width = gens.leaf_width(leaf)
        off = rng.randint(0, m - width)
        how = rng.choice(["add", "add", "fd", "mm"])
        if how == "add":
            ops.append({"op": "add", "off": off, "c": sub, "merge": rng.choice([None, True, False]),
                        "form": rng.choice(["int", "tuple", "list"])})
        else:
            ops.append({"op": how, "off": (None if off == 0 and rng.random() < 0.5 else off), "c": sub})
    if malformed:
        # one out-of-range add somewhere
        leaf = gens.gen_leaf(rng, m)
        w = gens.leaf_width(leaf)
        ops.insert(rng.randint(0, len(ops)), {"op": "add", "off": m - w + rng.randint(1, 2), "c": {"leaf": leaf},
                                              "merge": None, "form": "int"})
    return {"circ": m, "lead": lead, "ops": ops}


def build(expr):
    """-> (perceval object, lean json).  Raises what the real API raises."""
    import perceval as pcvl
    if "leaf" in expr:
        obj = gens.build_leaf(expr["leaf"])
        return obj, {"leaf": obj.m, "U": gens.leaf_matrix_json(obj)}
    m = expr["circ"]
    lops = []
    if expr.get("lead") is not None:
        c = gens.build_leaf(expr["lead"])
        lops.append({"add": 0, "merge": False, "c": {"leaf": c.m, "U": gens.leaf_matrix_json(c)}})
    else:
        c = pcvl.Circuit(m)
    for op in expr["ops"]:
        kind = op["op"]
        if kind == "barrier":
            if isinstance(c, pcvl.Circuit):
                c.barrier()
            else:
                c = pcvl.Circuit(m).add(0, c).barrier()
            lops.append({"barrier": True})
        elif kind == "copy":
            c = c.copy()
        else:
            sub, lsub = build(op["c"])
            if kind == "add":
                off = op["off"]
                rng_ = off if op["form"] == "int" else (
                    tuple(range(off, off + sub.m)) if op["form"] == "tuple" else list(range(off, off + sub.m)))
                if op["merge"] is None:
                    c = c.add(rng_, sub)
                    merge = False
                else:
                    c = c.add(rng_, sub, merge=op["merge"])
                    merge = op["merge"]
                lops.append({"add": off, "merge": bool(merge), "c": lsub})
            elif kind == "fd":
                c = c // (sub if op["off"] is None else (op["off"], sub))
                lops.append({"add": op["off"] or 0, "merge": True, "c": lsub})
            elif kind == "mm":
                if not isinstance(c, pcvl.Circuit):
                    c = pcvl.Circuit(m).add(0, c)
                c = c @ (sub if op["off"] is None else (op["off"], sub))
                lops.append({"barrier": True})
                lops.append({"add": op["off"] or 0, "merge": True, "c": lsub})
    return c, {"circ": m, "ops": lops}


# ------------------------------------------------------------------------------------------------
# direct oracle on the implementation: numpy product of the embedded leaves' own matrices
# ------------------------------------------------------------------------------------------------
def oracle_matrix(lj):
    if "leaf" in lj:
        return np.array(core.unmat(lj["U"]), dtype=complex)
    m = lj["circ"]
    u = np.eye(m, dtype=complex)
    for op in lj["ops"]:
        if "barrier" in op:
            continue
        sub = oracle_matrix(op["c"])
        k = sub.shape[0]
        e = np.eye(m, dtype=complex)
        e[op["add"]:op["add"] + k, op["add"]:op["add"] + k] = sub
        u = e @ u
    return u


def oracle_flat(lj, base=0):
    if "leaf" in lj:
        return [[base, lj["leaf"]]]
    out = []
    for op in lj["ops"]:
        if "barrier" in op:
            out.append([base, lj["circ"]])
        else:
            out.extend(oracle_flat(op["c"], base + op["add"]))
    return out


def observe(expr):
    """Run the real code. -> dict(err=...) or dict(U=..., flat=..., lean=...)"""
    try:
        c, lj = build(expr)
    except (AssertionError, ValueError, RuntimeError, TypeError) as e:
        return {"err": type(e).__name__, "msg": str(e)[:200]}
    u = np.array(c.compute_unitary(), dtype=complex)
    flat = [[r[0], len(r)] for r, _ in c]
    return {"U": u, "flat": flat, "lean": lj, "m": c.m}


def lean_program_of(expr):
    """Lean program for a spec the real API rejects (leaf matrices still come from the real leaves)."""
    def go(e):
        if "leaf" in e:
            obj = gens.build_leaf(e["leaf"])
            return {"leaf": obj.m, "U": gens.leaf_matrix_json(obj)}
        ops = []
        if e.get("lead") is not None:
            obj = gens.build_leaf(e["lead"])
            ops.append({"add": 0, "merge": False, "c": {"leaf": obj.m, "U": gens.leaf_matrix_json(obj)}})
        for op in e["ops"]:
            if op["op"] == "barrier":
                ops.append({"barrier": True})
            elif op["op"] == "copy":
                pass
            else:
                if op["op"] == "mm":
                    ops.append({"barrier": True})
                merge = bool(op.get("merge")) if op["op"] == "add" else True
                ops.append({"add": op["off"] or 0, "merge": merge, "c": go(op["c"])})
        return {"circ": e["circ"], "ops": ops}
    return go(expr)


def depth_of(e):
    if "leaf" in e:
        return 0
    return 1 + max([depth_of(op["c"]) for op in e["ops"] if "c" in op] or [0])


def signature(e):
    if "leaf" in e:
        return ("L", gens.leaf_width(e["leaf"]), e["leaf"]["t"])
    return ("C", e["circ"], e.get("lead") is not None,
            tuple((op["op"], op.get("off"), op.get("merge"), signature(op["c"]) if "c" in op else None)
                  for op in e["ops"]))


def nested_nonzero(e):
    if "leaf" in e:
        return False
    for op in e["ops"]:
        if "c" in op and "circ" in op["c"]:
            if (op.get("off") or 0) > 0 or nested_nonzero(op["c"]):
                return True
    return False


# ------------------------------------------------------------------------------------------------
def judge(chk, expr, lean_reply=None):
    """Compare implementation, model and direct oracle on one program.  Returns a failure tuple or None."""
    obs = observe(expr)
    if "err" in obs:
        lj = lean_program_of(expr)
        rep = lean_reply if lean_reply is not None else chk.lean.ask(lj)
        chk.branch("rejected")
        if "err" in rep:
            return None
        return ("violation", "rejects-admissible-program",
                f"the real API raised {obs['err']} ({obs['msg']}) on a program whose ranges are all admissible",
                {"program": expr})
    rep = lean_reply if lean_reply is not None else chk.lean.ask(obs["lean"])
    if "err" in rep:
        return ("violation", "accepts-inadmissible-program",
                f"the real API accepted a program the model rejects ({rep['err']})", {"program": expr})
    model_u = np.array(core.unmat(rep["U"]), dtype=complex)
    ok_u = model_u.shape == obs["U"].shape and np.allclose(obs["U"], model_u, rtol=core.TOL, atol=core.TOL)
    ok_flat = rep["flat"] == obs["flat"]
    if ok_u and ok_flat:
        # unitarity on the implementation (leaves are unitary by construction)
        if not np.allclose(obs["U"] @ obs["U"].conj().T, np.eye(obs["m"]), atol=1e-8):
            return ("violation", "not-unitary", "compute_unitary() is not unitary", {"program": expr})
        return None
    # disagreement: evaluate the property directly on the implementation
    spec_u = oracle_matrix(obs["lean"])
    spec_flat = oracle_flat(obs["lean"])
    if not np.allclose(obs["U"], spec_u, rtol=core.TOL, atol=core.TOL):
        return ("violation", "matrix-not-product",
                f"compute_unitary() differs from the ordered product of the embedded leaf matrices by "
                f"{float(np.max(np.abs(obs['U'] - spec_u))):.3g}", {"program": expr})
    if obs["flat"] != spec_flat:
        return ("violation", "iteration-ranges",
                f"iteration reports ranges {obs['flat']} but the components were attached at {spec_flat}",
                {"program": expr})
    return ("broken", "model-vs-code", "Lean model and implementation disagree but the direct oracle holds",
            {"program": expr, "lean": rep if len(json.dumps(rep)) < 4000 else "(large)"})


def shrink(chk, expr, sig):
    """Greedy structural shrinking keeping the same failure signature."""
    def fails(e):
        r = judge(chk, e)
        return r is not None and r[1] == sig

    cur = copy.deepcopy(expr)

    def paths(e, pre=()):
        yield pre
        for i, op in enumerate(e["ops"]):
            if "c" in op and "circ" in op["c"]:
                yield from paths(op["c"], pre + (i,))

    def at(e, p):
        for i in p:
            e = e["ops"][i]["c"]
        return e

    budget = 150
    changed = True
    while changed and budget > 0:
        changed = False
        for p in list(paths(cur)):
            node = at(cur, p)
            for i in range(len(node["ops"])):
                if len(node["ops"]) == 1 or budget <= 0:
                    break
                cand = copy.deepcopy(cur)
                del at(cand, p)["ops"][i]
                budget -= 1
                try:
                    ok = fails(cand)
                except Exception:
                    ok = False
                if ok:
                    cur = cand
                    changed = True
                    break
            if changed:
                break
    return cur


def run(chk: core.Check):
    chk.rule = ("random construction programs (add int/tuple/list range, merge yes/no/default, //, //(i,c), @, "
                "barrier, copy, leaf-started circuits, nested sub-circuits; 10% with one inadmissible range); "
                "distinct = distinct (sizes, offsets, operations, nesting) signatures; non-trivial = contains a "
                "nested sub-circuit attached at a non-zero offset somewhere")
    chk.assumptions = ["leaf matrices are taken from each leaf's own compute_unitary() (their correctness is C14)"]
    chk.required_branches = ["merge", "nest", "floordiv", "matmul", "barrier", "copy", "lead-leaf", "rejected"]
    chk.lean = core.LeanDriver("C01")
    rng = chk.rng
    n = chk.pick(500, 12000)
    max_m = chk.pick(6, 9)
    max_depth = chk.pick(3, 5)
    max_ops = chk.pick(10, 24)
    # corpus first
    for expr in load_corpus():
        handle(chk, expr)
    batch = []
    for i in range(n):
        m = rng.randint(1, max_m)
        expr = gen_circ(rng, m, rng.randint(0, max_depth), rng.randint(1, max_ops), malformed=(rng.random() < 0.1))
        batch.append(expr)
    for expr in batch:
        handle(chk, expr)


def count_ops(chk, e):
    if "leaf" in e:
        chk.count("leaf_kind", e["leaf"]["t"])
        return
    if e.get("lead") is not None:
        chk.branch("lead-leaf")
    for op in e["ops"]:
        k = op["op"]
        if k == "add":
            if "circ" in op["c"]:
                chk.branch("merge" if op["merge"] else "nest")
        elif k == "fd":
            chk.branch("floordiv")
        elif k == "mm":
            chk.branch("matmul")
        else:
            chk.branch(k)
        if "c" in op:
            count_ops(chk, op["c"])


def handle(chk, expr):
    count_ops(chk, expr)
    chk.count("m", expr["circ"])
    chk.count("depth", depth_of(expr))
    res = judge(chk, expr)
    chk.case(signature(expr), nontrivial=nested_nonzero(expr),
             sample={"m": expr["circ"], "depth": depth_of(expr),
                     "ops": [(op["op"], op.get("off")) for op in expr["ops"]][:8]})
    if res is not None:
        kind, sig, what, replay = res
        small = shrink(chk, expr, sig)
        chk.fail(kind, sig, what, {"program": small})


def load_corpus():
    import glob
    import os
    out = []
    for p in sorted(glob.glob(os.path.join(core.VERIF, "corpus", "C01", "*.json"))):
        out.append(json.load(open(p))["program"])
    return out


def replay(chk, data):
    chk.lean = core.LeanDriver("C01")
    chk.rule = "replay of one stored program"
    expr = data["replay"]["program"]
    handle(chk, expr)
