"""C01 — circuit matrix = ordered product of embedded parts, unitary, assembly-independent.

Correspondence: random construction programs are executed with the real `Circuit` API and, in the
canonical form `add(off, c, merge)` / `barrier`, by the Lean model (`Model/C01.lean`); compared:
`compute_unitary()` (tolerance 1e-9 against the exact product) and the iteration ranges (exactly).
Histories over a pool of circuit objects (nesting by reference, merge, `//`, `@`, barrier, copy(), leaves bound
to shared variable parameters, set_value / compute_unitary(assign=...)) are sent *as histories* to the Lean heap
model (`Heap`, `World`, driver request {"hist": …}) and run with the real API; every evaluation, iteration and
accept/reject decision is compared; a Python mirror (references resolved, numpy product) is the direct oracle.
Symbolic matrices are evaluated numerically (with values / with symbols substituted afterwards) and compared too.
Histories of the registry machine (`Model/C01Reg.lean`, driver request {"rhist": …}): Parameter objects some of which share a
name, leaves bound to them, the duplicate-name RuntimeError of `Circuit.add` (also in the middle of its loop), assign /
compute_unitary(assign=…), evaluation with undefined parameters, copy() / copy(subs=…); compared after every operation:
outcome class, registry (names, order, object identity), `defined`, parameters of the reachable leaves, values of all
Parameter objects; at every evaluation: the matrix.
Port-range cases (`Model/C01Range.lean`, driver requests {"range": …}, {"lit": …}, {"rcase": …}): `Circuit.add` with an int / tuple /
list argument and `//= (pos, c)`, admissible or wrong in one way; outcome class of every add, the tuples stored in `_components`,
the tuples iteration reports and the matrix are compared with the literal model (assertion chain, mergeRange, slice assignment).
"""
from __future__ import annotations

import copy
import json
import math

import numpy as np

from . import core, gens


# ------------------------------------------------------------------------------------------------
# program generation
# ------------------------------------------------------------------------------------------------
def gen_circ(rng, m, depth, max_ops, malformed=False):
    ops = []
    n_ops = rng.randint(1, max_ops)
    lead = None
    if rng.random() < 0.15:
        lead = gens.gen_leaf(rng, m)
        while gens.leaf_width(lead) != m:
            lead = gens.gen_leaf(rng, m)
    for _ in range(n_ops):
        r = rng.random()
        if r < 0.08:
            ops.append({"op": "barrier"})
            continue
        if r < 0.12 and not (lead is not None and not ops):
            ops.append({"op": "copy"})
            continue
        # what to add
        if depth > 0 and m >= 2 and rng.random() < 0.4:
            k = rng.randint(1, m)
            sub = gen_circ(rng, k, depth - 1, max(1, max_ops // 2))
            width = k
        else:
            leaf = gens.gen_leaf(rng, m)
            sub = {"leaf": leaf}
            width = gens.leaf_width(leaf)
        off = rng.randint(0, m - width)
        how = rng.choice(["add", "add", "fd", "mm"])
        if how == "add":
            ops.append({"op": "add", "off": off, "c": sub, "merge": rng.choice([None, True, False]),
                        "form": rng.choice(["int", "tuple", "list"])})
        else:
            ops.append({"op": how, "off": (None if off == 0 and rng.random() < 0.5 else off), "c": sub})
    if malformed:
        # one out-of-range add somewhere
        leaf = gens.gen_leaf(rng, m)
        w = gens.leaf_width(leaf)
        ops.insert(rng.randint(0, len(ops)), {"op": "add", "off": m - w + rng.randint(1, 2), "c": {"leaf": leaf},
                                              "merge": None, "form": "int"})
    return {"circ": m, "lead": lead, "ops": ops}


_LEAF_BUILDER = [gens.build_leaf]


def build(expr):
    """-> (perceval object, lean json).  Raises what the real API raises."""
    import perceval as pcvl
    if "leaf" in expr:
        obj = _LEAF_BUILDER[0](expr["leaf"])
        return obj, {"leaf": obj.m, "U": gens.leaf_matrix_json(obj)}
    m = expr["circ"]
    lops = []
    if expr.get("lead") is not None:
        c = _LEAF_BUILDER[0](expr["lead"])
        lops.append({"add": 0, "merge": False, "c": {"leaf": c.m, "U": gens.leaf_matrix_json(c)}})
    else:
        c = pcvl.Circuit(m)
    for op in expr["ops"]:
        kind = op["op"]
        if kind == "barrier":
            if isinstance(c, pcvl.Circuit):
                c.barrier()
            else:
                c = pcvl.Circuit(m).add(0, c).barrier()
            lops.append({"barrier": True})
        elif kind == "copy":
            c = c.copy()
        else:
            sub, lsub = build(op["c"])
            if kind == "add":
                off = op["off"]
                rng_ = off if op["form"] == "int" else (
                    tuple(range(off, off + sub.m)) if op["form"] == "tuple" else list(range(off, off + sub.m)))
                if op["merge"] is None:
                    c = c.add(rng_, sub)
                    merge = False
                else:
                    c = c.add(rng_, sub, merge=op["merge"])
                    merge = op["merge"]
                lops.append({"add": off, "merge": bool(merge), "c": lsub})
            elif kind == "fd":
                c = c // (sub if op["off"] is None else (op["off"], sub))
                lops.append({"add": op["off"] or 0, "merge": True, "c": lsub})
            elif kind == "mm":
                if not isinstance(c, pcvl.Circuit):
                    c = pcvl.Circuit(m).add(0, c)
                c = c @ (sub if op["off"] is None else (op["off"], sub))
                lops.append({"barrier": True})
                lops.append({"add": op["off"] or 0, "merge": True, "c": lsub})
    return c, {"circ": m, "ops": lops}


# ------------------------------------------------------------------------------------------------
# direct oracle on the implementation: numpy product of the embedded leaves' own matrices
# ------------------------------------------------------------------------------------------------
def oracle_matrix(lj):
    if "leaf" in lj:
        return np.array(core.unmat(lj["U"]), dtype=complex)
    m = lj["circ"]
    u = np.eye(m, dtype=complex)
    for op in lj["ops"]:
        if "barrier" in op:
            continue
        sub = oracle_matrix(op["c"])
        k = sub.shape[0]
        e = np.eye(m, dtype=complex)
        e[op["add"]:op["add"] + k, op["add"]:op["add"] + k] = sub
        u = e @ u
    return u


def oracle_flat(lj, base=0):
    if "leaf" in lj:
        return [[base, lj["leaf"]]]
    out = []
    for op in lj["ops"]:
        if "barrier" in op:
            out.append([base, lj["circ"]])
        else:
            out.extend(oracle_flat(op["c"], base + op["add"]))
    return out


def observe(expr):
    """Run the real code. -> dict(err=...) or dict(U=..., flat=..., lean=...)"""
    try:
        c, lj = build(expr)
    except (AssertionError, ValueError, RuntimeError, TypeError) as e:
        return {"err": type(e).__name__, "msg": str(e)[:200]}
    try:
        u = np.array(c.compute_unitary(), dtype=complex)
        # evaluating is an observation: asking again must give the same matrix and must not disturb the parts
        again = [np.array(c.compute_unitary(), dtype=complex) for _ in range(2)]
        u_last = again[-1]
        flat = [[r[0], len(r)] for r, _ in c]
    except Exception as e:      # an exception of the real code on an accepted program is a finding, not a harness crash
        return {"raises": f"{type(e).__name__}: {str(e)[:150]}", "lean": lj}
    out = {"U": u_last, "U_first": u, "flat": flat, "lean": lj, "m": c.m}
    if expr.get("symbolic"):
        # the symbolic computation (what `.U` reports) evaluated numerically must be the same matrix
        try:
            sym = c.compute_unitary(use_symbolic=True)
            out["U_sym"] = sym_to_np(sym, leaves=n_leaves(expr))
        except Exception as e:   # an exception of the real code on a legal circuit is a finding, not a harness crash
            out["U_sym_err"] = f"{type(e).__name__}: {str(e)[:150]}"
    return out


def lean_program_of(expr, pick=lambda leaf: leaf):
    """Lean program of a spec, leaf matrices taken from freshly built leaves (`pick` chooses which variant of a
    leaf spec is in force: used for leaves bound to variable parameters)."""
    def go(e):
        if "leaf" in e:
            obj = gens.build_leaf(pick(e["leaf"]))
            return {"leaf": obj.m, "U": gens.leaf_matrix_json(obj)}
        ops = []
        if e.get("lead") is not None:
            obj = gens.build_leaf(pick(e["lead"]))
            ops.append({"add": 0, "merge": False, "c": {"leaf": obj.m, "U": gens.leaf_matrix_json(obj)}})
        for op in e["ops"]:
            if op["op"] == "barrier":
                ops.append({"barrier": True})
            elif op["op"] == "copy":
                pass
            else:
                if op["op"] == "mm":
                    ops.append({"barrier": True})
                merge = bool(op.get("merge")) if op["op"] == "add" else True
                ops.append({"add": op["off"] or 0, "merge": merge, "c": go(op["c"])})
        return {"circ": e["circ"], "ops": ops}
    return go(expr)


def depth_of(e):
    if "leaf" in e:
        return 0
    return 1 + max([depth_of(op["c"]) for op in e["ops"] if "c" in op] or [0])


def signature(e):
    if "leaf" in e:
        return ("L", gens.leaf_width(e["leaf"]), e["leaf"]["t"])
    return ("C", e["circ"], e.get("lead") is not None,
            tuple((op["op"], op.get("off"), op.get("merge"), signature(op["c"]) if "c" in op else None)
                  for op in e["ops"]))


def nested_nonzero(e):
    if "leaf" in e:
        return False
    for op in e["ops"]:
        if "c" in op and "circ" in op["c"]:
            if (op.get("off") or 0) > 0 or nested_nonzero(op["c"]):
                return True
    return False


# ------------------------------------------------------------------------------------------------
def judge(chk, expr, lean_reply=None):
    """Compare implementation, model and direct oracle on one program.  Returns a failure tuple or None."""
    obs = observe(expr)
    if "err" in obs:
        lj = lean_program_of(expr)
        rep = lean_reply if lean_reply is not None else chk.lean.ask(lj)
        chk.branch("rejected")
        if "err" in rep:
            return None
        return ("violation", "rejects-admissible-program",
                f"the real API raised {obs['err']} ({obs['msg']}) on a program whose ranges are all admissible",
                {"program": expr})
    if "raises" in obs:
        return ("violation", "evaluation-raises",
                f"compute_unitary()/iteration of an accepted construction program raised {obs['raises']}", {"program": expr})
    if not np.allclose(obs["U_first"], obs["U"], rtol=core.TOL, atol=core.TOL):
        return ("violation", "matrix-changes-on-reevaluation",
                f"compute_unitary() called again on the same circuit returns a different matrix (max diff "
                f"{float(np.max(np.abs(obs['U_first'] - obs['U']))):.3g})", {"program": expr})
    if "U_sym_err" in obs:
        return ("violation", "symbolic-matrix-raises", "compute_unitary(use_symbolic=True) raised " + obs["U_sym_err"],
                {"program": expr})
    if "U_sym" in obs:
        chk.branch("symbolic")
        for t in leaf_kinds(expr, set()):
            chk.branch("symbolic-leaf-" + t)
        spec_u = oracle_matrix(obs["lean"]) if obs["lean"].get("ops") else np.eye(obs["m"], dtype=complex)
        if obs["U_sym"].shape != spec_u.shape or not np.allclose(obs["U_sym"], spec_u, rtol=1e-7, atol=1e-7):
            return ("violation", "symbolic-matrix-not-product",
                    "the symbolic matrix (compute_unitary(use_symbolic=True), what .U reports) evaluated numerically "
                    "differs from the ordered product of the embedded leaf matrices", {"program": expr})
    rep = lean_reply if lean_reply is not None else chk.lean.ask(obs["lean"])
    if "err" in rep:
        return ("violation", "accepts-inadmissible-program",
                f"the real API accepted a program the model rejects ({rep['err']})", {"program": expr})
    model_u = np.array(core.unmat(rep["U"]), dtype=complex)
    ok_u = model_u.shape == obs["U"].shape and np.allclose(obs["U"], model_u, rtol=core.TOL, atol=core.TOL)
    ok_flat = rep["flat"] == obs["flat"]
    if "U_sym" in obs and ok_u and not np.allclose(obs["U_sym"], model_u, rtol=1e-7, atol=1e-7):
        # (unreachable while the two comparisons above hold; kept so that the symbolic entries are tied to the model)
        return ("broken", "model-vs-code", "symbolic matrix evaluated at the current values differs from the model's "
                "product although the numeric matrix and the direct oracle agree", {"program": expr})
    if ok_u and ok_flat:
        # unitarity on the implementation (leaves are unitary by construction)
        if not np.allclose(obs["U"] @ obs["U"].conj().T, np.eye(obs["m"]), atol=1e-8):
            return ("violation", "not-unitary", "compute_unitary() is not unitary", {"program": expr})
        return None
    # disagreement: evaluate the property directly on the implementation
    spec_u = oracle_matrix(obs["lean"])
    spec_flat = oracle_flat(obs["lean"])
    if not np.allclose(obs["U"], spec_u, rtol=core.TOL, atol=core.TOL):
        return ("violation", "matrix-not-product",
                f"compute_unitary() differs from the ordered product of the embedded leaf matrices by "
                f"{float(np.max(np.abs(obs['U'] - spec_u))):.3g}", {"program": expr})
    if obs["flat"] != spec_flat:
        return ("violation", "iteration-ranges",
                f"iteration reports ranges {obs['flat']} but the components were attached at {spec_flat}",
                {"program": expr})
    return ("broken", "model-vs-code", "Lean model and implementation disagree but the direct oracle holds",
            {"program": expr, "lean": rep if len(json.dumps(rep)) < 4000 else "(large)"})


def shrink(chk, expr, sig):
    """Greedy structural shrinking keeping the same failure signature."""
    def fails(e):
        r = judge(chk, e)
        return r is not None and r[1] == sig

    cur = copy.deepcopy(expr)

    def paths(e, pre=()):
        yield pre
        for i, op in enumerate(e["ops"]):
            if "c" in op and "circ" in op["c"]:
                yield from paths(op["c"], pre + (i,))

    def at(e, p):
        for i in p:
            e = e["ops"][i]["c"]
        return e

    budget = 150
    changed = True
    while changed and budget > 0:
        changed = False
        for p in list(paths(cur)):
            node = at(cur, p)
            for i in range(len(node["ops"])):
                if len(node["ops"]) == 1 or budget <= 0:
                    break
                cand = copy.deepcopy(cur)
                del at(cand, p)["ops"][i]
                budget -= 1
                try:
                    ok = fails(cand)
                except Exception:
                    ok = False
                if ok:
                    cur = cand
                    changed = True
                    break
            if changed:
                break
    return cur


# ------------------------------------------------------------------------------------------------
# histories over a pool of circuit objects (reference semantics + variable parameters)
#
# The history itself is sent to the Lean heap model (`World ℕ GQ`, ops new / leaf / nest / merge / barrier / copy /
# set / eval); the same history is run with the real API; every evaluation is compared.  Independently of the Lean
# driver a Python mirror resolves the references and multiplies the embedded leaf matrices with numpy (direct oracle).
# Cells are named by labels so that every sub-list of a history is again a history (shrinking).
# ------------------------------------------------------------------------------------------------
TWO_PI = 2 * math.pi
ANGLES = {"BS": ("theta", "tl", "bl", "tr", "br"), "PS": ("phi",)}


def gen_value(rng):
    # in [0, 2*pi): a variable may be shared by a PS phase (period 2*pi) and a BS theta (period 4*pi); the Parameter
    # object then wraps into the narrower interval, which is not what this property is about
    return gens.cs_angle(gens.gen_cs(rng)) % TWO_PI


def gen_pool_history(rng, n_ops, max_m, malformed=False):
    nvar = rng.choice([0, 1, 2, 3])
    ops = []
    cells = {}          # label -> (m, rank)
    known = {}          # label -> variables bound by leaves added directly to that entry
    nxt = [0]

    def new_cell(m=None, rank=None):
        lab = nxt[0]
        nxt[0] += 1
        m = rng.randint(1, max_m) if m is None else m
        rank = rng.randint(0, 3) if rank is None else rank
        cells[lab] = (m, rank)
        ops.append({"op": "new", "id": lab, "m": m, "rank": rank})

    # a chain that makes nesting possible from the start, plus random entries
    top = rng.randint(2, max_m)
    new_cell(top, 3)
    new_cell(rng.randint(1, top), rng.randint(0, 2))
    for _ in range(rng.randint(0, 2)):
        new_cell()
    bad_at = rng.randrange(n_ops) if malformed else -1
    for step in range(n_ops):
        r = rng.random()
        i = rng.choice(list(cells))
        m_i, rank_i = cells[i]
        h = rng.randrange(4)
        if r < 0.22:
            ops.append({"op": "eval", "i": i, "h": h, "sym": (rng.choice([0, 1, 2]) if m_i <= 4 else 0)})
        elif r < 0.28:
            lab = nxt[0]
            nxt[0] += 1
            cells[lab] = cells[i]
            ops.append({"op": "copy", "i": i, "id": lab, "h": h})
        elif r < 0.32:
            new_cell()
        elif r < 0.42 and nvar:
            vs = rng.sample(range(nvar), rng.randint(1, nvar))
            via = None
            if known.get(i) and rng.random() < 0.6:      # values given through compute_unitary(assign=...) of a circuit
                via = i                                  # that registered these variables when the leaves were added
                vs = rng.sample(sorted(known[i]), rng.randint(1, len(known[i])))
            ops.append({"op": "set", "vals": {str(v): gen_value(rng) for v in vs}, "via": via, "h": h})
        elif r < 0.47:
            ops.append({"op": "barrier", "i": i, "h": h})
        else:
            bad = step == bad_at
            cands = [j for j in cells if cells[j][1] < rank_i and (cells[j][0] <= m_i or bad)]
            if cands and rng.random() < 0.5:
                j = rng.choice(cands)
                w = cells[j][0]
                off = (max(0, m_i - w) + rng.randint(1, 2)) if bad else rng.randint(0, m_i - w)
                ops.append({"op": "sub", "i": i, "j": j, "off": off, "h": h, "hj": rng.randrange(4),
                            "how": rng.choice(["nest", "nest", "nest0", "merge", "ifd", "fd", "imm", "mm"])})
            else:
                leaf = gens.gen_leaf(rng, m_i)
                if leaf["t"] in ANGLES and nvar and rng.random() < 0.6:
                    names = ANGLES[leaf["t"]]
                    leaf["bind"] = {a: rng.randrange(nvar) for a in rng.sample(names, rng.randint(1, len(names)))}
                    if not bad:
                        known.setdefault(i, set()).update(leaf["bind"].values())
                w = gens.leaf_width(leaf)
                off = (m_i - w + rng.randint(1, 2)) if bad else rng.randint(0, m_i - w)
                ops.append({"op": "leaf", "i": i, "off": off, "leaf": leaf, "h": h,
                            "how": rng.choice(["int", "int", "tuple", "list", "ifd", "fd", "imm", "mm"])})
    if malformed and rng.random() < 0.3:
        ops.insert(rng.randrange(len(ops)), {"op": "new", "id": nxt[0], "m": 0, "rank": 1})
    ops += [{"op": "eval", "i": i, "h": 0, "sym": 0} for i in cells]
    return {"vars": [gen_value(rng) for _ in range(nvar)], "ops": ops}


def convert_old_history(hist):
    """replay files of the earlier format {"ms": [...], "ops": [...]} (references go to higher indices)"""
    n = len(hist["ms"])
    ops = [{"op": "new", "id": k, "m": m, "rank": n - k} for k, m in enumerate(hist["ms"])]
    nxt = n
    for op in hist["ops"]:
        k = op["op"]
        if k == "leaf":
            ops.append({"op": "leaf", "i": op["i"], "off": op["off"], "leaf": op["leaf"], "h": 0, "how": "int"})
        elif k in ("nest", "merge"):
            ops.append({"op": "sub", "i": op["i"], "j": op["j"], "off": op["off"], "h": 0, "hj": 0, "how": k})
        elif k == "copy":
            ops.append({"op": "copy", "i": op["i"], "id": nxt, "h": 0})
            nxt += 1
        elif k == "eval":
            ops.append({"op": "eval", "i": op["i"], "h": 0, "sym": 0})
    return {"vars": [], "ops": ops}


_FRESH = {}


def bound_leaf(spec, vals, params=None):
    """the leaf of a spec: angles listed in spec['bind'] are the Parameter objects `params` (real circuit) or, when
    `params` is None, the numbers `vals` (a fresh leaf under an environment: the leaf's own matrix, cf. C14)"""
    from perceval.components import BS, PS
    from perceval.components.unitary_components import BSConvention
    bind = spec.get("bind")
    if not bind:
        return gens.build_leaf(spec)

    def ang(name):
        if name in bind:
            return params[bind[name]] if params is not None else vals[bind[name]]
        return (2 if name == "theta" else 1) * gens.cs_angle(spec[name])
    if spec["t"] == "PS":
        return PS(ang("phi"))
    return BS(theta=ang("theta"), phi_tl=ang("tl"), phi_bl=ang("bl"), phi_tr=ang("tr"), phi_br=ang("br"),
              convention=BSConvention[spec["conv"]])


def fresh_matrix(spec, vals):
    key = (json.dumps(spec, sort_keys=True), tuple(vals[v] for v in sorted(set(spec.get("bind", {}).values()))))
    if key not in _FRESH:
        if len(_FRESH) > 20000:
            _FRESH.clear()
        _FRESH[key] = np.array(bound_leaf(spec, vals).compute_unitary(use_symbolic=False), dtype=complex)
    return _FRESH[key]


def node_matrix(node):
    """direct oracle: ordered numpy product of the embedded leaf matrices of a resolved tree"""
    if node[0] == "L":
        return node[1]
    m = node[1]
    u = np.eye(m, dtype=complex)
    for off, sub in node[2]:
        su = node_matrix(sub)
        k = su.shape[0]
        e = np.eye(m, dtype=complex)
        e[off:off + k, off:off + k] = su
        u = e @ u
    return u


def node_flat(node, base=0):
    if node[0] == "L":
        return [[base, node[1].shape[0]]]
    out = []
    for off, sub in node[2]:
        out.extend(node_flat(sub, base + off))
    return out


def node_kinds(node, acc):
    if node[0] == "L":
        acc.add(node[2])
        return acc
    for _, sub in node[2]:
        node_kinds(sub, acc)
    return acc


SYM_MAX_LEAVES = 40      # sympy's own cost explodes beyond (a 2-mode circuit of 86 components: > 10 s inside sympy)
SYM_HIST_MAX_LEAVES = 18  # pool histories: entries of 3-4 modes with 30-40 leaves (references multiply them) cost sympy minutes


def sym_to_np(sym, subs=None, leaves=None):
    """numeric value of the entries of a symbolic matrix (optionally after substituting symbols); the expressions of a
    large circuit are shared DAGs: evaluate with common sub-expressions computed once"""
    if not hasattr(sym, "subs"):            # a circuit made of one full-width `Unitary` reports its numeric matrix
        return np.array(sym, dtype=complex)
    if leaves is not None and leaves <= 10:
        if subs:
            sym = sym.subs(subs)
        return np.array([[complex(x) for x in row] for row in sym.tolist()], dtype=complex)
    import sympy as sp
    syms = list(subs) if subs else []
    f = sp.lambdify(syms, sp.Matrix(sym), modules="numpy", cse=True)
    out = np.array(f(*[subs[x] for x in syms]), dtype=complex)
    return out.reshape(sym.shape)


def n_leaves(e):
    if "leaf" in e:
        return 1
    return (1 if e.get("lead") is not None else 0) + sum(n_leaves(op["c"]) if "c" in op else 1 for op in e["ops"]) + \
        sum(1 for op in e["ops"] if op["op"] == "mm")


def run_pool_history(chk, hist, count=True):
    """-> failure tuple or None"""
    import perceval as pcvl
    uid = run_pool_history.uid = getattr(run_pool_history, "uid", 0) + 1
    # environments: env 0 = initial values, one more per `set`
    envs = [list(hist["vars"])]
    for op in hist["ops"]:
        if op["op"] == "set":
            e = list(envs[-1])
            for v, x in op["vals"].items():
                if int(v) < len(e):
                    e[int(v)] = x
            envs.append(e)
    params = [pcvl.P(f"h{uid}v{k}") for k in range(len(hist["vars"]))]
    for p, x in zip(params, hist["vars"]):
        p.set_value(x)
    env = 0
    idx = {}                 # label -> pool index
    handles = []             # pool index -> python objects sharing one `_components` list
    pool = []                # mirror: pool index -> [m, [(off, ('leaf', spec, obj) | ('ref', j) | ('tree', node))]]
    lean_ops = []
    expect = []              # per lean op: (history step, expected status or 'eval', payload)
    where = {"pool_history": hist}

    def leaf_node(spec, obj, vals):
        if spec.get("bind"):
            return ("L", fresh_matrix(spec, vals), spec["t"])
        return ("L", np.array(obj.compute_unitary(use_symbolic=False), dtype=complex), spec["t"])

    def resolve(i, vals):
        m, items = pool[i]
        subs = []
        for off, it in items:
            if it[0] == "leaf":
                subs.append((off, leaf_node(it[1], it[2], vals)))
            elif it[0] == "ref":
                subs.append((off, resolve(it[1], vals)))
            else:
                subs.append((off, it[1]))
        return ("C", m, subs)

    def call(step, fn, n_model_ops, admissible):
        """run one API call; the model ops it corresponds to are the last `n_model_ops` of lean_ops"""
        try:
            res = fn()
            status = "ok"
        except AssertionError:
            res, status = None, "rej"
        except Exception as e:       # an exception of the real code on a history operation is a finding, not a harness crash
            return None, ("violation", "operation-raises",
                          f"operation #{step} of the history raised {type(e).__name__}: {str(e)[:150]}", where)
        if status == "ok" and not admissible:
            return res, ("violation", "accepts-inadmissible-program",
                         f"operation #{step} of the history was accepted although its range does not fit", where)
        if status == "rej" and admissible:
            return res, ("violation", "rejects-admissible-program",
                         f"operation #{step} of the history raised AssertionError although its range is admissible", where)
        for k in range(n_model_ops):
            expect.append((step, "rej" if (status == "rej" and k == n_model_ops - 1) else "ok", None))
        if status == "rej" and count:
            chk.branch("hist-rejected")
        return res, None

    evaluated = set()
    taint = []               # pool index -> features inherited through copy() ('alias', 'empty')

    def reasons(n):
        out = set(taint[n])
        if len(handles[n]) > 1:
            out.add("alias")
        for _, it in pool[n][1]:
            if it[0] == "ref":
                if len(it) > 2:
                    out.add("empty")
                out |= reasons(it[1])
        return out

    for step, op in enumerate(hist["ops"]):
        k = op["op"]
        if k == "new":
            lean_ops.append({"new": op["m"], "rank": op["rank"]})
            obj, bad = call(step, lambda: pcvl.Circuit(op["m"]), 1, op["m"] > 0)
            if bad:
                return bad
            if obj is not None:
                idx[op["id"]] = len(pool)
                pool.append([op["m"], []])
                handles.append([obj])
                taint.append(set())
            continue
        if k == "set":
            env += 1
            todo = {params[int(v)].name: x for v, x in op["vals"].items() if int(v) < len(params)}
            via = None
            if op.get("via") in idx:
                hs = handles[idx[op["via"]]]
                via = hs[op.get("h", 0) % len(hs)]
                if not set(todo) <= {p.name for p in via.get_parameters()}:
                    via = None
            if via is not None:
                # the other public way to give values: compute_unitary(assign={name: value}) on a circuit that knows them
                try:
                    ua = np.array(via.compute_unitary(assign=dict(todo)), dtype=complex)
                except Exception as e:
                    return ("violation", "evaluation-raises-after-history",
                            f"operation #{step}: compute_unitary(assign=...) raised {type(e).__name__}: {str(e)[:120]}", where)
                if count:
                    chk.branch("hist-set-through-assign")
                want = node_matrix(resolve(idx[op["via"]], envs[env]))
                if ua.shape != want.shape or not np.allclose(ua, want, rtol=core.TOL, atol=core.TOL):
                    return ("violation", "matrix-ignores-parameter-value",
                            f"operation #{step}: compute_unitary(assign=...) does not return the product of the parts under "
                            f"the values it was given", where)
            else:
                for p in params:
                    if p.name in todo:
                        p.set_value(todo[p.name])
            lean_ops.append({"set": env})
            expect.append((step, "ok", None))
            if count:
                chk.branch("hist-set-value")
            continue
        if op["i"] not in idx or (k == "sub" and op["j"] not in idx):
            continue            # refers to an entry that does not exist in this (shrunk) history
        i = idx[op["i"]]
        m_i = pool[i][0]
        hs = handles[i]
        me = hs[op["h"] % len(hs)]
        vals = envs[env]
        if k == "barrier":
            lean_ops.append({"barrier": i})
            _, bad = call(step, me.barrier, 1, True)
            if bad:
                return bad
            pool[i][1].append((0, ("tree", ("L", np.eye(m_i, dtype=complex), "Barrier"))))
        elif k == "copy":
            lean_ops.append({"copy": i})
            obj, bad = call(step, me.copy, 1, True)
            if bad:
                return bad
            idx[op["id"]] = len(pool)
            pool.append([m_i, [(off, ("tree", sub)) for off, sub in resolve(i, vals)[2]]])
            handles.append([obj])
            taint.append(reasons(i))
            if count:
                chk.branch("hist-copy")
        elif k in ("leaf", "sub"):
            how = op["how"]
            off = op["off"]
            if k == "leaf":
                spec = op["leaf"]
                obj = bound_leaf(spec, None, params)
                w = obj.m
                if spec.get("bind"):
                    body = {"leaf": i, "off": off, "k": w,
                            "Us": [core.mat(fresh_matrix(spec, e).tolist()) for e in envs]}
                    if count:
                        chk.branch("hist-bound-leaf")
                else:
                    body = {"leaf": i, "off": off, "k": w, "U": gens.leaf_matrix_json(obj)}
                new_items = [(off, ("leaf", spec, obj))]
                merge_like = False
            else:
                j = idx[op["j"]]
                hj = handles[j]
                obj = hj[op["hj"] % len(hj)]
                w = pool[j][0]
                merge_like = how not in ("nest", "nest0")
                body = {("merge" if merge_like else "nest"): i, "j": j, "off": off}
                if merge_like and pool[j][1]:
                    new_items = [(off + o, it) for o, it in pool[j][1]]
                elif merge_like:
                    new_items = [(off, ("ref", j, "merged while empty"))]
                else:
                    new_items = [(off, ("ref", j))]
                if count:
                    chk.branch("hist-merge" if merge_like else "hist-nest-by-reference")
            admissible = off + w <= m_i
            n_model = 1
            if how in ("imm", "mm"):
                lean_ops.append({"barrier": i})
                n_model = 2
            lean_ops.append(body)
            if how in ("int", "nest0"):
                fn = lambda: me.add(off, obj)
            elif how == "nest":
                fn = lambda: me.add(off, obj, merge=False)
            elif how == "merge":
                fn = lambda: me.add(off, obj, merge=True)
            elif how == "tuple":
                fn = lambda: me.add(tuple(range(off, off + w)), obj)
            elif how == "list":
                fn = lambda: me.add(list(range(off, off + w)), obj)
            elif how == "ifd":
                fn = lambda: me.__ifloordiv__((off, obj))
            elif how == "fd":
                fn = lambda: me // (off, obj)
            elif how == "imm":
                fn = lambda: me.__imatmul__((off, obj))
            else:
                fn = lambda: me @ (off, obj)
            res, bad = call(step, fn, n_model, admissible)
            if bad:
                return bad
            if how in ("imm", "mm"):
                pool[i][1].append((0, ("tree", ("L", np.eye(m_i, dtype=complex), "Barrier"))))
            if res is not None:
                pool[i][1].extend(new_items)
                if k == "sub" and merge_like:
                    taint[i] |= reasons(j)      # spliced items: what was said about the child now holds for the parent
                if how in ("fd", "mm"):
                    hs.append(res)       # `//` and `@` return a second handle on the same component list
                    if count:
                        chk.branch("hist-shallow-handle")
                if count and how in ("imm", "mm"):
                    chk.branch("hist-matmul")
        elif k == "eval":
            node = resolve(i, vals)
            spec_u = node_matrix(node)
            spec_flat = node_flat(node)
            try:
                u = np.array(me.compute_unitary(), dtype=complex)
                u2 = np.array(me.compute_unitary(), dtype=complex)
                flat = [[r[0], len(r)] for r, _ in me]
            except Exception as e:
                return ("violation", "evaluation-raises-after-history",
                        f"after {step} operations compute_unitary()/iteration of pool entry {op['i']} raised "
                        f"{type(e).__name__}: {str(e)[:120]}", where)
            if count:
                if len(hs) > 1:
                    chk.branch("hist-eval-through-shallow-handle")
                if i in evaluated and any(it[0] == "ref" for _, it in pool[i][1]):
                    chk.branch("hist-reevaluated-after-growth")
            evaluated.add(i)
            if not np.allclose(u, u2, rtol=core.TOL, atol=core.TOL):
                return ("violation", "matrix-changes-on-reevaluation",
                        f"after {step} operations compute_unitary() of pool entry {op['i']} called twice gives two matrices",
                        where)
            bad_u = u.shape != spec_u.shape or not np.allclose(u, spec_u, rtol=core.TOL, atol=core.TOL)
            if bad_u or flat != spec_flat:
                d = float(np.max(np.abs(u - spec_u))) if u.shape == spec_u.shape else float("nan")
                # the property read literally on the object itself: product of the matrices its own leaves report now,
                # on the ranges its own iteration reports now
                lit = np.eye(m_i, dtype=complex)
                for r, c in me:
                    e = np.eye(m_i, dtype=complex)
                    e[r[0]:r[0] + len(r), r[0]:r[0] + len(r)] = np.array(c.compute_unitary(use_symbolic=False), dtype=complex)
                    lit = e @ lit
                if not np.allclose(u, lit, rtol=core.TOL, atol=core.TOL):
                    return ("violation", "matrix-not-product-after-history",
                            f"after {step} operations compute_unitary() of pool entry {op['i']} differs from the ordered "
                            f"product of its current parts (under the current parameter values) by {d:.3g}", where)

                def reaches(n, pred):
                    return pred(n) or any(it[0] == "ref" and reaches(it[1], pred) for _, it in pool[n][1])
                why = reasons(i)
                if "alias" in why:
                    # `a // x` / `a @ x` on a Circuit are documented to build a new circuit; that the left operand shares
                    # the component list with the result is how the code is written (and modelled), not the property
                    return ("broken", "handle-aliasing-differs-from-model",
                            f"after {step} operations pool entry {op['i']} (an operand or result of `//`/`@`) is the product "
                            f"of its own parts {flat}, but the model (result and left operand share one component list) "
                            f"expects parts at {spec_flat}", where)
                if "empty" in why:
                    return ("broken", "merged-empty-circuit-differs-from-model",
                            f"after {step} operations pool entry {op['i']}, into which a then empty circuit was merged, is the "
                            f"product of its own parts {flat}; the model (an empty circuit is kept by reference) expects "
                            f"{spec_flat}", where)
                if flat != spec_flat:
                    return ("violation", "iteration-ranges-after-history",
                            f"after {step} operations iteration of pool entry {op['i']} reports {flat}, parts were attached "
                            f"at {spec_flat}" + (f" (matrix differs by {d:.3g})" if bad_u else ""), where)
                if env > 0 and reaches(i, lambda n: any(it[0] == "tree" and (it[1][0] == "C" or it[1][2] != "Barrier")
                                                        for _, it in pool[n][1])):
                    return ("broken", "copy-binding-differs-from-model",
                            f"after {step} operations pool entry {op['i']} (holding parts made by copy()) is the product of "
                            f"its own leaves, but those do not have the values the original had when it was copied (the model "
                            f"freezes a copy; differs by {d:.3g})", where)
                return ("violation", "matrix-ignores-parameter-value",
                        f"after {step} operations compute_unitary() of pool entry {op['i']} is not the ordered product of "
                        f"the attached parts under the current parameter values (differs by {d:.3g}): a part lost or kept "
                        f"a binding it should not", where)
            if not np.allclose(u @ u.conj().T, np.eye(m_i), atol=1e-8):
                return ("violation", "not-unitary", f"after {step} operations compute_unitary() is not unitary", where)
            if op.get("sym") and len(spec_flat) <= SYM_HIST_MAX_LEAVES:
                kinds = node_kinds(node, set())
                try:
                    if op["sym"] == 2 and params:
                        for p in params:
                            p.reset()
                        try:
                            sym = me.compute_unitary(use_symbolic=True)
                        finally:
                            for p, x in zip(params, vals):
                                p.set_value(x)
                        us = sym_to_np(sym, {p._symbol: x for p, x in zip(params, vals)}, leaves=len(spec_flat))
                        if count:
                            chk.branch("hist-symbolic-substituted")
                    else:
                        us = sym_to_np(me.compute_unitary(use_symbolic=True), leaves=len(spec_flat))
                except Exception as e:
                    return ("violation", "symbolic-matrix-raises",
                            f"compute_unitary(use_symbolic=True) raised {type(e).__name__}: {str(e)[:150]}", where)
                if count:
                    chk.branch("symbolic")
                    for t in kinds:
                        chk.branch("symbolic-leaf-" + t)
                if us.shape != spec_u.shape or not np.allclose(us, spec_u, rtol=1e-7, atol=1e-7):
                    return ("violation", "symbolic-matrix-not-product",
                            f"after {step} operations the symbolic matrix of pool entry {op['i']} evaluated at the current "
                            f"values differs from the ordered product of the embedded leaf matrices", where)
            lean_ops.append({"eval": i})
            expect.append((step, "eval", (op["i"], u, flat)))
    # the same history in the Lean heap model
    rep = chk.lean.ask({"hist": lean_ops, "envs": len(envs)})
    if "err" in rep:
        return ("broken", "model-vs-code", f"the heap model rejects the history: {rep['err']}", where)
    outs = rep["out"]
    if len(outs) != len(expect):
        return ("broken", "model-vs-code", "heap model reply out of step", where)
    for o, (step, want, payload) in zip(outs, expect):
        if want != "eval":
            if o != want:
                return ("broken", "model-vs-code",
                        f"operation #{step}: the real API {'rejected' if want == 'rej' else 'accepted'} it, the heap model "
                        f"says {o!r}; the direct oracle agrees with the real API", where)
            continue
        lab, u, flat = payload
        model_u = np.array(core.unmat(o["U"]), dtype=complex)
        if model_u.shape != u.shape or not np.allclose(u, model_u, rtol=core.TOL, atol=core.TOL) or o["flat"] != flat:
            return ("broken", "model-vs-code",
                    f"after {step} operations the heap model and the implementation disagree on pool entry {lab} "
                    f"but the direct oracle (resolved references, numpy product) agrees with the implementation", where)
    return None


def handle_history(chk, hist):
    if "ms" in hist:
        hist = convert_old_history(hist)
    res = run_pool_history(chk, hist)
    n_ref = sum(1 for o in hist["ops"] if o["op"] == "sub")
    chk.count("history_len", len(hist["ops"]) // 5 * 5)
    chk.count("history_vars", len(hist["vars"]))
    chk.case(("H", tuple((o["op"], o.get("i"), o.get("j"), o.get("off"), o.get("how")) for o in hist["ops"])),
             nontrivial=n_ref > 0,
             sample={"pool_history": {"vars": len(hist["vars"]),
                                      "ops": [(o["op"], o.get("i"), o.get("j"), o.get("how")) for o in hist["ops"]][:12]}})
    if res is None:
        return
    kind, sig, what, replay = res
    ops = list(hist["ops"])
    budget = 150
    i = 0
    while i < len(ops) and budget > 0:      # greedy shrinking: every sub-list of a history is a history
        cand = {"vars": hist["vars"], "ops": ops[:i] + ops[i + 1:]}
        budget -= 1
        try:
            r = run_pool_history(chk, cand, count=False)
        except Exception:
            r = None
        if r is not None and r[1] == sig:
            ops = cand["ops"]
            kind, sig, what, replay = r
        else:
            i += 1
    chk.fail(kind, sig, what, replay)


# ------------------------------------------------------------------------------------------------
# circuits whose leaves are bound to variable parameters that receive (new) values after assembly
# ------------------------------------------------------------------------------------------------
def strip_for_params(rng, e, counter):
    """no copy (a copy legitimately detaches parameters), no leading leaf; BS/PS leaves get two alternative angle sets"""
    if "leaf" in e:
        leaf = e["leaf"]
        if leaf["t"] in ("BS", "PS") and rng.random() < 0.7:
            alts = []
            for _ in range(2):
                a = gens.gen_leaf(rng, 2, kinds=(leaf["t"],))
                if leaf["t"] == "BS":
                    a["conv"] = leaf["conv"]
                alts.append(a)
            leaf["alts"] = alts
            leaf["id"] = counter[0]
            counter[0] += 1
        return e
    e["lead"] = None
    e["ops"] = [op for op in e["ops"] if op["op"] != "copy"]
    for op in e["ops"]:
        if "c" in op:
            strip_for_params(rng, op["c"], counter)
    return e


def run_param_program(chk, expr, count=True):
    import perceval as pcvl
    from perceval.components import BS, PS
    from perceval.components.unitary_components import BSConvention
    setters = []

    def builder(spec):
        if "alts" not in spec:
            return gens.build_leaf(spec)
        i = spec["id"]
        if spec["t"] == "PS":
            ps = {"phi": pcvl.P(f"v{i}_phi")}
            obj = PS(ps["phi"])
        else:
            ps = {k: pcvl.P(f"v{i}_{k}") for k in ("theta", "tl", "bl", "tr", "br")}
            obj = BS(theta=ps["theta"], phi_tl=ps["tl"], phi_bl=ps["bl"], phi_tr=ps["tr"], phi_br=ps["br"],
                     convention=BSConvention[spec["conv"]])

        def setter(alt):
            for k, par in ps.items():
                par.set_value((2 if k == "theta" else 1) * gens.cs_angle(alt[k]))
        setters.append((spec, setter))
        all_params.extend(ps.values())
        return obj

    all_params = []
    _LEAF_BUILDER[0] = builder
    try:
        # leaf matrices requested at build time would need values: give every variable its first value as soon as
        # the leaf exists, then assemble; values are set AGAIN (same, then different) after assembly
        def builder0(spec):
            obj = builder(spec)
            if "alts" in spec:
                setters[-1][1](spec["alts"][0] if expr.get("values_before_assembly") else spec["alts"][0])
            return obj
        _LEAF_BUILDER[0] = builder0
        c, _ = build(expr)
    finally:
        _LEAF_BUILDER[0] = gens.build_leaf
    for rnd in (0, 1):
        for spec, setter in setters:
            setter(spec["alts"][rnd])
        lj = lean_program_of(expr, pick=lambda leaf: leaf["alts"][rnd] if "alts" in leaf else leaf)
        try:
            u = np.array(c.compute_unitary(), dtype=complex)
        except Exception as e:
            return ("violation", "parametrised-circuit-raises",
                    f"compute_unitary() raised {type(e).__name__}: {str(e)[:120]} on a circuit whose parameters all have values",
                    {"param_program": expr, "round": rnd})
        spec_u = oracle_matrix(lj) if lj["ops"] else np.eye(expr["circ"], dtype=complex)
        if count and rnd == 1:
            chk.branch("param-value-changed-after-assembly")
        if not np.allclose(u, spec_u, rtol=core.TOL, atol=core.TOL):
            return ("violation", "matrix-ignores-parameter-value",
                    f"after setting the variable parameters ({'new' if rnd else 'first'} values) compute_unitary() differs "
                    f"from the ordered product of the leaves at those values by {float(np.max(np.abs(u - spec_u))):.3g}",
                    {"param_program": expr, "round": rnd})
        rep = chk.lean.ask(lj)
        if "err" in rep or not np.allclose(u, np.array(core.unmat(rep["U"]), dtype=complex), rtol=core.TOL, atol=core.TOL):
            return ("broken", "model-vs-code", "Lean model and implementation disagree on a parametrised circuit but the "
                    "direct oracle holds", {"param_program": expr, "round": rnd})
        if rnd == 1 and all_params and expr["circ"] <= 4:
            # the symbolic path with the variables left symbolic, values substituted afterwards (base change along
            # evaluation: theorem unitaryOf_map)
            values = {p._symbol: float(p) for p in all_params}
            for p in all_params:
                p.reset()
            try:
                us = sym_to_np(c.compute_unitary(use_symbolic=True), values, leaves=n_leaves(expr))
            except Exception as e:
                return ("violation", "symbolic-matrix-raises", f"compute_unitary(use_symbolic=True) with undefined "
                        f"variables raised {type(e).__name__}: {str(e)[:120]}", {"param_program": expr, "round": rnd})
            finally:
                for p in all_params:
                    p.set_value(values[p._symbol])
            if count:
                chk.branch("param-symbolic-substituted")
            if us.shape != spec_u.shape or not np.allclose(us, spec_u, rtol=1e-7, atol=1e-7):
                return ("violation", "symbolic-matrix-not-product",
                        "the symbolic matrix in the variable parameters, with the values substituted, differs from the "
                        "ordered product of the leaf matrices at those values", {"param_program": expr, "round": rnd})
    return None


def handle_param_program(chk, expr):
    nvar = [0]

    def cnt(e):
        if "leaf" in e:
            nvar[0] += 1 if "alts" in e["leaf"] else 0
            return
        for op in e["ops"]:
            if "c" in op:
                cnt(op["c"])
            if op["op"] == "mm":
                chk.branch("param-matmul")
    cnt(expr)
    res = run_param_program(chk, expr)
    chk.case(("P", json.dumps(expr, sort_keys=True)[:2000]), nontrivial=nvar[0] >= 1 and nested_nonzero(expr),
             sample={"param_program": {"m": expr["circ"], "variables": nvar[0]}})
    if res is not None:
        chk.fail(*res)


# ------------------------------------------------------------------------------------------------
# histories of the registry machine (Model/C01Reg.lean): per-circuit parameter registry, duplicate-name RuntimeError
# (also in the middle of the loop), assign / compute_unitary(assign=...), undefined parameters at evaluation time,
# copy() / copy(subs=...) with fresh Parameter objects.  The history is sent to the Lean driver ({"rhist": ...}) and run
# with the real API; after every operation the outcome class, the registry of the touched circuit (names, order,
# object identity), `defined`, the set of parameters of the reachable leaves and the values of all Parameter objects
# are compared; evaluations are compared as matrices.  Direct oracles on the real objects: ordered product of the
# leaves' own matrices; a Python mirror that resolves references and, for copies, reads frozen / substituted / fresh
# values; registry = parameters of the reachable leaves while no add failed and nothing grew after being nested;
# copy fails iff two slots left variable share a name; evaluation fails iff a reachable leaf has an undefined parameter.
# ------------------------------------------------------------------------------------------------
RH_NAMES = 3
RH_BRANCHES = ["rh-copy-subs-through-reference", "rh-add-runtime", "rh-leaf-ctor-runtime", "rh-stale-after-failed-add", "rh-growth-after-nesting",
               "rh-keyerror", "rh-assign-ok", "rh-assign-through-compute-unitary", "rh-eval-undefined", "rh-eval-ok-bound",
               "rh-copy-fresh", "rh-copy-runtime", "rh-copy-subs-symbol", "rh-copy-subs-by-name-ignored",
               "rh-copy-of-copy", "rh-eval-copy-fresh-assigned", "rh-exact-checked", "rh-assertion", "rh-merge", "rh-nest"]


def gen_reg_history(rng, n_ops, max_m):
    nvars = rng.randint(2, 5)
    names = [rng.randrange(RH_NAMES) for _ in range(nvars)]
    if rng.random() < 0.5:
        names[-1] = names[0]                      # two Parameter objects with one name
    vals = []
    while len(vals) < 3:
        x = gen_value(rng)
        if 0.05 < x < TWO_PI - 0.05 and all(abs(x - y) > 0.05 for y in vals):
            vals.append(x)
    init = [None if rng.random() < 0.55 else rng.randrange(3) for _ in range(nvars)]
    ops, cells, nxt = [], {}, [0]

    def new_cell(m=None, rank=None):
        lab = nxt[0]
        nxt[0] += 1
        m = rng.randint(1, max_m) if m is None else m
        rank = rng.randint(0, 3) if rank is None else rank
        cells[lab] = (m, rank)
        ops.append({"op": "new", "id": lab, "m": m, "rank": rank})

    known = {}           # label -> pids bound by leaves added directly to that entry (approximate: used to aim, not to judge)

    def ps_leaf(pid):
        return {"t": "PS", "phi": gens.gen_cs(rng), "bind": {"phi": pid}}

    def scenario(i):
        """aimed sequences: each reaches a behaviour that random operations meet too rarely to be required of every run"""
        m_i = cells[i][0]
        kind = rng.choice(["stale", "copy-runtime", "fresh-assigned", "subs"])
        if kind == "stale":
            # add(PS(c)); add(BS(theta=a, phi_tl=b)) with b another parameter named like c: the loop registers a, then raises
            trip = [(a, b, c) for c in range(nvars) for b in range(nvars) for a in range(nvars)
                    if b != c and names[b] == names[c] and names[a] != names[c]]
            if trip:
                a, b, c = rng.choice(trip)
                z = nxt[0]
                new_cell(rng.randint(2, 3), rng.randint(0, 3))
                ops.append({"op": "leaf", "i": z, "off": 0, "leaf": ps_leaf(c), "h": 0, "how": "int"})
                leaf = gens.gen_leaf(rng, 2, kinds=("BS",))
                leaf["bind"] = {"theta": a, "tl": b}
                ops.append({"op": "leaf", "i": z, "off": 0, "leaf": leaf, "h": 0, "how": rng.choice(["int", "ifd"])})
                known.setdefault(z, set()).update((a, c))
                ops.append({"op": "assign", "i": z, "h": 0, "a": [[names[a], rng.randrange(3)]], "via": "assign"})
        elif kind == "copy-runtime":
            p = rng.choice(sorted(known[i])) if known.get(i) else rng.randrange(nvars)
            for _ in range(1 if known.get(i) else 2):
                ops.append({"op": "leaf", "i": i, "off": rng.randint(0, m_i - 1), "leaf": ps_leaf(p), "h": 0, "how": "int"})
            known.setdefault(i, set()).add(p)
            ops.append({"op": "setv", "p": p, "x": None})
            lab = nxt[0]
            nxt[0] += 1
            cells[lab] = cells[i]
            ops.append({"op": "copy", "i": i, "id": lab, "h": 0, "form": "none", "subs": {}})
        elif kind == "subs":
            # one undefined parameter in two slots: copy() raises, copy(subs={symbol: value}) does not; half of the time the
            # slots sit in a sub-circuit held by reference (the substitution has to travel through the nested copy)
            p = rng.randrange(nvars)
            z = nxt[0]
            new_cell(rng.randint(1, 2), rng.randint(0, 1))
            for _ in range(rng.randint(1, 2)):
                ops.append({"op": "leaf", "i": z, "off": 0, "leaf": ps_leaf(p), "h": 0, "how": "int"})
            known.setdefault(z, set()).add(p)
            src = z
            if rng.random() < 0.5:
                src = nxt[0]
                new_cell(cells[z][0] + rng.randint(0, 1), cells[z][1] + 1)
                ops.append({"op": "sub", "i": src, "j": z, "off": cells[src][0] - cells[z][0], "h": 0, "hj": 0,
                            "how": rng.choice(["nest", "nest", "merge"])})
                known[src] = {p}
            ops.append({"op": "setv", "p": p, "x": None})
            lab = nxt[0]
            nxt[0] += 1
            cells[lab] = cells[src]
            ops.append({"op": "copy", "i": src, "id": lab, "h": 0, "form": "sym", "subs": {str(names[p]): rng.randrange(3)}})
            ops.append({"op": "eval", "i": lab, "h": 0})
        else:
            p = rng.randrange(nvars)
            z = nxt[0]
            new_cell(rng.randint(1, 2), rng.randint(0, 1))
            ops.append({"op": "leaf", "i": z, "off": 0, "leaf": ps_leaf(p), "h": 0, "how": "int"})
            known.setdefault(z, set()).add(p)
            src = z
            if rng.random() < 0.5:
                src = nxt[0]
                new_cell(cells[z][0] + rng.randint(0, 1), cells[z][1] + 1)
                ops.append({"op": "sub", "i": src, "j": z, "off": cells[src][0] - cells[z][0], "h": 0, "hj": 0,
                            "how": rng.choice(["nest", "nest", "merge"])})
                known[src] = {p}
            ops.append({"op": "setv", "p": p, "x": None})
            lab = nxt[0]
            nxt[0] += 1
            cells[lab] = cells[src]
            known[lab] = {p}
            ops.append({"op": "copy", "i": src, "id": lab, "h": 0, "form": rng.choice(["none", "str"]), "subs": {}})
            ops.append({"op": "assign", "i": lab, "h": 0, "a": [[names[p], rng.randrange(3)]], "via": "cu"})
            ops.append({"op": "eval", "i": lab, "h": 0})

    top = rng.randint(2, max_m)
    new_cell(top, 3)
    new_cell(rng.randint(1, top), rng.randint(0, 2))
    if rng.random() < 0.5:
        new_cell()
    for _ in range(n_ops):
        r = rng.random()
        i = rng.choice(list(cells))
        m_i, rank_i = cells[i]
        h = rng.randrange(4)
        if rng.random() < 0.06:
            scenario(i)
            continue
        if r < 0.13:
            ops.append({"op": "eval", "i": i, "h": h})
        elif r < 0.24:
            lab = nxt[0]
            nxt[0] += 1
            cells[lab] = cells[i]
            known[lab] = set(known.get(i, ()))
            form = rng.choice(["none", "none", "sym", "sym", "sym", "str", "list"])
            subs = {} if form == "none" else {str(n): rng.randrange(3)
                                              for n in rng.sample(range(RH_NAMES), rng.randint(1, 2))}
            ops.append({"op": "copy", "i": i, "id": lab, "h": h, "form": form, "subs": subs})
        elif r < 0.27:
            new_cell()
        elif r < 0.38:
            ops.append({"op": "setv", "p": rng.randrange(nvars), "x": (None if rng.random() < 0.3 else rng.randrange(3))})
        elif r < 0.51:
            pool_n = sorted({names[q] for q in known.get(i, ())})
            if pool_n and rng.random() < 0.7:
                ns = rng.sample(pool_n, rng.randint(1, min(2, len(pool_n))))
            else:
                ns = rng.sample(range(RH_NAMES), rng.randint(1, 2))
            ops.append({"op": "assign", "i": i, "h": h, "a": [[n, rng.randrange(3)] for n in ns],
                        "via": rng.choice(["assign", "cu", "cu"])})
        elif r < 0.54:
            ops.append({"op": "barrier", "i": i, "h": h})
        else:
            bad = rng.random() < 0.04
            cands = [j for j in cells if cells[j][1] < rank_i and (cells[j][0] <= m_i or bad)]
            if cands and rng.random() < 0.4:
                j = rng.choice(cands)
                w = cells[j][0]
                off = (max(0, m_i - w) + rng.randint(1, 2)) if bad else rng.randint(0, m_i - w)
                known.setdefault(i, set()).update(known.get(j, ()))
                ops.append({"op": "sub", "i": i, "j": j, "off": off, "h": h, "hj": rng.randrange(4),
                            "how": rng.choice(["nest", "nest", "merge", "ifd", "fd", "imm"])})
            else:
                leaf = gens.gen_leaf(rng, m_i, kinds=("BS", "PS", "PS", "PERM", "U"))
                if leaf["t"] in ANGLES and rng.random() < 0.85:
                    angles = ANGLES[leaf["t"]]
                    pids = rng.sample(range(nvars), rng.randint(1, min(2, nvars)))
                    leaf["bind"] = {a: rng.choice(pids) for a in rng.sample(angles, rng.randint(1, min(3, len(angles))))}
                    if not bad:
                        known.setdefault(i, set()).update(leaf["bind"].values())
                w = gens.leaf_width(leaf)
                off = (m_i - w + rng.randint(1, 2)) if bad else rng.randint(0, m_i - w)
                ops.append({"op": "leaf", "i": i, "off": off, "leaf": leaf, "h": h,
                            "how": rng.choice(["int", "int", "ifd", "fd", "imm"])})
    ops += [{"op": "eval", "i": i, "h": 0} for i in cells]
    return {"names": names, "vals": vals, "init": init, "ops": ops}


def leaf_slots(spec):
    """pids of the variable slots of a leaf spec, in the order of the component's parameter slots"""
    bind = spec.get("bind") or {}
    return [bind[a] for a in ANGLES.get(spec["t"], ()) if a in bind]


def run_reg_history(chk, hist, count=True):
    """-> failure tuple or None"""
    import itertools
    import perceval as pcvl
    import sympy as sp
    uid = run_reg_history.uid = getattr(run_reg_history, "uid", 0) + 1
    names, VALS = hist["names"], hist["vals"]
    nvars = len(names)
    where = {"reg_history": hist}

    def pname(n):
        return f"r{uid}n{n}"

    def nidx(name):
        return int(name.rsplit("n", 1)[1])

    params = [pcvl.P(pname(names[k])) for k in range(nvars)]
    for p, x in zip(params, hist["init"]):
        if x is not None:
            p.set_value(VALS[x])
    objs = list(params)                          # model pid -> Parameter object (copies append their new objects)
    pid_of = {id(p): k for k, p in enumerate(params)}

    def val_idx(p):
        if not p.defined:
            return None
        x = float(p)
        for k, y in enumerate(VALS):
            if abs(x - y) < 1e-9:
                return k
        return -1

    idx, handles, mirror = {}, [], []            # mirror[i] = [m, items]; item = (off, ('leaf', spec, res) | ('ref', j) | ('tree', node))
    referenced = set()
    state = {"clean": True, "safe": True}
    lean_ops, expect = [], []
    copies = set()

    def bump(name):
        if count:
            chk.branch(name)

    # ---- the mirror: matrices only --------------------------------------------------------------------------------
    def rvalue(r):
        if r[0] == "val":
            return r[1]
        if r[0] == "pid":
            p = params[r[1]]
        else:
            p = handles[r[1]][0].vars.get(pname(r[2]))
            if p is None:
                return None
        return float(p) if p.defined else None

    def rname(r):
        return names[r[1]] if r[0] == "pid" else r[2]

    def resolve(i):
        m, items = mirror[i]
        subs = []
        for off, it in items:
            if it[0] == "leaf":
                subs.append((off, ("L", it[1], it[2])))
            elif it[0] == "ref":
                subs.append((off, resolve(it[1])))
            else:
                subs.append((off, it[1]))
        return ("C", m, subs)

    def mirror_matrix(node):
        """numpy product of the embedded leaf matrices under the current values; None if a leaf parameter is undefined"""
        if node[0] == "L":
            spec, res = node[1], node[2]
            if not res:
                return fresh_matrix(spec, {})
            vals = {pid: rvalue(r) for pid, r in res.items()}
            if any(v is None for v in vals.values()):
                return None
            return fresh_matrix(spec, vals)
        m = node[1]
        u = np.eye(m, dtype=complex)
        for off, sub in node[2]:
            su = mirror_matrix(sub)
            if su is None:
                return None
            k = su.shape[0]
            e = np.eye(m, dtype=complex)
            e[off:off + k, off:off + k] = su
            u = e @ u
        return u

    def mirror_flat(node, base=0):
        if node[0] == "L":
            return [[base, gens.leaf_width(node[1])]]
        out = []
        for off, sub in node[2]:
            out.extend(mirror_flat(sub, base + off))
        return out

    def freeze(node, newcell, form, subs):
        if node[0] == "L":
            res = {}
            for pid, r in node[2].items():
                v = rvalue(r)
                n = None if r[0] == "val" else rname(r)
                if v is not None:
                    res[pid] = ("val", v)
                elif form == "sym" and str(n) in subs:
                    res[pid] = ("val", VALS[subs[str(n)]])
                else:
                    res[pid] = ("cname", newcell, n)
            return ("L", node[1], res)
        return ("C", node[1], [(off, freeze(sub, newcell, form, subs)) for off, sub in node[2]])

    # ---- observations of the real objects -------------------------------------------------------------------------
    def slot_params(c):
        """variable Parameter objects of the leaves met by iteration, one per slot, in order"""
        out = []
        for _, comp in c:
            for k in comp.params:
                p = comp.param(k)
                if not p.fixed:
                    out.append(p)
        return out

    def observe(i):
        c = handles[i][0]
        ps = c.get_parameters()
        return {"reg": [[pid_of.get(id(p), -1), nidx(p.name)] for p in ps],
                "keys": [nidx(k) for k in c.params], "vars": sorted(nidx(k) for k in c.vars),
                "defined": bool(c.defined), "occ": sorted({pid_of.get(id(p), -1) for p in slot_params(c)}),
                "env": [val_idx(p) for p in objs]}

    def direct_registry_checks(step):
        """theorems registry_exact / reachable_name_determines_parameter read on the real objects"""
        if not (state["clean"] and state["safe"]):
            return None
        bump("rh-exact-checked")
        for n, hs in enumerate(handles):
            c = hs[0]
            reg = {id(p) for p in c.get_parameters()}
            reach = slot_params(c)
            if reg != {id(p) for p in reach}:
                return ("violation", "registry-not-reachable-parameters",
                        f"after operation #{step} (no add failed, nothing grew after being nested) the parameters registered "
                        f"in pool entry {n} {sorted(p.name for p in c.get_parameters())} are not the variable parameters of "
                        f"its leaves {sorted({p.name for p in reach})}", where)
            by_name = {}
            for p in reach:
                if by_name.setdefault(p.name, p) is not p:
                    return ("violation", "two-parameters-one-name-in-circuit",
                            f"after operation #{step} pool entry {n} reaches two different Parameter objects named {p.name} "
                            f"although no circuit grew after being nested", where)
        return None

    def outcome_of(fn):
        try:
            return fn(), "ok", None
        except AssertionError:
            return None, "assertion", None
        except RuntimeError as e:
            if "two parameters with the same name" not in str(e):
                return None, "other", e
            return None, "runtime", None
        except KeyError:
            return None, "key", None
        except Exception as e:
            return None, "other", e

    for step, op in enumerate(hist["ops"]):
        k = op["op"]
        if k == "new":
            lean_ops.append({"new": op["m"], "rank": op["rank"]})
            obj, st, exc = outcome_of(lambda: pcvl.Circuit(op["m"]))
            if st != ("ok" if op["m"] > 0 else "assertion"):
                return ("violation", "operation-raises", f"operation #{step}: Circuit({op['m']}) -> {st} {exc}", where)
            if obj is not None:
                idx[op["id"]] = len(handles)
                handles.append([obj])
                mirror.append([op["m"], []])
                expect.append((step, st, observe(len(handles) - 1), None))
            else:
                expect.append((step, st, None, None))
            continue
        if k == "setv":
            if op["p"] >= nvars:
                continue
            p = params[op["p"]]
            if op["x"] is None:
                p.reset()
            else:
                p.set_value(VALS[op["x"]])
            lean_ops.append({"setv": op["p"], "x": op["x"]})
            expect.append((step, "ok", None, None))
            continue
        if op["i"] not in idx or (k == "sub" and op["j"] not in idx):
            continue
        i = idx[op["i"]]
        m_i = mirror[i][0]
        hs = handles[i]
        me = hs[op.get("h", 0) % len(hs)]
        if k == "barrier":
            lean_ops.append({"barrier": i})
            _, st, exc = outcome_of(me.barrier)
            if st != "ok":
                return ("violation", "operation-raises", f"operation #{step}: barrier() -> {st} {exc}", where)
            mirror[i][1].append((0, ("tree", ("L", {"t": "Barrier", "m": m_i}, {}))))
            expect.append((step, "ok", observe(i), None))
        elif k in ("leaf", "sub"):
            how, off = op["how"], op["off"]
            if k == "leaf":
                spec = op["leaf"]
                bind = spec.get("bind") or {}
                if any(v >= nvars for v in bind.values()):
                    continue
                slots = leaf_slots(spec)
                obj, st, exc = outcome_of(lambda: bound_leaf(spec, None, params))
                want_ctor = "ok"
                seen = {}
                for pid in slots:
                    if seen.setdefault(names[pid], pid) != pid:
                        want_ctor = "runtime"
                if st == "other" or st != want_ctor:
                    return ("violation", "component-constructor-outcome",
                            f"operation #{step}: building the elementary component gave {st} {exc or ''}, two different "
                            f"parameters with one name in it: {want_ctor == 'runtime'}", where)
                w = gens.leaf_width(spec)
                dist = sorted(set(slots))
                tab = []
                for combo in itertools.product(range(len(VALS)), repeat=len(dist)):
                    vmap = {p: VALS[c] for p, c in zip(dist, combo)}
                    tab.append({"at": [combo[dist.index(p)] for p in slots],
                                "U": core.mat(fresh_matrix(spec, vmap).tolist())})
                body = {"leaf": i, "off": off, "k": w, "slots": slots, "tab": tab}
                if st == "runtime":
                    bump("rh-leaf-ctor-runtime")
                    lean_ops.append(body)
                    expect.append((step, "runtime", observe(i), None))
                    continue
                new_items = [(off, ("leaf", spec, {p: ("pid", p) for p in dist}))]
                merge_like, j = False, None
            else:
                j = idx[op["j"]]
                hj = handles[j]
                obj = hj[op["hj"] % len(hj)]
                w = mirror[j][0]
                merge_like = how != "nest"
                body = {("merge" if merge_like else "nest"): i, "j": j, "off": off}
                if merge_like and mirror[j][1]:
                    new_items = [(off + o, it) for o, it in mirror[j][1]]
                else:
                    new_items = [(off, ("ref", j))]
            if i in referenced:
                state["safe"] = False
                bump("rh-growth-after-nesting")
            n_model = 1
            if how == "imm":
                lean_ops.append({"barrier": i})
                n_model = 2
            lean_ops.append(body)
            if how in ("int", "nest"):
                fn = (lambda: me.add(off, obj)) if k == "leaf" else (lambda: me.add(off, obj, merge=False))
            elif how == "merge":
                fn = lambda: me.add(off, obj, merge=True)
            elif how == "ifd":
                fn = lambda: me.__ifloordiv__((off, obj))
            elif how == "fd":
                fn = lambda: me // (off, obj)
            else:
                fn = lambda: me.__imatmul__((off, obj))
            res, st, exc = outcome_of(fn)
            if st == "other" or st == "key":
                return ("violation", "operation-raises",
                        f"operation #{step} of the history raised {type(exc).__name__ if exc else 'KeyError'}: {str(exc)[:120]}",
                        where)
            admissible = off + w <= m_i
            if (st == "assertion") != (not admissible):
                return ("violation", "accepts-inadmissible-program" if admissible is False else "rejects-admissible-program",
                        f"operation #{step}: range admissible = {admissible}, outcome {st}", where)
            if how == "imm":
                mirror[i][1].append((0, ("tree", ("L", {"t": "Barrier", "m": m_i}, {}))))
                expect.append((step, "ok", None, None))
            if st == "ok":
                mirror[i][1].extend(new_items)
                if new_items and new_items[0][1][0] == "ref" and k == "sub" and new_items[0][1][1] == j:
                    referenced.add(j)
                if how == "fd":
                    hs.append(res)
                if k == "sub":
                    bump("rh-merge" if merge_like else "rh-nest")
            elif st == "runtime":
                state["clean"] = False
                bump("rh-add-runtime")
            else:
                bump("rh-assertion")
            ob = observe(i)
            if st == "runtime" and set(p for p, _ in ob["reg"]) - set(ob["occ"]):
                bump("rh-stale-after-failed-add")
            expect.append((step, st, ob, None))
        elif k == "copy":
            form, subs = op["form"], op["subs"]
            if form == "none":
                arg, msubs = None, []
            elif form == "sym":
                arg = {sp.Symbol(pname(int(n)), real=True): VALS[x] for n, x in subs.items()}
                msubs = [[int(n), x] for n, x in subs.items()]
            elif form == "str":
                arg, msubs = {pname(int(n)): VALS[x] for n, x in subs.items()}, []       # keys are names: sympy never matches them
            else:
                arg, msubs = [pcvl.Parameter(pname(int(n)), VALS[x]) for n, x in subs.items()], []
            sub_names = {int(n) for n in subs} if form == "sym" else set()
            remaining = [nidx(p.name) for p in slot_params(me) if not p.defined and nidx(p.name) not in sub_names]
            want = "runtime" if len(set(remaining)) < len(remaining) else "ok"
            node = resolve(i)
            lean_ops.append({"copy": i, "subs": msubs})
            obj, st, exc = outcome_of((lambda: me.copy()) if arg is None else (lambda: me.copy(subs=arg)))
            if st != want:
                return ("violation", "copy-failure-set",
                        f"operation #{step}: copy({'' if arg is None else 'subs=...'}) -> {st} {exc or ''}; the slots left variable "
                        f"carry the names {remaining}: expected {want}", where)
            if st == "runtime":
                bump("rh-copy-runtime")
                expect.append((step, "runtime", observe(i), None))
                continue
            n_new = len(handles)
            idx[op["id"]] = n_new
            handles.append([obj])
            fresh = obj.get_parameters()
            for p in fresh:
                if id(p) in pid_of:
                    return ("violation", "copy-shares-parameter-object",
                            f"operation #{step}: the copy still holds the Parameter object {p.name} of the original", where)
                pid_of[id(p)] = len(objs)
                objs.append(p)
            mirror.append([m_i, [(o, ("tree", freeze(sub, n_new, form, subs))) for o, sub in node[2]]])
            if fresh:
                bump("rh-copy-fresh")
            if form == "sym" and any(nidx(p.name) in sub_names and not p.defined for p in slot_params(me)):
                bump("rh-copy-subs-symbol")
                if any(it[0] == "ref" for _, it in mirror[i][1]):
                    bump("rh-copy-subs-through-reference")
            if form in ("str", "list"):
                bump("rh-copy-subs-by-name-ignored")
            if i in copies:
                bump("rh-copy-of-copy")
            copies.add(n_new)
            expect.append((step, "ok", observe(n_new), None))
        elif k == "assign":
            a = {pname(n): VALS[x] for n, x in op["a"]}
            seen_n = {}
            for n, x in op["a"]:                      # a dict: a repeated name keeps its first position and its last value
                seen_n[n] = x
            ma = [[n, x] for n, x in seen_n.items()]
            lean_ops.append({"assign": i, "a": ma})
            known = set(me.vars)
            want = "ok" if all(key in known for key in a) else "key"
            if op["via"] == "assign":
                res, st, exc = outcome_of(lambda: me.assign(dict(a)))
                u = None
            else:
                res, st, exc = outcome_of(lambda: np.array(me.compute_unitary(assign=dict(a)), dtype=complex))
                u = res
            if st == "other":
                return ("violation", "operation-raises", f"operation #{step}: assign raised {exc}", where)
            if want == "key":
                if st != "key":
                    return ("violation", "assign-unknown-name", f"operation #{step}: a name that is not registered gave {st}",
                            where)
                bump("rh-keyerror")
                expect.append((step, "key", observe(i), None))
                continue
            bump("rh-assign-ok")
            # the registered objects have the values
            for key, x in a.items():
                p = me.vars[key]
                if not p.defined or abs(float(p) - x) > 1e-9:
                    return ("violation", "assign-does-not-set-value", f"operation #{step}: after assign {key} is {p}", where)
            if op["via"] == "assign":
                expect.append((step, "ok", observe(i), None))
            else:
                bump("rh-assign-through-compute-unitary")
                expect.append((step, "ok", observe(i), None))
                want_u = mirror_matrix(resolve(i))
                if (st == "assertion") != (want_u is None):
                    return ("violation", "evaluation-failure-set",
                            f"operation #{step}: compute_unitary(assign=...) -> {st}; a reachable leaf has an undefined parameter: "
                            f"{want_u is None}", where)
                lean_ops.append({"eval": i})
                if st == "assertion":
                    bump("rh-eval-undefined")
                    expect.append((step, "assertion", observe(i), None))
                else:
                    if u.shape != want_u.shape or not np.allclose(u, want_u, rtol=core.TOL, atol=core.TOL):
                        return ("violation", "matrix-ignores-parameter-value",
                                f"operation #{step}: compute_unitary(assign=...) is not the product of the leaves under the "
                                f"assigned values", where)
                    expect.append((step, "ok", observe(i), (u, [[r[0], len(r)] for r, _ in me])))
        elif k == "eval":
            node = resolve(i)
            want_u = mirror_matrix(node)
            res, st, exc = outcome_of(lambda: np.array(me.compute_unitary(), dtype=complex))
            if st in ("other", "key", "runtime"):
                return ("violation", "evaluation-raises-after-history",
                        f"operation #{step}: compute_unitary() raised {st} {exc or ''}", where)
            undefined_leaf = any(not p.defined for p in slot_params(me))
            if (st == "assertion") != undefined_leaf or (st == "assertion") != (want_u is None):
                return ("violation", "evaluation-failure-set",
                        f"operation #{step}: compute_unitary() -> {st}; a leaf met by iteration has an undefined parameter: "
                        f"{undefined_leaf}; the mirror expects {'an error' if want_u is None else 'a matrix'}", where)
            lean_ops.append({"eval": i})
            if st == "assertion":
                bump("rh-eval-undefined")
                expect.append((step, "assertion", observe(i), None))
                continue
            u = res
            flat = [[r[0], len(r)] for r, _ in me]
            lit = np.eye(m_i, dtype=complex)
            for r, c in me:
                e = np.eye(m_i, dtype=complex)
                e[r[0]:r[0] + len(r), r[0]:r[0] + len(r)] = np.array(c.compute_unitary(use_symbolic=False), dtype=complex)
                lit = e @ lit
            if not np.allclose(u, lit, rtol=core.TOL, atol=core.TOL):
                return ("violation", "matrix-not-product-after-history",
                        f"operation #{step}: compute_unitary() of pool entry {op['i']} differs from the ordered product of its "
                        f"current parts", where)
            if u.shape != want_u.shape or not np.allclose(u, want_u, rtol=core.TOL, atol=core.TOL) or \
                    flat != mirror_flat(node):
                if i in copies or any(n in copies for n in range(len(handles)) if n != i):
                    return ("violation", "copy-not-original-under-substitution",
                            f"operation #{step}: pool entry {op['i']} is not the product of the attached parts where a copied "
                            f"part reads the values of copy time, the substituted values, or its own new parameters", where)
                return ("violation", "matrix-ignores-parameter-value",
                        f"operation #{step}: compute_unitary() of pool entry {op['i']} is not the product of the attached parts "
                        f"under the current parameter values", where)
            if slot_params(me):
                bump("rh-eval-ok-bound")
            if i in copies and any(id(p) in pid_of and pid_of[id(p)] >= nvars for p in slot_params(me)):
                bump("rh-eval-copy-fresh-assigned")
            expect.append((step, "ok", observe(i), (u, flat)))
        bad = direct_registry_checks(step)
        if bad:
            return bad
    # ---- the same history in the Lean registry machine ------------------------------------------------------------
    rep = chk.lean.ask({"rhist": lean_ops, "names": names, "init": hist["init"]})
    if "err" in rep:
        return ("broken", "model-vs-code", f"the registry model rejects the history: {rep['err']}", where)
    outs = rep["out"]
    if len(outs) != len(expect):
        return ("broken", "model-vs-code", "registry model reply out of step", where)
    for o, (step, st, ob, ev) in zip(outs, expect):
        if o["st"] != st:
            return ("broken", "model-vs-code",
                    f"operation #{step}: the real API gave {st!r}, the registry model {o['st']!r}; the direct oracles on the real "
                    f"objects hold", where)
        if ob is not None:
            if o["reg"] != ob["reg"] or [n for _, n in o["reg"]] != ob["keys"] or sorted(n for _, n in o["reg"]) != ob["vars"]:
                return ("broken", "model-vs-code",
                        f"operation #{step}: registry (pid, name) of the real circuit {ob['reg']} (keys {ob['keys']}), of the "
                        f"model {o['reg']}", where)
            if sorted({p for p, _ in o["occ"]}) != ob["occ"]:
                return ("broken", "model-vs-code",
                        f"operation #{step}: parameters of the leaves met by iteration {ob['occ']}, model {o['occ']}", where)
            if o["defined"] != ob["defined"]:
                return ("broken", "model-vs-code", f"operation #{step}: `defined` is {ob['defined']}, model {o['defined']}", where)
            if o["env"] != ob["env"]:
                return ("broken", "model-vs-code",
                        f"operation #{step}: values of the Parameter objects {ob['env']}, model {o['env']}", where)
        if ev is not None:
            u, flat = ev
            mu = np.array(core.unmat(o["out"]["U"]), dtype=complex)
            if mu.shape != u.shape or not np.allclose(u, mu, rtol=core.TOL, atol=core.TOL) or o["out"]["flat"] != flat:
                return ("broken", "model-vs-code",
                        f"operation #{step}: the registry model and the implementation disagree on the matrix / ranges of a "
                        f"pool entry although the direct oracles agree with the implementation", where)
    return None


def handle_reg_history(chk, hist):
    res = run_reg_history(chk, hist)
    chk.count("reg_history_len", len(hist["ops"]) // 5 * 5)
    chk.case(("R", tuple(hist["names"]), tuple((o["op"], o.get("i"), o.get("j"), o.get("off"), o.get("how"), o.get("form"),
                                                 json.dumps(o.get("leaf", {}).get("bind"), sort_keys=True))
                                                for o in hist["ops"])),
             nontrivial=any(o["op"] == "copy" for o in hist["ops"]) and any(o["op"] == "assign" for o in hist["ops"]),
             sample={"reg_history": {"names": hist["names"],
                                     "ops": [(o["op"], o.get("i"), o.get("how") or o.get("form")) for o in hist["ops"]][:12]}})
    if res is None:
        return
    kind, sig, what, replay = res
    ops = list(hist["ops"])
    budget = 120
    i = 0
    while i < len(ops) and budget > 0:
        cand = dict(hist, ops=ops[:i] + ops[i + 1:])
        budget -= 1
        try:
            r = run_reg_history(chk, cand, count=False)
        except Exception:
            r = None
        if r is not None and r[1] == sig:
            ops = cand["ops"]
            kind, sig, what, replay = r
        else:
            i += 1
    chk.fail(kind, sig, what, replay)



# ------------------------------------------------------------------------------------------------
# extension 8: the `port_range` argument of `add` (int / tuple / list / `//=`), range shifts, literal block assignment
# (Lean: Model/C01Range.lean; driver requests {"range": …} and {"lit": …})
# ------------------------------------------------------------------------------------------------
RANGE_BRANCHES = ["range-ok-int", "range-ok-tuple", "range-ok-list", "range-ok-fd", "range-rej-nonconsecutive",
                  "range-rej-negative", "range-rej-too-high", "range-rej-length", "range-empty-valueerror",
                  "range-merge-shift-nonzero", "range-full-width", "range-lit-compared", "range-nested-iter-shift",
                  "range-tree-compared"]


def gen_range_arg(rng, m, k):
    """-> (form, value): mostly the admissible range(off, off + k), otherwise one of the ways to get it wrong"""
    form = rng.choice(["int", "tuple", "list", "fd"])
    r = rng.random()
    if r < 0.6 and k <= m:
        off = rng.randint(0, m - k)
    else:
        off = rng.randint(-2, m + 1)
    if form in ("int", "fd"):
        return {"form": form, "v": off}
    seq = list(range(off, off + k))
    r = rng.random()
    if r < 0.62:
        pass
    elif r < 0.68:
        seq = []
    elif r < 0.75 and len(seq) >= 1:
        seq = seq[:-1]
    elif r < 0.82:
        seq = seq + [seq[-1] + 1 if seq else 0]
    elif r < 0.88 and len(seq) >= 2:
        i = rng.randrange(len(seq) - 1)
        seq[i], seq[i + 1] = seq[i + 1], seq[i]
    elif r < 0.93 and len(seq) >= 2:
        i = rng.randrange(1, len(seq))
        seq = seq[:i] + [x + 1 for x in seq[i:]]
    elif r < 0.97 and len(seq) >= 2:
        seq = list(reversed(seq))
    elif len(seq) >= 2:
        seq[rng.randrange(1, len(seq))] = seq[0]
    return {"form": form, "v": seq}


def gen_range_case(rng, max_m):
    m = rng.randint(1, max_m)
    adds = []
    for _ in range(rng.randint(1, 5)):
        if rng.random() < 0.45 and m >= 2:
            k = rng.randint(1, m if rng.random() < 0.9 else m + 1)
            inner = []
            for _ in range(rng.randint(0, 2)):
                leaf = gens.gen_leaf(rng, k)
                inner.append({"off": rng.randint(0, k - gens.leaf_width(leaf)), "leaf": leaf})
            comp = {"k": k, "inner": inner}
        else:
            leaf = gens.gen_leaf(rng, m if rng.random() < 0.9 else m + 1)
            comp = {"k": gens.leaf_width(leaf), "leaf": leaf}
        arg = gen_range_arg(rng, m, comp["k"])
        adds.append({"arg": arg, "comp": comp, "merge": rng.choice([None, True, False])})
    return {"m": m, "adds": adds}


def range_expected(m, k, arg):
    """direct oracle, independent of the Lean driver: ("ok", off) iff the argument denotes range(off, off+k) inside
    [0, m); what the property calls an admissible attachment"""
    if arg["form"] in ("int", "fd"):
        seq = list(range(arg["v"], arg["v"] + k))
    else:
        seq = list(arg["v"])
    if seq and seq == list(range(seq[0], seq[0] + k)) and seq[0] >= 0 and seq[0] + k <= m and k > 0:
        return ("ok", seq[0])
    return ("rej", None)


def run_range_case(chk, case, count=True):
    import perceval as pcvl
    m = case["m"]
    c = pcvl.Circuit(m)
    exp_items = []          # direct oracle: (first port, leaf matrix) in order
    exp_stored = []         # ranges `_components` must hold
    reqs = []
    obs = []
    rcase_adds = []
    for ad in case["adds"]:
        comp, arg = ad["comp"], ad["arg"]
        k = comp["k"]
        if "leaf" in comp:
            obj = gens.build_leaf(comp["leaf"])
            leaves = [(0, obj)]
        else:
            obj = pcvl.Circuit(k)
            leaves = []
            for it in comp["inner"]:
                lf = gens.build_leaf(it["leaf"])
                obj.add(it["off"], lf)
                leaves.append((it["off"], lf))
        form, v = arg["form"], arg["v"]
        before = [tuple(r) for r, _ in c._components]
        try:
            if form == "fd":
                c //= (v, obj)          # merge=True inside
            else:
                a = v if form == "int" else (tuple(v) if form == "tuple" else list(v))
                if ad["merge"] is None:
                    c.add(a, obj)
                else:
                    c.add(a, obj, merge=ad["merge"])
            out = "ok"
        except AssertionError:
            out = "assertion"
        except ValueError:
            out = "valueError"
        except Exception as e:
            out = type(e).__name__
        merged = (form == "fd" or bool(ad["merge"])) and "inner" in comp and len(comp["inner"]) > 0
        after = [tuple(r) for r, _ in c._components]
        obs.append({"out": out, "new": [list(r) for r in after[len(before):]], "kept": after[:len(before)] == before})
        lean_arg = {"int": v} if form == "int" else ({"fd": v} if form == "fd" else {"seq": list(v)})
        reqs.append({"range": {"m": m, "k": k, "arg": lean_arg}})
        if "leaf" in comp:
            lcomp = {"leaf": obj.m, "U": gens.leaf_matrix_json(obj)}
        else:
            lcomp = {"circ": k, "inner": [{"off": o, "leaf": lf.m, "U": gens.leaf_matrix_json(lf)} for o, lf in leaves]}
        rcase_adds.append({"arg": lean_arg, "merge": bool(form == "fd" or ad["merge"]), "comp": lcomp})
        exp = range_expected(m, k, arg)
        if exp[0] == "ok":
            off = exp[1]
            for o, lf in leaves:
                exp_items.append((o + off, lf))
            if merged:
                exp_stored.extend([list(range(o + off, o + off + lf.m)) for o, lf in leaves])
            else:
                exp_stored.append(list(range(off, off + k)))
        if count:
            if exp[0] == "ok":
                chk.branch("range-ok-" + form)
                if merged and off > 0:
                    chk.branch("range-merge-shift-nonzero")
                if not merged and "inner" in comp and comp["inner"] and off > 0:
                    chk.branch("range-nested-iter-shift")
                if not merged and k == m:
                    chk.branch("range-full-width")
            elif form in ("tuple", "list"):
                if len(v) == 0:
                    chk.branch("range-empty-valueerror")
                elif v != list(range(v[0], v[0] + len(v))):
                    chk.branch("range-rej-nonconsecutive")
                elif v[0] < 0:
                    chk.branch("range-rej-negative")
                elif v[-1] >= m:
                    chk.branch("range-rej-too-high")
                elif len(v) != k:
                    chk.branch("range-rej-length")
            else:
                chk.branch("range-rej-negative" if v < 0 else "range-rej-too-high")
    reps = chk.lean.ask_many(reqs)
    replay = {"range_case": case}
    for i, (ad, ob, rep) in enumerate(zip(case["adds"], obs, reps)):
        if "err" in rep:
            return ("broken", "range-driver", f"the Lean driver refused request {i}: {rep['err']}", replay)
        exp = range_expected(m, ad["comp"]["k"], ad["arg"])
        if exp[0] == "ok" and ob["out"] != "ok":
            return ("violation", "rejects-admissible-range",
                    f"add #{i} with {ad['arg']} on {m} modes (component of {ad['comp']['k']}) raised {ob['out']} although "
                    "the range is inside the circuit, consecutive and of the component's size", replay)
        if exp[0] != "ok" and ob["out"] == "ok":
            return ("violation", "accepts-inadmissible-range",
                    f"add #{i} accepted {ad['arg']} on {m} modes for a component of {ad['comp']['k']} modes: the component "
                    "cannot sit on exactly these modes", replay)
        if rep["st"] != ob["out"]:
            return ("broken", "range-outcome-class",
                    f"add #{i} with {ad['arg']}: the real code gives {ob['out']}, the model {rep['st']}", replay)
        if ob["out"] != "ok" and (ob["new"] or not ob["kept"]):
            return ("violation", "rejected-add-changes-circuit",
                    f"add #{i} raised {ob['out']} but the component list changed", replay)
    stored = [list(r) for r, _ in c._components]
    if stored != exp_stored:
        return ("violation", "stored-ranges",
                f"the circuit holds its items on {stored}, they were attached at {exp_stored}", replay)
    # model side of the stored ranges: norm of the argument, shifted element-wise when merged
    mreqs, mexp = [], []
    for ad, ob, rep in zip(case["adds"], obs, reps):
        if ob["out"] != "ok":
            continue
        comp = ad["comp"]
        merged = (ad["arg"]["form"] == "fd" or bool(ad["merge"])) and "inner" in comp and len(comp["inner"]) > 0
        if merged:
            for it in comp["inner"]:
                w = gens.leaf_width(it["leaf"])
                mreqs.append({"range": {"m": comp["k"], "k": w, "arg": {"int": it["off"]}, "outer": rep["norm"]}})
                mexp.append("shifted")
        else:
            mreqs.append({"range": {"m": m, "k": comp["k"], "arg": {"seq": rep["norm"]}}})
            mexp.append("norm")
    mreps = chk.lean.ask_many(mreqs) if mreqs else []
    model_stored = [r[w] for r, w in zip(mreps, mexp)]
    if model_stored != stored:
        return ("broken", "range-stored-model",
                f"the circuit holds {stored}, the model (norm / mergeRange) says {model_stored}", replay)
    # iteration + literal evaluation
    try:
        it_items = [(list(r), lf) for r, lf in c]
        u = np.array(c.compute_unitary(), dtype=complex)
    except Exception as e:
        return ("violation", "evaluation-raises",
                f"compute_unitary()/iteration after accepted adds raised {type(e).__name__}: {str(e)[:120]}", replay)
    exp_iter = [list(range(o, o + lf.m)) for o, lf in exp_items]
    if [r for r, _ in it_items] != exp_iter:
        return ("violation", "iteration-ranges",
                f"iteration reports {[r for r, _ in it_items]}, the leaves were attached at {exp_iter}", replay)
    spec = np.eye(m, dtype=complex)
    for o, lf in exp_items:
        e = np.eye(m, dtype=complex)
        e[o:o + lf.m, o:o + lf.m] = np.array(lf.compute_unitary(), dtype=complex)
        spec = e @ spec
    if not np.allclose(u, spec, rtol=core.TOL, atol=core.TOL):
        return ("violation", "matrix-not-product",
                f"compute_unitary() differs from the ordered product of the embedded leaf matrices by "
                f"{float(np.max(np.abs(u - spec))):.3g}", replay)
    if not np.allclose(u @ u.conj().T, np.eye(m), atol=1e-8):
        return ("violation", "not-unitary", "compute_unitary() after accepted adds of unitary leaves is not unitary", replay)
    lit = chk.lean.ask({"lit": {"m": m, "items": [{"r": r, "k": lf.m, "U": gens.leaf_matrix_json(lf)}
                                                  for r, lf in it_items]}})
    if "err" in lit:
        return ("broken", "range-lit-driver", f"the literal loop of the model refused the iteration ranges: {lit['err']}",
                replay)
    if count:
        chk.branch("range-lit-compared")
    mu = np.array(core.unmat(lit["U"]), dtype=complex)
    if mu.shape != u.shape or not np.allclose(u, mu, rtol=core.TOL, atol=core.TOL):
        return ("broken", "range-lit-matrix", "the literal loop of the model (slice assignment, len(r)==m shortcut, u=None "
                "start) and compute_unitary() disagree although the direct oracle holds", replay)
    # the whole case run by the literal tree model (radd / riter / rlitV, sub-circuits kept as trees)
    rc = chk.lean.ask({"rcase": {"m": m, "adds": rcase_adds}})
    if "err" in rc:
        return ("broken", "range-tree-driver", f"the range-tree model refused the case: {rc['err']}", replay)
    if rc["outs"] != [o["out"] for o in obs]:
        return ("broken", "range-tree-outcomes", f"outcomes of the adds: real {[o['out'] for o in obs]}, model {rc['outs']}",
                replay)
    if rc["stored"] != stored:
        return ("broken", "range-tree-stored", f"_components ranges: real {stored}, model {rc['stored']}", replay)
    if rc["iter"] != [r for r, _ in it_items]:
        return ("broken", "range-tree-iteration",
                f"iteration ranges: real {[r for r, _ in it_items]}, model {rc['iter']}", replay)
    tu = np.array(core.unmat(rc["U"]), dtype=complex)
    if tu.shape != u.shape or not np.allclose(u, tu, rtol=core.TOL, atol=core.TOL):
        return ("broken", "range-tree-matrix", "rlitV of the range-tree model and compute_unitary() disagree although the "
                "direct oracle holds", replay)
    if count:
        chk.branch("range-tree-compared")
    return None


def handle_range_case(chk, case):
    res = run_range_case(chk, case)
    chk.count("range_m", case["m"])
    chk.case(("range", case["m"], tuple((a["arg"]["form"], str(a["arg"]["v"]), a["comp"]["k"], str(a["merge"]))
                                        for a in case["adds"])),
             nontrivial=any("inner" in a["comp"] and a["comp"]["inner"] for a in case["adds"]),
             sample={"m": case["m"], "args": [a["arg"] for a in case["adds"]][:4]})
    if res is None:
        return
    kind, sig, what, replay = res

    def fails(adds):
        r = run_range_case(chk, {"m": case["m"], "adds": adds}, count=False)
        return r is not None and r[1] == sig
    small = gens.shrink_list(case["adds"], fails)
    chk.fail(kind, sig, what, {"range_case": {"m": case["m"], "adds": small}})


def run(chk: core.Check):
    chk.rule = ("random construction programs (add int/tuple/list range, merge yes/no/default, //, //(i,c), @, "
                "barrier, copy, leaf-started circuits, nested sub-circuits; 10% with one inadmissible range); "
                "distinct = distinct (sizes, offsets, operations, nesting) signatures; non-trivial = contains a "
                "nested sub-circuit attached at a non-zero offset somewhere; every circuit is evaluated three times; "
                "plus histories over a pool of circuit objects (new / add leaf, possibly bound to shared variable parameters / "
                "nest by reference / merge through add, //=, //, @=, @ / barrier / copy() / set_value / evaluation through any "
                "handle; 10% with an inadmissible range) sent as histories to the Lean heap model and run with the real API, "
                "every evaluation compared (non-trivial = at least one sub-circuit added); small circuits are also evaluated "
                "symbolically (quick: a share, thorough: all circuits of at most 4 modes and 16 leaves, a tenth of those of 17-28 leaves), with values and with the variables "
                "left symbolic and substituted afterwards; plus construction programs whose BS/PS leaves are bound to variable "
                "parameters that receive values, and then other values, after assembly; plus histories of the registry "
                "machine (Parameter objects some of which share a name, defined or not; leaves bound to them; add / nest / "
                "merge / // / @= with the duplicate-name RuntimeError, also in the middle of the loop; set_value / reset; "
                "assign and compute_unitary(assign=...) with registered and unregistered names; copy(), copy(subs=...) by "
                "symbol, by name, by list; evaluation with undefined parameters) sent to the Lean registry model and run with "
                "the real API: outcome class, registry (names, order, object identity), `defined`, parameters of the reachable "
                "leaves, values of all Parameter objects after every operation, matrices at every evaluation (non-trivial = "
                "contains a copy and an assign); plus port-range cases (Circuit(m) receiving 1-5 adds whose port_range is an "
                "int, a tuple, a list or the (pos, c) pair of //=, admissible or wrong in one way: negative, too high, not "
                "consecutive, reversed, duplicated port, too short, too long, empty; component a leaf or a sub-circuit, merged "
                "or nested): outcome class of every add, the ranges stored in _components, the ranges iteration reports and "
                "the matrix compared with the Lean model of the assertion chain / mergeRange / the literal slice assignment "
                "(non-trivial = contains a sub-circuit with leaves)")
    chk.assumptions = ["leaf matrices are taken from each leaf's own compute_unitary() (their correctness is C14)"]
    chk.required_branches = ["merge", "nest", "floordiv", "matmul", "barrier", "copy", "lead-leaf", "rejected",
                             "hist-nest-by-reference", "hist-merge", "hist-reevaluated-after-growth", "hist-copy",
                             "hist-set-value", "hist-bound-leaf", "hist-shallow-handle", "hist-matmul",
                             "hist-eval-through-shallow-handle", "hist-symbolic-substituted", "hist-rejected",
                             "hist-set-through-assign",
                             "symbolic", "param-value-changed-after-assembly", "param-matmul", "param-symbolic-substituted"] + \
                            ["symbolic-leaf-" + t for t in ("BS", "PS", "PERM", "U", "UH", "Barrier")] + RH_BRANCHES + RANGE_BRANCHES
    chk.lean = core.LeanDriver("C01")
    rng = chk.rng
    n = chk.pick(500, 5000)
    max_m = chk.pick(6, 9)
    max_depth = chk.pick(3, 5)
    max_ops = chk.pick(10, 24)
    # corpus first
    for entry in load_corpus():
        if "pool_history" in entry:
            handle_history(chk, entry["pool_history"])
        elif "reg_history" in entry:
            handle_reg_history(chk, entry["reg_history"])
        elif "range_case" in entry:
            handle_range_case(chk, entry["range_case"])
        else:
            handle(chk, entry["program"])
    batch = []
    for i in range(n):
        m = rng.randint(1, max_m)
        expr = gen_circ(rng, m, rng.randint(0, max_depth), rng.randint(1, max_ops), malformed=(rng.random() < 0.1))
        # sympy's cost explodes on long narrow circuits (3 modes, 31 leaves: 90 s): thorough takes all circuits up to 16
        # leaves, a tenth of those up to 28, none beyond (quick: a share of everything, circuits are short there)
        if m <= 4 and rng.random() < chk.pick(0.35, 1.0 if n_leaves(expr) <= 16 else (0.1 if n_leaves(expr) <= 28 else 0.0)) and \
                n_leaves(expr) <= SYM_MAX_LEAVES:
            expr["symbolic"] = True
        batch.append(expr)
    for expr in batch:
        handle(chk, expr)
    for _ in range(chk.pick(150, 1500)):
        handle_history(chk, gen_pool_history(rng, rng.randint(6, chk.pick(18, 36)), chk.pick(5, 7),
                                             malformed=(rng.random() < 0.1)))
    for _ in range(chk.pick(150, 1500)):
        m = rng.randint(2, 5)
        e = gen_circ(rng, m, rng.randint(0, 2), rng.randint(2, 8))
        handle_param_program(chk, strip_for_params(rng, e, [0]))
    for _ in range(chk.pick(250, 2500)):
        handle_reg_history(chk, gen_reg_history(rng, rng.randint(6, chk.pick(20, 32)), chk.pick(4, 5)))
    for _ in range(chk.pick(400, 2000)):
        handle_range_case(chk, gen_range_case(rng, chk.pick(6, 8)))


def count_ops(chk, e):
    if "leaf" in e:
        chk.count("leaf_kind", e["leaf"]["t"])
        return
    if e.get("lead") is not None:
        chk.branch("lead-leaf")
    for op in e["ops"]:
        k = op["op"]
        if k == "add":
            if "circ" in op["c"]:
                chk.branch("merge" if op["merge"] else "nest")
        elif k == "fd":
            chk.branch("floordiv")
        elif k == "mm":
            chk.branch("matmul")
        else:
            chk.branch(k)
        if "c" in op:
            count_ops(chk, op["c"])


def leaf_kinds(e, acc):
    if "leaf" in e:
        acc.add(e["leaf"]["t"])
        return acc
    if e.get("lead") is not None:
        acc.add(e["lead"]["t"])
    for op in e["ops"]:
        if "c" in op:
            leaf_kinds(op["c"], acc)
        elif op["op"] == "barrier":
            acc.add("Barrier")
    return acc


def handle(chk, expr):
    count_ops(chk, expr)
    chk.count("m", expr["circ"])
    chk.count("depth", depth_of(expr))
    res = judge(chk, expr)
    chk.case(signature(expr), nontrivial=nested_nonzero(expr),
             sample={"m": expr["circ"], "depth": depth_of(expr),
                     "ops": [(op["op"], op.get("off")) for op in expr["ops"]][:8]})
    if res is not None:
        kind, sig, what, replay = res
        small = shrink(chk, expr, sig)
        chk.fail(kind, sig, what, {"program": small})


def load_corpus():
    import glob
    import os
    out = []
    for p in sorted(glob.glob(os.path.join(core.VERIF, "corpus", "C01", "*.json"))):
        out.append(json.load(open(p)))
    return out


def replay(chk, data):
    chk.lean = core.LeanDriver("C01")
    chk.rule = "replay of one stored program"
    if "param_program" in data["replay"]:
        handle_param_program(chk, data["replay"]["param_program"])
        return
    for key in ("pool_history", "history"):
        if key in data["replay"]:
            handle_history(chk, data["replay"][key])
            return
    if "reg_history" in data["replay"]:
        handle_reg_history(chk, data["replay"]["reg_history"])
        return
    if "range_case" in data["replay"]:
        handle_range_case(chk, data["replay"]["range_case"])
        return
    expr = data["replay"]["program"]
    handle(chk, expr)
