"""C01 — circuit matrix = ordered product of embedded parts, unitary, assembly-independent.

Correspondence: random construction programs are executed with the real `Circuit` API and, in the
canonical form `add(off, c, merge)` / `barrier`, by the Lean model (`Model/C01.lean`); compared:
`compute_unitary()` (tolerance 1e-9 against the exact product) and the iteration ranges (exactly).
"""
from __future__ import annotations

import copy
import json

import numpy as np

from . import core, gens


# ------------------------------------------------------------------------------------------------
# program generation
# ------------------------------------------------------------------------------------------------
def gen_circ(rng, m, depth, max_ops, malformed=False):
    ops = []
    n_ops = rng.randint(1, max_ops)
    lead = None
    if rng.random() < 0.15:
        lead = gens.gen_leaf(rng, m)
        while gens.leaf_width(lead) != m:
            lead = gens.gen_leaf(rng, m)
    for _ in range(n_ops):
        r = rng.random()
        if r < 0.08:
            ops.append({"op": "barrier"})
            continue
        if r < 0.12 and not (lead is not None and not ops):
            ops.append({"op": "copy"})
            continue
        # what to add
        if depth > 0 and m >= 2 and rng.random() < 0.4:
            k = rng.randint(1, m)
            sub = gen_circ(rng, k, depth - 1, max(1, max_ops // 2))
            width = k
        else:
            leaf = gens.gen_leaf(rng, m)
            sub = {"leaf": leaf}
            width = gens.leaf_width(leaf)
        off = rng.randint(0, m - width)
        how = rng.choice(["add", "add", "fd", "mm"])
        if how == "add":
            ops.append({"op": "add", "off": off, "c": sub, "merge": rng.choice([None, True, False]),
                        "form": rng.choice(["int", "tuple", "list"])})
        else:
            ops.append({"op": how, "off": (None if off == 0 and rng.random() < 0.5 else off), "c": sub})
    if malformed:
        # one out-of-range add somewhere
        leaf = gens.gen_leaf(rng, m)
        w = gens.leaf_width(leaf)
        ops.insert(rng.randint(0, len(ops)), {"op": "add", "off": m - w + rng.randint(1, 2), "c": {"leaf": leaf},
                                              "merge": None, "form": "int"})
    return {"circ": m, "lead": lead, "ops": ops}


_LEAF_BUILDER = [gens.build_leaf]


def build(expr):
    """-> (perceval object, lean json).  Raises what the real API raises."""
    import perceval as pcvl
    if "leaf" in expr:
        obj = _LEAF_BUILDER[0](expr["leaf"])
        return obj, {"leaf": obj.m, "U": gens.leaf_matrix_json(obj)}
    m = expr["circ"]
    lops = []
    if expr.get("lead") is not None:
        c = _LEAF_BUILDER[0](expr["lead"])
        lops.append({"add": 0, "merge": False, "c": {"leaf": c.m, "U": gens.leaf_matrix_json(c)}})
    else:
        c = pcvl.Circuit(m)
    for op in expr["ops"]:
        kind = op["op"]
        if kind == "barrier":
            if isinstance(c, pcvl.Circuit):
                c.barrier()
            else:
                c = pcvl.Circuit(m).add(0, c).barrier()
            lops.append({"barrier": True})
        elif kind == "copy":
            c = c.copy()
        else:
            sub, lsub = build(op["c"])
            if kind == "add":
                off = op["off"]
                rng_ = off if op["form"] == "int" else (
                    tuple(range(off, off + sub.m)) if op["form"] == "tuple" else list(range(off, off + sub.m)))
                if op["merge"] is None:
                    c = c.add(rng_, sub)
                    merge = False
                else:
                    c = c.add(rng_, sub, merge=op["merge"])
                    merge = op["merge"]
                lops.append({"add": off, "merge": bool(merge), "c": lsub})
            elif kind == "fd":
                c = c // (sub if op["off"] is None else (op["off"], sub))
                lops.append({"add": op["off"] or 0, "merge": True, "c": lsub})
            elif kind == "mm":
                if not isinstance(c, pcvl.Circuit):
                    c = pcvl.Circuit(m).add(0, c)
                c = c @ (sub if op["off"] is None else (op["off"], sub))
                lops.append({"barrier": True})
                lops.append({"add": op["off"] or 0, "merge": True, "c": lsub})
    return c, {"circ": m, "ops": lops}


# ------------------------------------------------------------------------------------------------
# direct oracle on the implementation: numpy product of the embedded leaves' own matrices
# ------------------------------------------------------------------------------------------------
def oracle_matrix(lj):
    if "leaf" in lj:
        return np.array(core.unmat(lj["U"]), dtype=complex)
    m = lj["circ"]
    u = np.eye(m, dtype=complex)
    for op in lj["ops"]:
        if "barrier" in op:
            continue
        sub = oracle_matrix(op["c"])
        k = sub.shape[0]
        e = np.eye(m, dtype=complex)
        e[op["add"]:op["add"] + k, op["add"]:op["add"] + k] = sub
        u = e @ u
    return u


def oracle_flat(lj, base=0):
    if "leaf" in lj:
        return [[base, lj["leaf"]]]
    out = []
    for op in lj["ops"]:
        if "barrier" in op:
            out.append([base, lj["circ"]])
        else:
            out.extend(oracle_flat(op["c"], base + op["add"]))
    return out


def observe(expr):
    """Run the real code. -> dict(err=...) or dict(U=..., flat=..., lean=...)"""
    try:
        c, lj = build(expr)
    except (AssertionError, ValueError, RuntimeError, TypeError) as e:
        return {"err": type(e).__name__, "msg": str(e)[:200]}
    u = np.array(c.compute_unitary(), dtype=complex)
    # evaluating is an observation: asking again must give the same matrix and must not disturb the parts
    again = [np.array(c.compute_unitary(), dtype=complex) for _ in range(2)]
    u_last = again[-1]
    flat = [[r[0], len(r)] for r, _ in c]
    out = {"U": u_last, "U_first": u, "flat": flat, "lean": lj, "m": c.m}
    if expr.get("symbolic"):
        # the symbolic computation (what `.U` reports) evaluated numerically must be the same matrix
        try:
            sym = c.compute_unitary(use_symbolic=True)
            out["U_sym"] = np.array([[complex(x) for x in row] for row in sym.tolist()], dtype=complex)
        except Exception as e:   # an exception of the real code on a legal circuit is a finding, not a harness crash
            out["U_sym_err"] = f"{type(e).__name__}: {str(e)[:150]}"
    return out


def lean_program_of(expr, pick=lambda leaf: leaf):
    """Lean program of a spec, leaf matrices taken from freshly built leaves (`pick` chooses which variant of a
    leaf spec is in force: used for leaves bound to variable parameters)."""
    def go(e):
        if "leaf" in e:
            obj = gens.build_leaf(pick(e["leaf"]))
            return {"leaf": obj.m, "U": gens.leaf_matrix_json(obj)}
        ops = []
        if e.get("lead") is not None:
            obj = gens.build_leaf(pick(e["lead"]))
            ops.append({"add": 0, "merge": False, "c": {"leaf": obj.m, "U": gens.leaf_matrix_json(obj)}})
        for op in e["ops"]:
            if op["op"] == "barrier":
                ops.append({"barrier": True})
            elif op["op"] == "copy":
                pass
            else:
                if op["op"] == "mm":
                    ops.append({"barrier": True})
                merge = bool(op.get("merge")) if op["op"] == "add" else True
                ops.append({"add": op["off"] or 0, "merge": merge, "c": go(op["c"])})
        return {"circ": e["circ"], "ops": ops}
    return go(expr)


def depth_of(e):
    if "leaf" in e:
        return 0
    return 1 + max([depth_of(op["c"]) for op in e["ops"] if "c" in op] or [0])


def signature(e):
    if "leaf" in e:
        return ("L", gens.leaf_width(e["leaf"]), e["leaf"]["t"])
    return ("C", e["circ"], e.get("lead") is not None,
            tuple((op["op"], op.get("off"), op.get("merge"), signature(op["c"]) if "c" in op else None)
                  for op in e["ops"]))


def nested_nonzero(e):
    if "leaf" in e:
        return False
    for op in e["ops"]:
        if "c" in op and "circ" in op["c"]:
            if (op.get("off") or 0) > 0 or nested_nonzero(op["c"]):
                return True
    return False


# ------------------------------------------------------------------------------------------------
def judge(chk, expr, lean_reply=None):
    """Compare implementation, model and direct oracle on one program.  Returns a failure tuple or None."""
    obs = observe(expr)
    if "err" in obs:
        lj = lean_program_of(expr)
        rep = lean_reply if lean_reply is not None else chk.lean.ask(lj)
        chk.branch("rejected")
        if "err" in rep:
            return None
        return ("violation", "rejects-admissible-program",
                f"the real API raised {obs['err']} ({obs['msg']}) on a program whose ranges are all admissible",
                {"program": expr})
    if not np.allclose(obs["U_first"], obs["U"], rtol=core.TOL, atol=core.TOL):
        return ("violation", "matrix-changes-on-reevaluation",
                f"compute_unitary() called again on the same circuit returns a different matrix (max diff "
                f"{float(np.max(np.abs(obs['U_first'] - obs['U']))):.3g})", {"program": expr})
    if "U_sym_err" in obs:
        return ("violation", "symbolic-matrix-raises", "compute_unitary(use_symbolic=True) raised " + obs["U_sym_err"],
                {"program": expr})
    if "U_sym" in obs:
        spec_u = oracle_matrix(obs["lean"]) if obs["lean"].get("ops") else np.eye(obs["m"], dtype=complex)
        if obs["U_sym"].shape != spec_u.shape or not np.allclose(obs["U_sym"], spec_u, rtol=1e-7, atol=1e-7):
            return ("violation", "symbolic-matrix-not-product",
                    "the symbolic matrix (compute_unitary(use_symbolic=True), what .U reports) evaluated numerically "
                    "differs from the ordered product of the embedded leaf matrices", {"program": expr})
    rep = lean_reply if lean_reply is not None else chk.lean.ask(obs["lean"])
    if "err" in rep:
        return ("violation", "accepts-inadmissible-program",
                f"the real API accepted a program the model rejects ({rep['err']})", {"program": expr})
    model_u = np.array(core.unmat(rep["U"]), dtype=complex)
    ok_u = model_u.shape == obs["U"].shape and np.allclose(obs["U"], model_u, rtol=core.TOL, atol=core.TOL)
    ok_flat = rep["flat"] == obs["flat"]
    if ok_u and ok_flat:
        # unitarity on the implementation (leaves are unitary by construction)
        if not np.allclose(obs["U"] @ obs["U"].conj().T, np.eye(obs["m"]), atol=1e-8):
            return ("violation", "not-unitary", "compute_unitary() is not unitary", {"program": expr})
        return None
    # disagreement: evaluate the property directly on the implementation
    spec_u = oracle_matrix(obs["lean"])
    spec_flat = oracle_flat(obs["lean"])
    if not np.allclose(obs["U"], spec_u, rtol=core.TOL, atol=core.TOL):
        return ("violation", "matrix-not-product",
                f"compute_unitary() differs from the ordered product of the embedded leaf matrices by "
                f"{float(np.max(np.abs(obs['U'] - spec_u))):.3g}", {"program": expr})
    if obs["flat"] != spec_flat:
        return ("violation", "iteration-ranges",
                f"iteration reports ranges {obs['flat']} but the components were attached at {spec_flat}",
                {"program": expr})
    return ("broken", "model-vs-code", "Lean model and implementation disagree but the direct oracle holds",
            {"program": expr, "lean": rep if len(json.dumps(rep)) < 4000 else "(large)"})


def shrink(chk, expr, sig):
    """Greedy structural shrinking keeping the same failure signature."""
    def fails(e):
        r = judge(chk, e)
        return r is not None and r[1] == sig

    cur = copy.deepcopy(expr)

    def paths(e, pre=()):
        yield pre
        for i, op in enumerate(e["ops"]):
            if "c" in op and "circ" in op["c"]:
                yield from paths(op["c"], pre + (i,))

    def at(e, p):
        for i in p:
            e = e["ops"][i]["c"]
        return e

    budget = 150
    changed = True
    while changed and budget > 0:
        changed = False
        for p in list(paths(cur)):
            node = at(cur, p)
            for i in range(len(node["ops"])):
                if len(node["ops"]) == 1 or budget <= 0:
                    break
                cand = copy.deepcopy(cur)
                del at(cand, p)["ops"][i]
                budget -= 1
                try:
                    ok = fails(cand)
                except Exception:
                    ok = False
                if ok:
                    cur = cand
                    changed = True
                    break
            if changed:
                break
    return cur


# ------------------------------------------------------------------------------------------------
# histories: circuits nested by reference keep growing after their parents were evaluated
# ------------------------------------------------------------------------------------------------
def gen_history(rng, n_circ, n_ops, max_m):
    ms = sorted((rng.randint(1, max_m) for _ in range(n_circ)), reverse=True)
    ops = []
    for _ in range(n_ops):
        r = rng.random()
        i = rng.randrange(n_circ)
        if r < 0.30:
            ops.append({"op": "eval", "i": i})
            continue
        if r < 0.36:
            ops.append({"op": "copy", "i": i})      # the copy becomes a new pool entry (never mutated afterwards)
            continue
        cands = [j for j in range(i + 1, n_circ) if ms[j] <= ms[i]]
        if r < 0.70 or not cands:
            leaf = gens.gen_leaf(rng, ms[i], kinds=("BS", "PS", "PERM", "U", "UH"))
            ops.append({"op": "leaf", "i": i, "off": rng.randint(0, ms[i] - gens.leaf_width(leaf)), "leaf": leaf})
        else:
            j = rng.choice(cands)
            ops.append({"op": rng.choice(["nest", "nest", "merge"]), "i": i, "j": j, "off": rng.randint(0, ms[i] - ms[j])})
    ops += [{"op": "eval", "i": i} for i in range(n_circ)]
    return {"ms": ms, "ops": ops}


def run_history(chk, hist, count=True):
    """-> failure tuple or None.  Mirror: pool[i] = list of (off, ('leaf', json) | ('ref', j) | ('tree', snapshot))."""
    import perceval as pcvl
    ms = hist["ms"]
    real = [pcvl.Circuit(m) for m in ms]
    pool = [[] for _ in ms]
    sizes = list(ms)

    def snap(i):
        ops = []
        for off, (k, x) in pool[i]:
            c = x if k in ("leaf", "tree") else snap(x)
            ops.append({"add": off, "merge": False, "c": c})
        return {"circ": sizes[i], "ops": ops}

    evaluated_parents = set()
    for step, op in enumerate(hist["ops"]):
        k = op["op"]
        i = op["i"]
        if k == "leaf":
            obj = gens.build_leaf(op["leaf"])
            real[i].add(op["off"], obj)
            pool[i].append((op["off"], ("leaf", {"leaf": obj.m, "U": gens.leaf_matrix_json(obj)})))
        elif k == "nest":
            real[i].add(op["off"], real[op["j"]], merge=False)
            pool[i].append((op["off"], ("ref", op["j"])))
            if count:
                chk.branch("hist-nest-by-reference")
        elif k == "merge":
            real[i].add(op["off"], real[op["j"]], merge=True)
            if pool[op["j"]]:
                pool[i].extend((op["off"] + o, item) for o, item in pool[op["j"]])
            else:
                pool[i].append((op["off"], ("ref", op["j"])))
            if count:
                chk.branch("hist-merge")
        elif k == "copy":
            real.append(real[i].copy())
            pool.append([(0, ("tree", snap(i)))] if pool[i] else [])
            sizes.append(sizes[i])
        elif k == "eval":
            lj = snap(i)
            u = np.array(real[i].compute_unitary(), dtype=complex)
            flat = [[r[0], len(r)] for r, _ in real[i]]
            if count and i in evaluated_parents:
                chk.branch("hist-reevaluated-after-growth")
            evaluated_parents.add(i)
            rep = chk.lean.ask(lj)
            spec_u = oracle_matrix(lj) if lj["ops"] else np.eye(sizes[i], dtype=complex)
            spec_flat = oracle_flat(lj)
            where = {"history": hist, "step": step}
            if "err" in rep:
                return ("broken", "model-vs-code", f"model rejects a snapshot the real API built: {rep['err']}", where)
            model_u = np.array(core.unmat(rep["U"]), dtype=complex)
            if not np.allclose(u, spec_u, rtol=core.TOL, atol=core.TOL):
                return ("violation", "matrix-not-product-after-history",
                        f"after {step} operations compute_unitary() of circuit #{i} differs from the ordered product "
                        f"of its current parts by {float(np.max(np.abs(u - spec_u))):.3g}", where)
            if flat != spec_flat:
                return ("violation", "iteration-ranges-after-history",
                        f"after {step} operations iteration of circuit #{i} reports {flat}, parts are at {spec_flat}", where)
            if not np.allclose(u, model_u, rtol=core.TOL, atol=core.TOL) or rep["flat"] != flat:
                return ("broken", "model-vs-code", "Lean model and implementation disagree on a history snapshot "
                        "but the direct oracle holds", where)
    return None


def handle_history(chk, hist):
    res = run_history(chk, hist)
    n_nest = sum(1 for o in hist["ops"] if o["op"] == "nest")
    chk.count("history_len", len(hist["ops"]) // 5 * 5)
    chk.case(("H", tuple(hist["ms"]), tuple((o["op"], o["i"], o.get("j"), o.get("off")) for o in hist["ops"])),
             nontrivial=n_nest > 0, sample={"history": {"ms": hist["ms"], "ops": [(o["op"], o["i"], o.get("j")) for o in hist["ops"]][:10]}})
    if res is None:
        return
    kind, sig, what, replay = res
    ops = list(hist["ops"])
    budget = 120
    i = 0
    while i < len(ops) and budget > 0:      # greedy shrinking: every sub-history is a legal history
        cand = {"ms": hist["ms"], "ops": ops[:i] + ops[i + 1:]}
        budget -= 1
        try:
            r = run_history(chk, cand, count=False)
        except Exception:
            r = None
        if r is not None and r[1] == sig:
            ops = cand["ops"]
            kind, sig, what, replay = r
        else:
            i += 1
    chk.fail(kind, sig, what, replay)


# ------------------------------------------------------------------------------------------------
# circuits whose leaves are bound to variable parameters that receive (new) values after assembly
# ------------------------------------------------------------------------------------------------
def strip_for_params(rng, e, counter):
    """no copy (a copy legitimately detaches parameters), no leading leaf; BS/PS leaves get two alternative angle sets"""
    if "leaf" in e:
        leaf = e["leaf"]
        if leaf["t"] in ("BS", "PS") and rng.random() < 0.7:
            alts = []
            for _ in range(2):
                a = gens.gen_leaf(rng, 2, kinds=(leaf["t"],))
                if leaf["t"] == "BS":
                    a["conv"] = leaf["conv"]
                alts.append(a)
            leaf["alts"] = alts
            leaf["id"] = counter[0]
            counter[0] += 1
        return e
    e["lead"] = None
    e["ops"] = [op for op in e["ops"] if op["op"] != "copy"]
    for op in e["ops"]:
        if "c" in op:
            strip_for_params(rng, op["c"], counter)
    return e


def run_param_program(chk, expr, count=True):
    import perceval as pcvl
    from perceval.components import BS, PS
    from perceval.components.unitary_components import BSConvention
    setters = []

    def builder(spec):
        if "alts" not in spec:
            return gens.build_leaf(spec)
        i = spec["id"]
        if spec["t"] == "PS":
            ps = {"phi": pcvl.P(f"v{i}_phi")}
            obj = PS(ps["phi"])
        else:
            ps = {k: pcvl.P(f"v{i}_{k}") for k in ("theta", "tl", "bl", "tr", "br")}
            obj = BS(theta=ps["theta"], phi_tl=ps["tl"], phi_bl=ps["bl"], phi_tr=ps["tr"], phi_br=ps["br"],
                     convention=BSConvention[spec["conv"]])

        def setter(alt):
            for k, par in ps.items():
                par.set_value((2 if k == "theta" else 1) * gens.cs_angle(alt[k]))
        setters.append((spec, setter))
        return obj

    _LEAF_BUILDER[0] = builder
    try:
        # leaf matrices requested at build time would need values: give every variable its first value as soon as
        # the leaf exists, then assemble; values are set AGAIN (same, then different) after assembly
        def builder0(spec):
            obj = builder(spec)
            if "alts" in spec:
                setters[-1][1](spec["alts"][0] if expr.get("values_before_assembly") else spec["alts"][0])
            return obj
        _LEAF_BUILDER[0] = builder0
        c, _ = build(expr)
    finally:
        _LEAF_BUILDER[0] = gens.build_leaf
    for rnd in (0, 1):
        for spec, setter in setters:
            setter(spec["alts"][rnd])
        lj = lean_program_of(expr, pick=lambda leaf: leaf["alts"][rnd] if "alts" in leaf else leaf)
        try:
            u = np.array(c.compute_unitary(), dtype=complex)
        except Exception as e:
            return ("violation", "parametrised-circuit-raises",
                    f"compute_unitary() raised {type(e).__name__}: {str(e)[:120]} on a circuit whose parameters all have values",
                    {"param_program": expr, "round": rnd})
        spec_u = oracle_matrix(lj) if lj["ops"] else np.eye(expr["circ"], dtype=complex)
        if count and rnd == 1:
            chk.branch("param-value-changed-after-assembly")
        if not np.allclose(u, spec_u, rtol=core.TOL, atol=core.TOL):
            return ("violation", "matrix-ignores-parameter-value",
                    f"after setting the variable parameters ({'new' if rnd else 'first'} values) compute_unitary() differs "
                    f"from the ordered product of the leaves at those values by {float(np.max(np.abs(u - spec_u))):.3g}",
                    {"param_program": expr, "round": rnd})
        rep = chk.lean.ask(lj)
        if "err" in rep or not np.allclose(u, np.array(core.unmat(rep["U"]), dtype=complex), rtol=core.TOL, atol=core.TOL):
            return ("broken", "model-vs-code", "Lean model and implementation disagree on a parametrised circuit but the "
                    "direct oracle holds", {"param_program": expr, "round": rnd})
    return None


def handle_param_program(chk, expr):
    nvar = [0]

    def cnt(e):
        if "leaf" in e:
            nvar[0] += 1 if "alts" in e["leaf"] else 0
            return
        for op in e["ops"]:
            if "c" in op:
                cnt(op["c"])
            if op["op"] == "mm":
                chk.branch("param-matmul")
    cnt(expr)
    res = run_param_program(chk, expr)
    chk.case(("P", json.dumps(expr, sort_keys=True)[:2000]), nontrivial=nvar[0] >= 1 and nested_nonzero(expr),
             sample={"param_program": {"m": expr["circ"], "variables": nvar[0]}})
    if res is not None:
        chk.fail(*res)


def run(chk: core.Check):
    chk.rule = ("random construction programs (add int/tuple/list range, merge yes/no/default, //, //(i,c), @, "
                "barrier, copy, leaf-started circuits, nested sub-circuits; 10% with one inadmissible range); "
                "distinct = distinct (sizes, offsets, operations, nesting) signatures; non-trivial = contains a "
                "nested sub-circuit attached at a non-zero offset somewhere; every circuit is evaluated three times; "
                "plus histories over a pool of circuits nested by reference/merged/copied which keep growing and are "
                "re-evaluated in between (non-trivial = at least one nest by reference); a share of small circuits is also "
                "evaluated symbolically (what .U reports); plus circuits whose BS/PS leaves are bound to variable parameters "
                "that receive values, and then other values, after assembly")
    chk.assumptions = ["leaf matrices are taken from each leaf's own compute_unitary() (their correctness is C14)"]
    chk.required_branches = ["merge", "nest", "floordiv", "matmul", "barrier", "copy", "lead-leaf", "rejected",
                             "hist-nest-by-reference", "hist-merge", "hist-reevaluated-after-growth",
                             "symbolic", "param-value-changed-after-assembly", "param-matmul"]
    chk.lean = core.LeanDriver("C01")
    rng = chk.rng
    n = chk.pick(500, 8000)
    max_m = chk.pick(6, 9)
    max_depth = chk.pick(3, 5)
    max_ops = chk.pick(10, 24)
    # corpus first
    for expr in load_corpus():
        handle(chk, expr)
    batch = []
    for i in range(n):
        m = rng.randint(1, max_m)
        expr = gen_circ(rng, m, rng.randint(0, max_depth), rng.randint(1, max_ops), malformed=(rng.random() < 0.1))
        if m <= 4 and rng.random() < chk.pick(0.35, 0.1):
            expr["symbolic"] = True
            chk.branch("symbolic")
        batch.append(expr)
    for expr in batch:
        handle(chk, expr)
    for _ in range(chk.pick(120, 1500)):
        handle_history(chk, gen_history(rng, rng.randint(2, 4), rng.randint(6, chk.pick(16, 30)), chk.pick(5, 7)))
    for _ in range(chk.pick(150, 1500)):
        m = rng.randint(2, 5)
        e = gen_circ(rng, m, rng.randint(0, 2), rng.randint(2, 8))
        handle_param_program(chk, strip_for_params(rng, e, [0]))


def count_ops(chk, e):
    if "leaf" in e:
        chk.count("leaf_kind", e["leaf"]["t"])
        return
    if e.get("lead") is not None:
        chk.branch("lead-leaf")
    for op in e["ops"]:
        k = op["op"]
        if k == "add":
            if "circ" in op["c"]:
                chk.branch("merge" if op["merge"] else "nest")
        elif k == "fd":
            chk.branch("floordiv")
        elif k == "mm":
            chk.branch("matmul")
        else:
            chk.branch(k)
        if "c" in op:
            count_ops(chk, op["c"])


def handle(chk, expr):
    count_ops(chk, expr)
    chk.count("m", expr["circ"])
    chk.count("depth", depth_of(expr))
    res = judge(chk, expr)
    chk.case(signature(expr), nontrivial=nested_nonzero(expr),
             sample={"m": expr["circ"], "depth": depth_of(expr),
                     "ops": [(op["op"], op.get("off")) for op in expr["ops"]][:8]})
    if res is not None:
        kind, sig, what, replay = res
        small = shrink(chk, expr, sig)
        chk.fail(kind, sig, what, {"program": small})


def load_corpus():
    import glob
    import os
    out = []
    for p in sorted(glob.glob(os.path.join(core.VERIF, "corpus", "C01", "*.json"))):
        out.append(json.load(open(p))["program"])
    return out


def replay(chk, data):
    chk.lean = core.LeanDriver("C01")
    chk.rule = "replay of one stored program"
    if "param_program" in data["replay"]:
        handle_param_program(chk, data["replay"]["param_program"])
        return
    if "history" in data["replay"]:
        handle_history(chk, data["replay"]["history"])
        return
    expr = data["replay"]["program"]
    handle(chk, expr)
