"""C15 helper — dict / list containers of serialisable objects (model: lean/PercevalModel/Model/C15Tree.lean,
theorems: Lemmas/C15Tree.lean, driver ops `tree` / `treedec` of Driver/C15Tree.lean).

Tree spec (JSON-able):
    {"leaf": <leaf spec>} | {"raw": None|bool|int|float|str} | {"list": [tree…]} | {"dict": [[key, tree]…]}
    key: {"leaf": <leaf spec>} (a hashable serialisable object) | {"str": "…"}
Entry: {"via": "mem"|"file", "compress": None|True|False|[tags…]} (None = the argument is not passed), or one of the
strings "default" / "text" / "textz" / "file" / "filez" used by harness/c15.py.

API
    gen_tree(rng, depth, gen_leaf, boundary=0.0) -> tree spec       gen_leaf(rng) -> (leaf spec, build)
    gen_entry(rng) -> entry
    build_tree(tree_spec, build_leaf) -> the real container         build_leaf(leaf spec) -> fresh object
    judge_tree(driver, tree_spec, build_leaf, same_leaf, entry, tmpdir) -> None | (kind, signature, what)
        same_leaf(x, y) -> None when y is an equivalent object, else a short reason (convention of c15.same_obj)
    shrink(tree_spec, fails) -> smaller tree spec for which fails(spec) is still true
    demo_gen_leaf / demo_build_leaf / demo_same_leaf : simple leaves (BasicState, BSDistribution, Matrix, NoiseModel,
        a small Circuit, Detector) for stand-alone tests;  selftest(n, seed, …)

judge_tree
    (a) direct oracle, only for trees inside `Tree.WF` (no raw string / string key starts with ":PCVL:"): the real round
        trip must return the same shape, the same key sets (string keys by `==` and type, object keys by same_leaf),
        raw values identical including their type, leaves equal by same_leaf; else ("violation", "container-roundtrip"
        | "container-raises-<Exc>" | "container-serialize-raises-<Exc>", …).
    (b) model vs code, for every tree: the wire equals the model's `encode` where every leaf text is what the real
        `serialize(leaf, compress=c)` gives on its own with the SAME `c` at every level and for keys as well as values
        (`leaf_compress`); the model's `decode` of the real wire (leaf table = the real reader on each prefixed string)
        fails exactly when the real reader raises and otherwise has the shape and order of the real result; else
        ("broken", "model-vs-code:container", …).
    A spec that cannot be judged (a leaf does not build, two object keys are equal) returns None with info["reject"].

Boundaries of the real code found by hand (outside `Tree.WF` / outside `Key`), not generated unless `boundary` > 0:
    * a raw string or string key starting with ":PCVL:" is taken for an object (raises NotImplementedError /
      binascii.Error, or comes back as the object it happens to denote); `{BasicState("|1,0>"): 1,
      ":PCVL:BasicState:|1,0>": 2}` serialises to ONE item;
    * keys hashed by identity (Circuit, Detector, …): `{Circuit(2)//BS(): 1, Circuit(2)//BS(): 2}` has two items,
      its serialisation one (equal texts) — in the model these are two equal keys, excluded by `keys distinct`;
    * int / float / bool / None keys: unchanged in memory, turned into strings by json in the file entry
      (`{1: "a", "1": "b"}` comes back as `{"1": "b"}`); tuple keys: json refuses;
    * tuples / sets / bytes as values: `serialize` returns them unchanged with the objects inside NOT serialised
      (the file entry raises TypeError in json.dumps; `deserialize` raises TypeError on bytes);
    * StateVector keys: `==` is approximate but `hash` is exact and order-dependent, so after the (1e-6 grid) round
      trip `list(y)[0] == k` holds while `k in y` is False for amplitudes such as 1/sqrt(3);
    * `compress` must be exactly `bool` or `list`: a tuple, None, an int or numpy.bool_ raise NotImplementedError
      (multipledispatch), a nested list (`[["BasicState"]]`) silently compresses nothing.
"""
import inspect
import json
import os
from fractions import Fraction

PREFIX = ":PCVL:"
NEAR_PREFIX = [":PCVL", "PCVL:", ":pcvl:x", " :PCVL:x", ":PCVL :", "zip:", ":"]
PLAIN_STRINGS = ["", "text", "|1,0>", "results", "BasicState", "0", "None"] + NEAR_PREFIX
KEY_STRINGS = ["k1", "k2", "results", "|1,0>", "|0,1>", "", "1", "null", "true", "BasicState"] + NEAR_PREFIX
BOUNDARY_STRINGS = [":PCVL:", ":PCVL:hello", ":PCVL:BasicState:|1>", ":PCVL:zip:xx", ":PCVL:Nope:1", ":PCVL:BasicState"]
INTS = [0, 1, -7, 255, 2 ** 70, -(10 ** 30)]
FLOATS = [0.0, 2.5, -1.25, 1e-7, 1 / 3, 1e300, 5e-324]
COMPRESS = [None, True, False, ["BasicState"], ["BSDistribution", "ACircuit"], [], ["BasicState", "Matrix", "Detector"],
            ["NoiseModel"], [["BasicState"]]]
LEGACY_ENTRIES = {"default": ("mem", None), "text": ("mem", False), "textz": ("mem", True), "file": ("file", False),
                  "filez": ("file", True)}


def norm_entry(entry):
    if isinstance(entry, str):
        via, c = LEGACY_ENTRIES[entry]
        return {"via": via, "compress": c}
    return {"via": entry["via"], "compress": entry.get("compress")}


def gen_entry(rng):
    return {"via": rng.choice(["mem", "mem", "file"]), "compress": rng.choice(COMPRESS)}


def entry_name(entry):
    e = norm_entry(entry)
    c = e["compress"]
    return e["via"] + ":" + ("default" if c is None else json.dumps(c, separators=(",", ":")))


def _call_build(build, spec):
    try:
        n = len(inspect.signature(build).parameters)
    except (TypeError, ValueError):
        n = 1
    return build(spec) if n >= 1 else build()


def value_hashed(obj):
    """usable as a dict key whose meaning is its value: hashable, and `__hash__` is not the identity hash"""
    h = getattr(type(obj), "__hash__", None)
    if h is None or h is object.__hash__:
        return False
    try:
        hash(obj)
    except Exception:
        return False
    return True


# --- generator ---------------------------------------------------------------------------------------------------
def gen_raw(rng, boundary=0.0):
    if boundary and rng.random() < boundary:
        return rng.choice(BOUNDARY_STRINGS)
    r = rng.random()
    if r < 0.15:
        return None
    if r < 0.3:
        return rng.choice([True, False])
    if r < 0.5:
        return rng.choice(INTS)
    if r < 0.65:
        return rng.choice(FLOATS)
    return rng.choice(PLAIN_STRINGS)


def _same_key(a, b):
    """`a == b` as a dict would ask it; objects of different classes never collide (the native `__eq__` of a
    StateVector raises TypeError on a BasicState)"""
    if type(a) is not type(b):
        return False
    try:
        return bool(a == b)
    except Exception:
        return False


def gen_tree(rng, depth, gen_leaf, boundary=0.0):
    """a tree nested up to `depth` (≤ 4 recommended); dicts with 0..4 keys mixing strings and object keys, lists
    0..4, every raw scalar kind, empty containers, the same leaf reused.  `boundary` > 0 also plants raw strings /
    string keys that start with ":PCVL:" (outside `Tree.WF`: only model-vs-code is compared there)."""
    pool = []          # leaves of this tree, for reuse
    key_pool = []      # leaves usable as keys: (spec, object)

    def leaf():
        if pool and rng.random() < 0.3:
            return rng.choice(pool)
        spec, build = gen_leaf(rng)
        pool.append(spec)
        return spec

    def key_leaf():
        if key_pool and rng.random() < 0.3:
            return rng.choice(key_pool)
        for _ in range(4):
            spec, build = gen_leaf(rng)
            try:
                obj = _call_build(build, spec)
                ok = value_hashed(obj) and obj == _call_build(build, spec) and hash(obj) == hash(_call_build(build, spec))
            except Exception:
                ok = False
            if ok:
                key_pool.append((spec, obj))
                pool.append(spec)
                return spec, obj
        return None

    def go(d):
        r = rng.random()
        if d == 0 or (r < 0.25 and d < depth):
            return {"leaf": leaf()} if rng.random() < 0.55 else {"raw": gen_raw(rng, boundary)}
        if r < 0.6:
            return {"list": [go(d - 1) for _ in range(rng.randint(0, 4))]}
        items, seen_str, seen_obj = [], set(), []
        for _ in range(rng.randint(0, 4)):
            if rng.random() < 0.4:
                kl = key_leaf()
                if kl is None or any(_same_key(kl[1], o) for o in seen_obj):
                    continue
                seen_obj.append(kl[1])
                items.append([{"leaf": kl[0]}, go(d - 1)])
            else:
                s = rng.choice(BOUNDARY_STRINGS) if boundary and rng.random() < boundary else rng.choice(KEY_STRINGS)
                if s in seen_str:
                    continue
                seen_str.add(s)
                items.append([{"str": s}, go(d - 1)])
        return {"dict": items}

    return go(depth)


def build_tree(t, build_leaf):
    if "leaf" in t:
        return build_leaf(t["leaf"])
    if "raw" in t:
        return t["raw"]
    if "list" in t:
        return [build_tree(c, build_leaf) for c in t["list"]]
    r = {}
    for k, v in t["dict"]:
        r[build_leaf(k["leaf"]) if "leaf" in k else k["str"]] = build_tree(v, build_leaf)
    return r


def tree_stats(t, out=None, depth=0):
    """{"depth", "leaves", "obj_keys", "str_keys", "dicts", "lists", "raws", "empty"}"""
    out = out if out is not None else dict(depth=0, leaves=0, obj_keys=0, str_keys=0, dicts=0, lists=0, raws=0, empty=0)
    out["depth"] = max(out["depth"], depth)
    if "leaf" in t:
        out["leaves"] += 1
    elif "raw" in t:
        out["raws"] += 1
    elif "list" in t:
        out["lists"] += 1
        out["empty"] += not t["list"]
        for c in t["list"]:
            tree_stats(c, out, depth + 1)
    else:
        out["dicts"] += 1
        out["empty"] += not t["dict"]
        for k, v in t["dict"]:
            out["obj_keys" if "leaf" in k else "str_keys"] += 1
            tree_stats(v, out, depth + 1)
    return out


def py_wf(t):
    """`Tree.WF` evaluated on the spec, independently of Lean (key distinctness is checked on the built dict)"""
    if "leaf" in t:
        return True
    if "raw" in t:
        return not (isinstance(t["raw"], str) and t["raw"].startswith(PREFIX))
    if "list" in t:
        return all(py_wf(c) for c in t["list"])
    return all(("leaf" in k or not k["str"].startswith(PREFIX)) and py_wf(v) for k, v in t["dict"])


# --- conversions to the driver's syntax --------------------------------------------------------------------------
def raw_json(v):
    if v is None or isinstance(v, (bool, str)):
        return v
    if isinstance(v, int):
        return v
    if isinstance(v, float):
        if v != v or v in (float("inf"), float("-inf")):
            raise ValueError("non-finite float")
        fr = Fraction(*v.as_integer_ratio())
        return {"num": f"{fr.numerator}/{fr.denominator}" if fr.denominator != 1 else f"{fr.numerator}"}
    raise ValueError(f"not a passthrough value: {type(v).__name__}")


def wire_json(w):
    """what the real `serialize` returned (or `json.loads` of the file) in the driver's wire syntax"""
    if type(w) is dict:
        items = []
        for k, v in w.items():
            if type(k) is not str:
                raise ValueError(f"wire dict key of type {type(k).__name__}")
            items.append([k, wire_json(v)])
        return {"dict": items}
    if type(w) is list:
        return {"list": [wire_json(c) for c in w]}
    return {"raw": raw_json(w)}


def wire_strings(w, out):
    if type(w) is dict:
        for k, v in w.items():
            if type(k) is str:
                out.append(k)
            wire_strings(v, out)
    elif type(w) is list:
        for c in w:
            wire_strings(c, out)
    elif type(w) is str:
        out.append(w)
    return out


def model_tree(t, leaf_id):
    if "leaf" in t:
        return {"obj": leaf_id(t["leaf"])}
    if "raw" in t:
        return {"raw": raw_json(t["raw"])}
    if "list" in t:
        return {"list": [model_tree(c, leaf_id) for c in t["list"]]}
    return {"dict": [[({"obj": leaf_id(k["leaf"])} if "leaf" in k else {"str": k["str"]}), model_tree(v, leaf_id)]
                     for k, v in t["dict"]]}


def first_diff(a, b, path="$"):
    """first position where two driver-syntax values differ (None when equal)"""
    if type(a) is not type(b):
        return path
    if isinstance(a, dict):
        if sorted(a) != sorted(b):
            return path
        for k in a:
            r = first_diff(a[k], b[k], f"{path}.{k}")
            if r:
                return r
        return None
    if isinstance(a, list):
        if len(a) != len(b):
            return f"{path}(length {len(a)} vs {len(b)})"
        for i, (x, y) in enumerate(zip(a, b)):
            r = first_diff(x, y, f"{path}[{i}]")
            if r:
                return r
        return None
    return None if a == b else path


# --- direct oracle -----------------------------------------------------------------------------------------------
def same_raw(a, b):
    return type(a) is type(b) and a == b


def same_tree(t, x, y, same_leaf, path="$"):
    """None when `y` (what came back) means the same as `x` (a fresh build of spec `t`), else a reason"""
    if "leaf" in t:
        r = same_leaf(x, y)
        return None if r is None else f"{path}: {r}"
    if "raw" in t:
        return None if same_raw(x, y) else f"{path}: value {x!r} came back as {type(y).__name__} {str(y)[:40]!r}"
    if "list" in t:
        if type(y) is not list:
            return f"{path}: a list came back as {type(y).__name__}"
        if len(y) != len(x):
            return f"{path}: list of {len(x)} came back with {len(y)} elements"
        for i, c in enumerate(t["list"]):
            r = same_tree(c, x[i], y[i], same_leaf, f"{path}[{i}]")
            if r:
                return r
        return None
    if type(y) is not dict:
        return f"{path}: a dict came back as {type(y).__name__}"
    if len(x) != len(t["dict"]):
        return f"{path}: generator produced equal keys"     # not a property failure; judged as gen-reject
    if len(y) != len(x):
        return f"{path}: dict of {len(x)} items came back with {len(y)}"
    xs, ys = list(x.items()), list(y.items())
    used = set()
    for (k, tv), (kx, vx) in zip(t["dict"], xs):
        hit = None
        for j, (ky, vy) in enumerate(ys):
            if j in used:
                continue
            if "str" in k:
                if type(ky) is str and ky == kx:
                    hit = j
                    break
            elif type(ky) is not str and same_leaf(kx, ky) is None:
                hit = j
                break
        if hit is None:
            return f"{path}: key {str(kx)[:40]!r} is missing from what came back"
        used.add(hit)
        r = same_tree(tv, vx, ys[hit][1], same_leaf, f"{path}[{str(kx)[:30]}]")
        if r:
            return r
    return None


# --- the judge ---------------------------------------------------------------------------------------------------
def _ser(x, c):
    from perceval.serialization import serialize
    return serialize(x) if c is None else serialize(x, compress=c)


def run_entry(x, entry, tmpdir):
    """-> (wire as Python value, result).  Raises what the real code raises; `.stage` tells where."""
    from perceval.serialization import deserialize, serialize_to_file, deserialize_file
    e = norm_entry(entry)
    c = e["compress"]
    if e["via"] == "mem":
        out = _ser(x, c)
        return out, (lambda: deserialize(out))
    path = os.path.join(tmpdir, "tree.json")
    if c is None:
        serialize_to_file(x, path)
    else:
        serialize_to_file(x, path, compress=c)
    with open(path) as f:
        out = json.loads(f.read())
    return out, (lambda: deserialize_file(path))


def leaf_compress(tree_spec, entry):
    """the `compress` value every leaf of the tree must have been serialised with: the argument is handed down
    unchanged; when it is not given, the root overload's own default applies (`False` for dict, list and
    `serialize_to_file`; the leaf's own default when the root is a leaf in memory)"""
    e = norm_entry(entry)
    if e["compress"] is not None:
        return e["compress"]
    if e["via"] == "mem" and "leaf" in tree_spec:
        return None
    return False


def exc_name(e):
    return type(e).__name__


def judge_tree(driver, tree_spec, build_leaf, same_leaf, entry, tmpdir, info=None):
    """None, or (kind, signature, what) with kind "violation" (the round trip of a well-formed container fails on the
    real code — decided without Lean) or "broken" (model and code disagree).  `info`, when a dict, receives
    {"wf", "stats", "raised"[, "reject": why the spec could not be judged]}."""
    from perceval.serialization import deserialize
    e = norm_entry(entry)
    ename = entry_name(e)
    wf = py_wf(tree_spec)
    if info is not None:
        info.update(wf=wf, stats=tree_stats(tree_spec), raised=None)

    # leaves: one object per distinct spec; texts as the real writer gives them on their own
    cl = leaf_compress(tree_spec, e)
    cache = {}

    def leaf_rec(spec):
        key = json.dumps(spec, sort_keys=True)
        if key not in cache:
            t1 = _ser(build_leaf(spec), cl)
            t2 = _ser(build_leaf(spec), cl)
            cache[key] = {"text": t1, "loose": t1 != t2, "spec": spec}
        return cache[key]

    try:
        x = build_tree(tree_spec, build_leaf)
        x0 = build_tree(tree_spec, build_leaf)
    except Exception as ex:
        if info is not None:
            info["reject"] = f"build: {exc_name(ex)}: {str(ex)[:100]}"
        return None
    # --- the real round trip
    raised = None
    y = None
    try:
        out, reader = run_entry(x, e, tmpdir)
    except Exception as ex:
        return ("violation" if wf else "broken", f"container-serialize-raises-{exc_name(ex)}",
                f"container ({ename}): serialize raises {exc_name(ex)}: {str(ex)[:120]}")
    try:
        y = reader()
    except Exception as ex:
        raised = ex
    if info is not None:
        info["raised"] = exc_name(raised) if raised else None
    # --- (a) direct oracle (well-formed trees only: this is the property)
    if wf:
        if raised is not None:
            return ("violation", f"container-raises-{exc_name(raised)}",
                    f"container ({ename}): deserialize raises {exc_name(raised)}: {str(raised)[:120]}")
        bad = same_tree(tree_spec, x0, y, same_leaf)
        if bad is not None:
            if "generator produced equal keys" in bad:
                if info is not None:
                    info["reject"] = "equal-keys"
                return None
            return ("violation", "container-roundtrip", f"container ({ename}): {bad}")
    # --- (b) model vs code
    try:
        ids = {}

        def leaf_id(spec):
            rec = leaf_rec(spec)
            return ids.setdefault(rec["text"], len(ids))

        mt = model_tree(tree_spec, leaf_id)
    except Exception as ex:
        return ("violation" if wf else "broken", f"container-leaf-raises-{exc_name(ex)}",
                f"container ({ename}): serialising a leaf on its own raises {exc_name(ex)}: {str(ex)[:120]}")
    loose = {rec["text"] for rec in cache.values() if rec["loose"]}
    try:
        real_wire = wire_json(out)
    except ValueError as ex:
        return ("broken", "model-vs-code:container", f"container ({ename}): {ex}")
    # reader table: every prefixed string of the real wire that the real reader accepts on its own
    dec_tbl, dec_obj = {}, {}
    for s in wire_strings(out, []):
        if s.startswith(PREFIX) and s not in dec_tbl and s not in dec_obj:
            try:
                o = deserialize(s)
            except Exception:
                dec_obj[s] = None
                continue
            i = ids.get(s)
            if i is None:
                i = len(ids) + len([v for v in dec_tbl.values() if v >= len(ids)])
            dec_tbl[s] = i
            dec_obj[s] = o
    reqs = [{"op": "tree", "tree": mt, "leaves": {str(i): {"text": t} for t, i in ids.items()}},
            {"op": "treedec", "wire": real_wire, "leaves": dec_tbl}]
    reps = driver.ask_many(reqs)
    for r in reps:
        if "err" in r:
            return ("broken", "driver-rejects", f"driver: {r['err']}")
    rep, rep2 = reps
    if rep["wf"] != wf:
        return ("broken", "model-vs-code:container", f"container: Tree.WF is {rep['wf']} in Lean, {wf} in Python")
    if not rep["codec_ok"]:
        return ("broken", "model-vs-code:container",
                f"container ({ename}): a leaf text does not start with {PREFIX!r} (hypothesis `pre` of the theorem)")
    if wf and not rep["rt"]:
        return ("broken", "model-vs-code:container", "container: the driver contradicts roundtrip_tree")
    d = first_diff(rep["wire"], real_wire)
    if d is not None and loose:
        d = first_diff(_loosen(rep["wire"], loose, ids), _loosen(real_wire, loose, ids))
    if d is not None:
        return ("broken", "model-vs-code:container",
                f"container ({ename}): what serialize returned differs from the model's encode at {d} "
                f"(every level gets the same compress, keys are serialised, items are assigned in order)")
    if (rep2["dec"] is None) != (raised is not None):
        return ("broken", "model-vs-code:container",
                f"container ({ename}): the reader " + (f"raises {exc_name(raised)}" if raised else "returns")
                + " where the model's decode " + ("returns" if raised else "fails"))
    if raised is None:
        objs = {i: dec_obj[s] for s, i in dec_tbl.items()}
        bad = shape_vs_model(rep2["dec"], y, objs, same_leaf)
        if bad is not None:
            return ("broken", "model-vs-code:container",
                    f"container ({ename}): what deserialize returned differs from the model's decode at {bad}")
    return None


def _loosen(w, loose, ids):
    """replace the texts of leaves whose writer is not deterministic by a placeholder (both sides)"""
    if "dict" in w:
        return {"dict": [[("<loose>" if (k in loose or (k.startswith(PREFIX) and k not in ids)) else k), _loosen(v, loose, ids)]
                         for k, v in w["dict"]]}
    if "list" in w:
        return {"list": [_loosen(c, loose, ids) for c in w["list"]]}
    r = w["raw"]
    if isinstance(r, str) and (r in loose or (r.startswith(PREFIX) and r not in ids)):
        return {"raw": "<loose>"}
    return w


def shape_vs_model(m, y, objs, same_leaf, path="$"):
    """the model's decode (tree syntax, leaves = ids of `objs`) against the real result"""
    if "obj" in m:
        o = objs.get(m["obj"])
        if type(y) in (dict, list) or o is None:
            return path
        return None if same_leaf(o, y) is None else path
    if "raw" in m:
        r = m["raw"]
        if isinstance(r, dict):
            return None if type(y) is float and Fraction(*y.as_integer_ratio()) == Fraction(r["num"]) else path
        return None if same_raw(r, y) else path
    if "list" in m:
        if type(y) is not list or len(y) != len(m["list"]):
            return path
        for i, c in enumerate(m["list"]):
            r = shape_vs_model(c, y[i], objs, same_leaf, f"{path}[{i}]")
            if r:
                return r
        return None
    if type(y) is not dict or len(y) != len(m["dict"]):
        return path
    for (k, v), (ky, vy) in zip(m["dict"], y.items()):       # same insertion order
        if "str" in k:
            if not (type(ky) is str and ky == k["str"]):
                return f"{path}.key({k['str'][:30]})"
        else:
            o = objs.get(k["obj"])
            if o is None or type(ky) is str or same_leaf(o, ky) is not None:
                return f"{path}.key(obj {k['obj']})"
        r = shape_vs_model(v, vy, objs, same_leaf, f"{path}[{str(ky)[:30]}]")
        if r:
            return r
    return None


# --- shrinking ---------------------------------------------------------------------------------------------------
def _variants(t):
    """strictly smaller trees, biggest cuts first"""
    if "list" in t:
        for c in t["list"]:
            yield c
        for i in range(len(t["list"])):
            yield {"list": t["list"][:i] + t["list"][i + 1:]}
        for i, c in enumerate(t["list"]):
            for v in _variants(c):
                yield {"list": t["list"][:i] + [v] + t["list"][i + 1:]}
    elif "dict" in t:
        for _, v in t["dict"]:
            yield v
        for i in range(len(t["dict"])):
            yield {"dict": t["dict"][:i] + t["dict"][i + 1:]}
        for i, (k, v) in enumerate(t["dict"]):
            if "leaf" in k and not any("str" in k2 and k2["str"] == "k" for k2, _ in t["dict"]):
                yield {"dict": t["dict"][:i] + [[{"str": "k"}, v]] + t["dict"][i + 1:]}
            for w in _variants(v):
                yield {"dict": t["dict"][:i] + [[k, w]] + t["dict"][i + 1:]}
    elif "leaf" in t:
        yield {"raw": 0}
    elif not (t["raw"] == 0 and type(t["raw"]) is int):
        yield {"raw": 0}


def tree_size(t):
    if "list" in t:
        return 1 + sum(tree_size(c) for c in t["list"])
    if "dict" in t:
        return 1 + sum(1 + ("leaf" in k) + tree_size(v) for k, v in t["dict"])
    if "leaf" in t:
        return 3
    return 1 if (t["raw"] == 0 and type(t["raw"]) is int) else 2


def shrink(tree_spec, fails, budget=400):
    """greedy: take the first strictly smaller variant that still fails, until none does (or `budget` calls)"""
    cur = tree_spec
    calls = 0
    progress = True
    while progress and calls < budget:
        progress = False
        for v in _variants(cur):
            if tree_size(v) >= tree_size(cur):
                continue
            calls += 1
            try:
                bad = fails(v)
            except Exception:
                bad = False
            if bad:
                cur = v
                progress = True
                break
            if calls >= budget:
                break
    return cur


# --- simple leaves for stand-alone tests -------------------------------------------------------------------------
DEMO_STATES = ["|1,0>", "|0,1>", "|2,0,1>", "|>", "|0>", "|{_:0},{_:1}>", "|{P:H},0>", "|1,1,1,1>"]


def demo_gen_leaf(rng):
    r = rng.random()
    if r < 0.4:
        spec = {"t": "bs", "s": rng.choice(DEMO_STATES)}
    elif r < 0.55:
        sts = rng.sample(["|1,0>", "|0,1>", "|1,1>", "|2,0>"], rng.randint(0, 3))
        ps = [rng.choice([0.25, 0.5, 0.125, 1.0, 0.3]) for _ in sts]
        spec = {"t": "bsd", "items": [[s, p] for s, p in zip(sts, ps)]}
    elif r < 0.68:
        n = rng.randint(1, 3)
        spec = {"t": "mat", "rows": [[[rng.choice([0.0, 1.0, -0.5, 0.1]), rng.choice([0.0, 0.25])] for _ in range(n)]
                                     for _ in range(rng.randint(1, 3))]}
    elif r < 0.8:
        kw = {}
        if rng.random() < 0.6:
            kw["brightness"] = rng.choice([0.5, 1.0, 0.123])
        if rng.random() < 0.5:
            kw["g2"] = rng.choice([0.0, 0.01])
        if rng.random() < 0.3:
            kw["g2_distinguishable"] = rng.choice([True, False])
        spec = {"t": "noise", "kw": kw}
    elif r < 0.9:
        ops = []
        for _ in range(rng.randint(0, 3)):
            ops.append(["bs", rng.randint(0, 1)] if rng.random() < 0.5 else ["ps", rng.randint(0, 2), rng.choice([0.5, 1.0, -0.25])])
        spec = {"t": "circ", "m": 3, "ops": ops}
    else:
        spec = {"t": "det", "kind": rng.choice(["pnr", "threshold", "ppnr"]), "n": rng.randint(2, 4)}
    return spec, demo_build_leaf


def demo_build_leaf(spec):
    import perceval as pcvl
    from perceval.utils import BasicState, BSDistribution, NoiseModel
    t = spec["t"]
    if t == "bs":
        return BasicState(spec["s"])
    if t == "bsd":
        d = BSDistribution()
        for s, p in spec["items"]:
            d[BasicState(s)] = p
        return d
    if t == "mat":
        return pcvl.Matrix([[complex(a, b) for a, b in row] for row in spec["rows"]])
    if t == "noise":
        return NoiseModel(**spec["kw"])
    if t == "circ":
        c = pcvl.Circuit(spec["m"])
        for op in spec["ops"]:
            if op[0] == "bs":
                c.add(op[1], pcvl.BS())
            else:
                c.add(op[1], pcvl.PS(op[2]))
        return c
    if t == "det":
        if spec["kind"] == "pnr":
            return pcvl.Detector.pnr()
        if spec["kind"] == "threshold":
            return pcvl.Detector.threshold()
        return pcvl.Detector.ppnr(spec["n"], max(1, spec["n"] - 1))
    raise ValueError(t)


def demo_same_leaf(x, y):
    import numpy as np
    import perceval as pcvl
    from perceval.utils import BasicState, BSDistribution, NoiseModel, Matrix
    from perceval.components import Detector, ACircuit
    if isinstance(x, BasicState):
        return None if isinstance(y, BasicState) and x == y and str(x) == str(y) else f"state {x} vs {str(y)[:30]}"
    if isinstance(x, BSDistribution):
        if type(y) is not BSDistribution or {str(k) for k in x} != {str(k) for k in y}:
            return "BSDistribution keys"
        dy = {str(k): v for k, v in y.items()}
        return None if all(abs(v - dy[str(k)]) <= 1e-6 + 2e-6 * abs(v) for k, v in x.items()) else "BSDistribution values"
    if isinstance(x, Matrix):
        return None if isinstance(y, Matrix) and np.array(x).shape == np.array(y).shape and \
            np.array_equal(np.array(x), np.array(y)) else "matrix differs"
    if isinstance(x, NoiseModel):
        return None if isinstance(y, NoiseModel) and x.__dict__() == y.__dict__() else "noise model differs"
    if isinstance(x, Detector):
        return None if type(y) is type(x) and (x.name, x._wires, x.max_detections) == (y.name, y._wires, y.max_detections) \
            else "detector differs"
    if isinstance(x, ACircuit):
        if not isinstance(y, ACircuit) or x.m != y.m or x.ncomponents() != y.ncomponents():
            return "circuit shape"
        if [(r, type(c).__name__) for r, c in x] != [(r, type(c).__name__) for r, c in y]:
            return "circuit components"
        return None if np.allclose(np.array(x.compute_unitary()), np.array(y.compute_unitary()), atol=1e-12) else "circuit unitary"
    return None if type(x) is type(y) and x == y else "values differ"


def selftest(n=500, seed=0, boundary=0.1, driver=None, tmpdir=None, verbose=True):
    """n random trees (demo leaves) through random entries; returns the list of reports"""
    import random
    import tempfile
    import time
    import core
    own = driver is None
    driver = driver or core.LeanDriver("C15")
    rng = random.Random(seed)
    t0 = time.time()
    reports, hist = [], {}
    with tempfile.TemporaryDirectory(prefix="wt-C15-tree-", dir=tmpdir) as td:
        for i in range(n):
            spec = gen_tree(rng, rng.choice([0, 1, 2, 2, 3, 3, 4, 4]), demo_gen_leaf, boundary=boundary if rng.random() < 0.3 else 0.0)
            entry = gen_entry(rng)
            info = {}
            r = judge_tree(driver, spec, demo_build_leaf, demo_same_leaf, entry, td, info=info)
            st = info.get("stats", {})
            for k in ("wf", "raised"):
                hist[(k, info.get(k))] = hist.get((k, info.get(k)), 0) + 1
            hist[("depth", st.get("depth"))] = hist.get(("depth", st.get("depth")), 0) + 1
            hist[("objkeys>0", st.get("obj_keys", 0) > 0)] = hist.get(("objkeys>0", st.get("obj_keys", 0) > 0), 0) + 1
            hist[("entry", entry_name(entry))] = hist.get(("entry", entry_name(entry)), 0) + 1
            if "reject" in info:
                hist[("gen-reject", info["reject"][:40])] = hist.get(("gen-reject", info["reject"][:40]), 0) + 1
            if r is not None:
                def fails(s, _r=r):
                    q = judge_tree(driver, s, demo_build_leaf, demo_same_leaf, entry, td)
                    return q is not None and q[:2] == _r[:2]
                small = shrink(spec, fails)
                reports.append((r, entry, small))
    if own:
        driver.close()
    if verbose:
        print(f"seed {seed}: {n} trees, {len(reports)} reports, {time.time() - t0:.1f}s")
        for k in sorted(hist, key=str):
            print("   ", k, hist[k])
        seen = set()
        for r, entry, small in reports:
            if r[:2] in seen:
                continue
            seen.add(r[:2])
            print("  REPORT", r, entry_name(entry), json.dumps(small)[:400])
    return reports
