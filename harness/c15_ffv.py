"""C15 — feed-forward extension: value tables of an `FFConfigurator` as 32-bit floats, providers with
re-assigned keys.  Helper module for harness/c15.py (which wires the judges in); stand-alone `selftest`.

Lean side: Model/C15F32.lean (`f32`), Model/C15FF.lean (`FF` = providers, `FFC` = configurators),
Lemmas/C15F32.lean, Lemmas/C15FF.lean, driver `Driver/C15FFV.lean` (ops `f32`, `f32s`, `ffc`, `ffcp_any`).

What is compared
  * `check_f32`      : `float(numpy.float32(v))` against the model's `f32 v`, EXACTLY (both as rationals), on
                       doubles of every class (uniform, tiny, huge, subnormal-float32 range, exact float32
                       values, ties between two float32 neighbours and their double neighbours, overflow edge,
                       signed zeros).  A disagreement is ("broken", "model-vs-code:f32", …).
  * `judge_ffc`      : a real `FFConfigurator` x, the message its writer produced and what the reader rebuilt
                       (or the exception it raised) against the model: message values = `f32` of the object's
                       values, the rebuilt tables = those values, names / states / flag / offset / default-name
                       rule / linked variables, and the `KeyError` of a variable that holds a value.
                       Direct oracle of the property where the theorems say it holds
                       (`F32.f32_err_lt_32`, `FFC.roundtrip_configurator`): same states, names, flag, offset,
                       name; every value below 32 in absolute value comes back within 1e-6.  Beyond 32 /
                       overflow / valued variable are counted only (`counter`).
  * `judge_ffcp_any` : a real `FFCircuitProvider` built by ANY history (re-assigned keys included) against
                       `FF.roundtrip_provider_any`: the rebuilt `_max_circuit_size` is the model's true maximum.

A judge returns None or (kind, signature, what) with kind "violation" (the direct oracle fails on the real code)
or "broken" (model and code disagree while the direct oracle holds).
"""
from __future__ import annotations

import math
import random
import struct
import time
from fractions import Fraction

import numpy as np

from . import core

PRECISION = 1e-6          # the text precision of the property
RANGE = 32.0              # F32.f32_err_lt_32: |v| < 32 -> |f32 v - v| <= 2^-20 < 1e-6
F32_MAX = float(np.finfo(np.float32).max)
OVERFLOW = 2.0 ** 128 - 2.0 ** 103        # the first double that becomes inf


def rat(v) -> str:
    return core.rat(float(v))


def frac(s) -> Fraction:
    return Fraction(s)


def to_f32(v: float) -> float:
    with np.errstate(over="ignore", under="ignore"):
        return float(np.float32(v))


# ------------------------------------------------------------------------------------------------
# generators
# ------------------------------------------------------------------------------------------------
def _f32_from_bits(bits: int) -> float:
    return float(struct.unpack("<f", struct.pack("<I", bits & 0xFFFFFFFF))[0])


def _rand_f32(rng, subnormal=False) -> float:
    """an exact binary32 value, finite"""
    while True:
        sign = rng.getrandbits(1) << 31
        exp = 0 if subnormal else rng.randint(0, 254)
        v = _f32_from_bits(sign | (exp << 23) | rng.getrandbits(23))
        if math.isfinite(v):
            return v


def _next_f32(a: float) -> float:
    with np.errstate(over="ignore"):
        return float(np.nextafter(np.float32(a), np.float32(np.inf)))


def gen_double(rng, cls=None) -> float:
    """one finite double of a named class (see `F32_CLASSES`)"""
    cls = cls or rng.choice(F32_CLASSES)
    if cls == "uniform":
        return rng.uniform(-10, 10)
    if cls == "angle":
        return rng.uniform(0, 6.2)
    if cls == "decimal":
        return round(rng.uniform(-200, 200), rng.choice([1, 2, 3, 6]))
    if cls == "wide":
        return rng.choice([1, -1]) * 10 ** rng.uniform(-44, 38) * rng.uniform(1, 10) / 10
    if cls == "tiny":
        return rng.choice([1, -1]) * rng.uniform(0, 4) * 2.0 ** rng.randint(-160, -120)
    if cls == "subnormal":          # the subnormal range of binary32, not on the grid
        return rng.choice([1, -1]) * rng.uniform(0, 2.0 ** 23) * 2.0 ** -149
    if cls == "huge":
        return rng.choice([1, -1]) * rng.uniform(0.5, 1.0) * 2.0 ** rng.randint(100, 128)
    if cls == "exact":
        return _rand_f32(rng, subnormal=rng.random() < 0.2)
    if cls in ("tie", "tie+", "tie-"):
        a = _rand_f32(rng, subnormal=rng.random() < 0.2)
        b = _next_f32(a)
        if not math.isfinite(b):
            b = 2.0 ** 128                        # the would-be successor of the largest binary32
        mid = a / 2 + b / 2                       # exact in a double
        if cls == "tie+":
            return math.nextafter(mid, math.inf)
        if cls == "tie-":
            return math.nextafter(mid, -math.inf)
        return mid
    if cls == "edge":
        return rng.choice([0.0, -0.0, F32_MAX, -F32_MAX, OVERFLOW, -OVERFLOW, math.nextafter(OVERFLOW, 0),
                           math.nextafter(-OVERFLOW, 0), math.nextafter(OVERFLOW, math.inf), 2.0 ** 128, 1e39, -1e39,
                           2.0 ** -149, 2.0 ** -150, 1.5 * 2.0 ** -149, 2.5 * 2.0 ** -149, math.nextafter(2.0 ** -150, 1),
                           2.0 ** -126, math.nextafter(2.0 ** -126, 0), 5e-324, -5e-324, 1.7976931348623157e308,
                           1.0, -1.0, 8.0, 32.0, 100.1, 0.1, 2.0 ** 24 + 1, 2.0 ** 24 + 3, 2.0 ** 53 + 2])
    if cls == "bits":
        while True:
            v = struct.unpack("<d", struct.pack("<Q", rng.getrandbits(64)))[0]
            if math.isfinite(v):
                return v
    if cls == "int":
        return float(rng.randint(-2 ** rng.randint(1, 70), 2 ** rng.randint(1, 70)))
    raise ValueError(cls)


F32_CLASSES = ["uniform", "angle", "decimal", "wide", "tiny", "subnormal", "huge", "exact", "tie", "tie+", "tie-", "edge",
               "bits", "int"]


def gen_ffc_values(rng, names, finite32=True) -> dict:
    """a value table `name -> double` for an FFConfigurator: arbitrary doubles, not only [0, 6.2].
    `finite32`: keep the values below the binary32 overflow threshold (the model has no inf)."""
    out = {}
    for n in names:
        while True:
            cls = rng.choice(["angle", "angle", "uniform", "decimal", "exact", "tie", "tie+", "int", "wide", "tiny",
                              "subnormal", "edge", "mid", "python-int"])
            if cls == "mid":
                v = rng.choice([1, -1]) * rng.uniform(8, 40)            # around the threshold 32
            elif cls == "python-int":
                v = rng.choice([0, 1, 2, -1, 3])
            else:
                v = gen_double(rng, cls)
            if not finite32 or abs(v) < OVERFLOW:
                break
        out[n] = v
    return out


# ------------------------------------------------------------------------------------------------
# f32
# ------------------------------------------------------------------------------------------------
def check_f32(driver, rng, n, counter=None):
    """n doubles: `float(numpy.float32(v))` must equal the model's `f32 v` exactly -> None or a finding"""
    vs, cls = [], []
    for i in range(n):
        c = F32_CLASSES[i % len(F32_CLASSES)] if i < 4 * len(F32_CLASSES) else rng.choice(F32_CLASSES)
        vs.append(gen_double(rng, c))
        cls.append(c)
    for lo in range(0, n, 500):
        chunk = vs[lo:lo + 500]
        rep = driver.ask({"op": "f32s", "vs": [rat(v) for v in chunk]})
        if "err" in rep:
            return "broken", "model-vs-code:f32", f"driver: {rep['err']}"
        for v, c, m in zip(chunk, cls[lo:lo + 500], rep["f32s"]):
            w = to_f32(v)
            if counter is not None:
                counter["f32:" + c] = counter.get("f32:" + c, 0) + 1
                if math.isinf(w):
                    counter["f32-overflow"] = counter.get("f32-overflow", 0) + 1
                elif w != v:
                    counter["f32-inexact"] = counter.get("f32-inexact", 0) + 1
            if math.isinf(w):
                ok = m is None
            else:
                ok = m is not None and frac(m) == Fraction(*w.as_integer_ratio())
            if not ok:
                return ("broken", "model-vs-code:f32",
                        f"float32({v!r}) [{c}] = {w!r}, the model's f32 gives {m}")
    return None


# ------------------------------------------------------------------------------------------------
# FFConfigurator
# ------------------------------------------------------------------------------------------------
def _table(d) -> dict:
    return {str(n): Fraction(*float(v).as_integer_ratio()) for n, v in d.items()}


def _jtable(t) -> dict:
    return {n: frac(v) for n, v in t}


def ffc_request(x, wire=None) -> dict:
    """a history that builds the object `x` in the model: constructor (no variable holds a value), one
    `add_configuration` per state, `set_value` for every variable that holds a value now, the flag"""
    vs = list(x._controlled.vars.items())
    ops = [["add", str(k), k.m, [[n, rat(v)] for n, v in cfg.items()]] for k, cfg in x._configs.items()]
    ops += [["set", n, rat(p._value)] for n, p in vs if p._value is not None]
    if x._blocked_circuit_size:
        ops.append(["block"])
    return {"op": "ffc", "m": x.m, "offset": x._offset, "name": x.name, "vars": [[n, None] for n, _ in vs],
            "default": [[n, rat(v)] for n, v in x._default_config.items()], "ops": ops, "wire": wire}


def _finite_tables(x):
    for t in [x._default_config] + list(x._configs.values()):
        for v in t.values():
            if not math.isfinite(float(v)):
                return False
    return True


def judge_ffc(driver, x, msg, y, counter=None):
    """x: real FFConfigurator; msg: its `pb.FFConfigurator`; y: what the reader returned, or the exception it raised.
    -> None | (kind, signature, what).  `counter` (dict) records what lies outside the theorems."""
    counter = counter if counter is not None else {}

    def cnt(k, d=1):
        counter[k] = counter.get(k, 0) + d

    if not _finite_tables(x):
        cnt("ffc-nonfinite")
        return None
    valued = sorted(n for n, p in x._controlled.vars.items() if p._value is not None)
    tables_x = [("default", x._default_config)] + [(str(k), c) for k, c in x._configs.items()]
    overflow = any(abs(float(v)) >= OVERFLOW for _, t in tables_x for v in t.values())
    raised = isinstance(y, BaseException)

    # ---- the property itself, where the theorems say it holds ----
    if not valued and not raised:
        tables_y = dict([("default", y._default_config)] + [(str(k), c) for k, c in y._configs.items()])
        # an empty name is outside the property (the reader's `name or None` turns it into "FFC"): both are accepted
        # here, the model comparison below is strict
        want_name = y.name if (x.name == "" and y.name in ("", "FFC")) else x.name
        if [y.m, y._offset, y.name, bool(y._blocked_circuit_size)] != [x.m, x._offset, want_name,
                                                                        bool(x._blocked_circuit_size)]:
            return ("violation", "ffc-structure", f"m / offset / name / flag: {[x.m, x._offset, x.name, x._blocked_circuit_size]}"
                    f" became {[y.m, y._offset, y.name, y._blocked_circuit_size]}")
        if sorted(tables_y) != sorted(k for k, _ in tables_x):
            return ("violation", "ffc-structure", f"states {sorted(k for k, _ in tables_x)} became {sorted(tables_y)}")
        if sorted(y._linked_vars) != sorted(x._linked_vars):
            return "violation", "ffc-structure", f"linked variables {sorted(x._linked_vars)} became {sorted(y._linked_vars)}"
        for k, t in tables_x:
            ty = tables_y[k]
            if sorted(ty) != sorted(t):
                return "violation", "ffc-structure", f"table {k}: names {sorted(t)} became {sorted(ty)}"
            for n, v in t.items():
                v = float(v)
                if abs(v) < RANGE:
                    cnt("ffc-values-in-range")
                    if not abs(float(ty[n]) - v) <= PRECISION:
                        return ("violation", "ffc-value-precision",
                                f"table {k}: {n} = {v!r} came back as {float(ty[n])!r} (|v| < 32: must be within 1e-6)")
                else:
                    cnt("ffc-values-beyond-32")
                    if abs(float(ty[n]) - v) > PRECISION:
                        cnt("ffc-values-beyond-32-moved")
    elif not valued and raised and not overflow:
        return ("violation", "ffc-reader-raises", f"the reader raises {type(y).__name__}: {y} on a configurator whose "
                "variables hold no value")

    # ---- model vs code ----
    wire = {"default": [str(n) for n in msg.default_config.mapping],
            "configs": [[str(k), [str(n) for n in v.mapping]] for k, v in msg.configs.items()]}
    if sorted(wire["default"]) != sorted(x._default_config) or \
            sorted(k for k, _ in wire["configs"]) != sorted(str(k) for k in x._configs) or \
            any(sorted(ns) != sorted(x._configs[k2]) for k, ns in wire["configs"]
                for k2 in x._configs if str(k2) == k):
        return "broken", "model-vs-code:ffc", "the message does not carry the states / names of the object"
    rep = driver.ask(ffc_request(x, wire))
    if "err" in rep:
        return "broken", "model-vs-code:ffc", f"driver: {rep['err']}"
    if rep["new"] is not None or rep["raised"]:
        return ("broken", "model-vs-code:ffc", f"the model's constructor / add_configuration rejects what the code accepted: "
                f"{rep['new']} {rep.get('raised')}")
    st = rep["state"]
    if [st["m"], st["offset"], st["name"], st["blocked"], sorted(st["linked"])] != \
            [x.m, x._offset, x.name, bool(x._blocked_circuit_size), sorted(x._linked_vars)]:
        return "broken", "model-vs-code:ffc", "state of the object (m, offset, name, flag, linked variables)"
    if rep["overflow"]:
        cnt("ffc-overflow")           # a value becomes inf: outside the model; check the message says so
        for k, t in tables_x:
            mt = msg.default_config.mapping if k == "default" else msg.configs[k].mapping
            for n, v in t.items():
                if abs(float(v)) >= OVERFLOW and not math.isinf(mt[n]):
                    return "broken", "model-vs-code:ffc", f"{v!r} is not written as inf"
        return None
    enc = rep["enc"]
    if [enc["name"], enc["offset"], enc["block"]] != [msg.name, msg.offset, msg.block_circuit_size]:
        return ("broken", "model-vs-code:ffc", f"message name / offset / flag: {[msg.name, msg.offset, msg.block_circuit_size]}, "
                f"model {[enc['name'], enc['offset'], enc['block']]}")
    if _jtable(enc["default"]) != _table(msg.default_config.mapping):
        return ("broken", "model-vs-code:ffc", f"default table of the message {dict(msg.default_config.mapping)} is not the "
                f"f32 of {x._default_config}")
    got = {str(k): _table(v.mapping) for k, v in msg.configs.items()}
    want = {k: _jtable(t) for k, t in enc["configs"]}
    if got != want:
        return "broken", "model-vs-code:ffc", f"tables of the message {got} are not the f32 of {x._configs}"
    dec = rep["dec"]
    if "err" in dec:
        if not raised:
            return "broken", "model-vs-code:ffc", f"the model's reader raises {dec['err']}, the reader did not"
        cls_, _, arg = dec["err"].partition(":")
        if type(y).__name__ != cls_ or (cls_ == "KeyError" and y.args[:1] != (arg,)):
            return ("broken", "model-vs-code:ffc", f"the reader raises {type(y).__name__}{y.args}, the model's {dec['err']}")
        cnt("ffc-keyerror-boundary")          # FFC.reader_keyerror: a linked variable holds a value
        conf = {}
        from perceval.utils import BasicState
        for k in x._configs:
            try:
                x.configure(BasicState(str(k)))
                conf[str(k)] = None
            except Exception as e:        # noqa: BLE001
                conf[str(k)] = type(e).__name__ + ":" + str(e.args[0] if e.args else "")
        if conf != {k: e for k, e in rep["configure"]}:
            return "broken", "model-vs-code:ffc", f"configure on the original: code {conf}, model {rep['configure']}"
        return None
    if raised:
        return "broken", "model-vs-code:ffc", f"the reader raises {type(y).__name__}: {y}; the model's reader does not"
    d = dec["ok"]
    if [d["m"], d["offset"], d["name"], d["blocked"], sorted(d["linked"])] != \
            [y.m, y._offset, y.name, bool(y._blocked_circuit_size), sorted(y._linked_vars)]:
        return ("broken", "model-vs-code:ffc", f"rebuilt m / offset / name / flag / linked: "
                f"{[y.m, y._offset, y.name, y._blocked_circuit_size, sorted(y._linked_vars)]}, model "
                f"{[d['m'], d['offset'], d['name'], d['blocked'], sorted(d['linked'])]}")
    if _jtable(d["default"]) != _table(y._default_config):
        return "broken", "model-vs-code:ffc", f"rebuilt default table {y._default_config}, model {d['default']}"
    if {k: _jtable(t) for k, t in d["configs"]} != {str(k): _table(c) for k, c in y._configs.items()}:
        return "broken", "model-vs-code:ffc", f"rebuilt tables {y._configs}, model {d['configs']}"
    return None


# ------------------------------------------------------------------------------------------------
# FFCircuitProvider, any history
# ------------------------------------------------------------------------------------------------
def _coe_size(coe):
    """mode count of a `pb.CircuitOrExperiment` / of the default payload when it is a circuit, else None"""
    which = coe.WhichOneof("type")
    return coe.circuit.n_mode if which == "circuit" else None


def judge_ffcp_any(driver, x_history_spec, real_state, msg, y, counter=None):
    """x_history_spec: {"m","offset","name","default":[id,size],"ops":[["add",key,[id,size]]|["block"]]} — the calls made
    on the real provider (key = str(BasicState)); real_state: the real provider, or {"obj": provider, "raised": [i…]}
    (indices of the calls that raised and were skipped); msg: its `pb.FFCircuitProvider`; y: the rebuilt provider or the
    exception the reader raised."""
    counter = counter if counter is not None else {}

    def cnt(k, d=1):
        counter[k] = counter.get(k, 0) + d

    if isinstance(real_state, dict):
        x, real_raised = real_state["obj"], list(real_state.get("raised", []))
    else:
        x, real_raised = real_state, []
    raised = isinstance(y, BaseException)
    sizes = [x.default_circuit.m] + [c.m for c in x._map.values()]
    stale = x._max_circuit_size != max(sizes)

    # ---- the property itself ----
    if raised:
        return ("violation", "ffcp-reader-raises", f"the reader raises {type(y).__name__}: {y} on a provider built by "
                f"legal calls")
    want_name = y.name if (x.name == "" and y.name in ("", "FFC")) else x.name
    if [y.m, y._offset, y.name, bool(y._blocked_circuit_size)] != [x.m, x._offset, want_name, bool(x._blocked_circuit_size)]:
        return ("violation", "ffcp-structure", f"m / offset / name / flag {[x.m, x._offset, x.name, x._blocked_circuit_size]} "
                f"became {[y.m, y._offset, y.name, y._blocked_circuit_size]}")
    if sorted((str(k), c.m) for k, c in x._map.items()) != sorted((str(k), c.m) for k, c in y._map.items()) or \
            y.default_circuit.m != x.default_circuit.m:
        return "violation", "ffcp-structure", "keys / sizes of the configured circuits or the default circuit changed"
    modes = tuple(range(9, 9 + x.m))
    if not stale:
        if y._max_circuit_size != x._max_circuit_size:
            return ("violation", "ffcp-max-size", f"_max_circuit_size {x._max_circuit_size} became {y._max_circuit_size} "
                    f"although it is the size of one of the circuits")
        if y.config_modes(modes) != x.config_modes(modes):
            return "violation", "ffcp-max-size", "config_modes differ"
    else:
        cnt("ffcp-stale-max")                       # boundary: the stored maximum is not attained any more
        if y.config_modes(modes) == x.config_modes(modes):
            return ("broken", "model-vs-code:ffcp", "a stale maximal size survived the round trip "
                    "(FF.roundtrip_provider_any_configModes says config_modes must differ)")
        if x._offset < 0 and y.config_modes(modes)[0] != x.config_modes(modes)[0]:
            cnt("ffcp-stale-max-first-mode-moves")

    # ---- model vs code ----
    req = dict(x_history_spec, op="ffcp_any", wire=[str(k) for k in msg.config_circ])
    rep = driver.ask(req)
    if "err" in rep:
        return "broken", "model-vs-code:ffcp", f"driver: {rep['err']}"
    if rep["raised"] != real_raised:
        return "broken", "model-vs-code:ffcp", f"calls that raise: code {real_raised}, model {rep['raised']}"
    st = rep["state"]
    if [st["max"], st["blocked"], [[k, sz] for k, _, sz in st["map"]]] != \
            [x._max_circuit_size, bool(x._blocked_circuit_size), [[str(k), c.m] for k, c in x._map.items()]]:
        return ("broken", "model-vs-code:ffcp", f"state after the history: code max {x._max_circuit_size} map "
                f"{[[str(k), c.m] for k, c in x._map.items()]}, model {st}")
    if not rep["inv"]:
        return "broken", "model-vs-code:ffcp", "the model's invariant Inv fails on a reachable state"
    if (rep["true_max"] != x._max_circuit_size) != stale or rep["true_max"] != max(sizes):
        return "broken", "model-vs-code:ffcp", f"true_max {rep['true_max']} vs sizes {sizes}"
    enc = rep["enc"]
    if [enc["name"], enc["offset"], enc["block"]] != [msg.name, msg.offset, msg.block_circuit_size]:
        return "broken", "model-vs-code:ffcp", "message name / offset / flag"
    got = [[str(k), _coe_size(v)] for k, v in msg.config_circ.items()]
    want = [[k, sz] for k, _, sz in enc["configs"]]
    if [k for k, _ in got] != [k for k, _ in want] or any(g[1] is not None and g[1] != w[1] for g, w in zip(got, want)):
        return "broken", "model-vs-code:ffcp", f"message entries {got}, model {want}"
    dec = rep["dec"]
    if dec is None:
        return "broken", "model-vs-code:ffcp", "the model's reader raises, the reader did not"
    if [dec["name"], dec["offset"], dec["max"], dec["blocked"], sorted([k, sz] for k, _, sz in dec["map"])] != \
            [y.name, y._offset, y._max_circuit_size, bool(y._blocked_circuit_size),
             sorted([str(k), c.m] for k, c in y._map.items())]:
        return ("broken", "model-vs-code:ffcp", f"rebuilt provider: max {y._max_circuit_size} name {y.name!r} flag "
                f"{y._blocked_circuit_size}; model max {dec['max']} name {dec['name']!r} flag {dec['blocked']}")
    if rep["dec_max"] != rep["true_max"] or not rep["second_eq"]:
        return "broken", "model-vs-code:ffcp", "model: decoded max is not the true max / second trip differs"
    return None


# ------------------------------------------------------------------------------------------------
# stand-alone self test on real objects
# ------------------------------------------------------------------------------------------------
STATES = {1: ["|0>", "|1>", "|2>", "|3>"], 2: ["|0,0>", "|0,1>", "|1,0>", "|1,1>", "|2,0>", "|0,2>"]}
NAMES = ["a", "b", "c", "phi_1"]


def build_ctrl(pcvl, rng, w, names):
    """a circuit of `w` modes in which every name is one variable used once"""
    c = pcvl.Circuit(w, name=rng.choice([None, "ctrl"])) if rng.random() < 0.5 else pcvl.Circuit(w)
    params = {}
    for n in names:
        p_ = pcvl.P(n)
        params[n] = p_
        if w >= 2 and rng.random() < 0.5:
            c.add(rng.randint(0, w - 2), pcvl.BS(theta=p_))
        else:
            c.add(rng.randint(0, w - 1), pcvl.PS(p_))
    if rng.random() < 0.5:
        c.add(0, pcvl.PS(rng.uniform(0, 3)))
    return c, params


def make_ffc(pcvl, rng):
    from perceval.components import FFConfigurator
    from perceval.utils import BasicState
    k = rng.choice([1, 2])
    w = rng.randint(1, 3)
    names = rng.sample(NAMES, rng.randint(1, 3))
    ctrl, params = build_ctrl(pcvl, rng, w, names)
    order = list(names)
    rng.shuffle(order)
    x = FFConfigurator(k, rng.randint(-2, 2), ctrl, gen_ffc_values(rng, order), rng.choice([None, None, "", "cfg", "FFC", "f 1"]))
    for st in rng.sample(STATES[k], rng.randint(0, 3)):
        rng.shuffle(order)
        # now and then a value beyond the binary32 range (becomes inf: outside the model, counted)
        x.add_configuration(BasicState(st), gen_ffc_values(rng, order, finite32=rng.random() > 0.03))
    if rng.random() < 0.3:
        x.block_circuit_size()
    if rng.random() < 0.08:                       # the KeyError boundary: a linked variable gets a value afterwards
        params[rng.choice(names)].set_value(rng.uniform(0, 3))
    return x


def make_ffcp(pcvl, rng):
    """-> (provider, history spec, indices of the calls that raised)"""
    from perceval.components import FFCircuitProvider
    from perceval.utils import BasicState

    def circ(w):
        c = pcvl.Circuit(w)
        for _ in range(rng.randint(0, 2)):
            c.add(rng.randint(0, w - 1), pcvl.PS(rng.uniform(0, 3)))
        return c if rng.random() < 0.7 or w != 1 else pcvl.PS(rng.uniform(0, 3))

    k = rng.choice([1, 2])
    d = rng.randint(1, 4)
    x = FFCircuitProvider(k, rng.randint(-2, 2), circ(d), rng.choice([None, None, "", "prov", "FFC"]))
    spec = {"m": k, "offset": x._offset, "name": x.name, "default": [0, d], "ops": []}
    raised = []
    keys = rng.sample(STATES[k], rng.randint(1, 3))           # few keys: re-assignments are frequent
    for i in range(rng.randint(0, 6)):
        if rng.random() < 0.15:
            x.block_circuit_size()
            spec["ops"].append(["block"])
            continue
        st, w = rng.choice(keys), rng.randint(1, 4)
        if x._blocked_circuit_size and rng.random() < 0.7:
            w = x._max_circuit_size
        spec["ops"].append(["add", str(BasicState(st)), [i + 1, w]])
        try:
            x.add_configuration(BasicState(st), circ(w))
        except RuntimeError:
            raised.append(len(spec["ops"]) - 1)
    return x, spec, raised


def selftest(seed=0, n=500, verbose=True):
    """builds real FFConfigurator / FFCircuitProvider objects, runs serialize / deserialize and the judges.
    Prints one line per finding and a summary; returns the list of findings."""
    import perceval as pcvl
    from perceval.serialization import serialize, deserialize
    from perceval.serialization._circuit_serialization import ComponentSerializer

    rng = random.Random(seed)
    driver = core.LeanDriver("C15")
    counter, findings = {}, []
    t0 = time.time()

    def report(r, what):
        if r is not None:
            findings.append(r)
            print(f"FINDING {r[0]} {r[1]}: {r[2]}   [{what}]")

    try:
        report(check_f32(driver, rng, max(2000, 4 * n), counter), "f32")
        t1 = time.time()
        for i in range(n):
            x = make_ffc(pcvl, rng)
            msg = ComponentSerializer().serialize(0, x).ff_configurator
            try:
                y = deserialize(serialize(x, compress=rng.choice([True, False])))
            except Exception as e:        # noqa: BLE001
                y = e
            r = judge_ffc(driver, x, msg, y, counter)
            report(r, f"ffc case {i}")
            if r is None and not isinstance(y, BaseException) and _finite_tables(y):
                # a second trip is exact (FFC.roundtrip_configurator_second)
                z = deserialize(serialize(y))
                if (_table(z._default_config), {str(k_): _table(c) for k_, c in z._configs.items()}) != \
                        (_table(y._default_config), {str(k_): _table(c) for k_, c in y._configs.items()}):
                    report(("violation", "ffc-second-trip", "a second round trip changes the tables"), f"ffc case {i}")
            if len(findings) > 5:
                break
        t2 = time.time()
        for i in range(n):
            x, spec, raised = make_ffcp(pcvl, rng)
            msg = ComponentSerializer().serialize(0, x).ff_circuit_provider
            try:
                y = deserialize(serialize(x, compress=rng.choice([True, False])))
            except Exception as e:        # noqa: BLE001
                y = e
            r = judge_ffcp_any(driver, spec, {"obj": x, "raised": raised}, msg, y, counter)
            report(r, f"ffcp case {i}")
            if r is None and not isinstance(y, BaseException):
                z = deserialize(serialize(y))       # FF.roundtrip_provider_second
                if [z._max_circuit_size, z.name, z._offset, bool(z._blocked_circuit_size),
                    sorted((str(k_), c.m) for k_, c in z._map.items())] != \
                        [y._max_circuit_size, y.name, y._offset, bool(y._blocked_circuit_size),
                         sorted((str(k_), c.m) for k_, c in y._map.items())]:
                    report(("violation", "ffcp-second-trip", "a second round trip changes the provider"), f"ffcp case {i}")
            if len(findings) > 5:
                break
        t3 = time.time()
    finally:
        driver.close()
    if verbose:
        print(f"selftest seed={seed} n={n}: {len(findings)} finding(s); f32 {t1 - t0:.1f}s, ffc {t2 - t1:.1f}s, "
              f"ffcp {t3 - t2:.1f}s; counters {dict(sorted(counter.items()))}")
    return findings
